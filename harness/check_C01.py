#!/usr/bin/env python3
"""C01 -- rrule yields exactly the RFC 5545 recurrence set, in order.

Hand model of rrule.__init__/_iter/_iterinfo (coq/rr/RRNorm, RRMasks, RRIter) + independent
executable specification (coq/rr/RRSpec) + theorems (coq/props/C01.v) + differential
correspondence: REAL dateutil.rrule vs extracted model vs extracted spec on rules drawn from the
whole product space, small-scope exhaustive streams and a malformed stream."""
import datetime
import json
import multiprocessing
import os
import re
import sys
import time

sys.path.insert(0, os.path.dirname(os.path.abspath(__file__)))
import common as C

C.reexec_under_impl_python()

import rr_common as RC  # noqa: E402

CID = "C01"
VO = ["props/C01.vo", "rr/RRIter.vo", "rr/RRSpec.vo", "rr/RRMasks.vo", "rr/RRNorm.vo", "rr/RRBase.vo",
      "gen/RrTables.vo", "gen/EasterGen.vo", "easter/EasterSpec.vo"]
ORACLE_EXE = os.path.join(C.BIN, "oracle_rr")
CORPUS = os.path.join(C.VERIF, "corpus", "regressions", "C01.jsonl")


# ------------------------------------------------------------------ known findings
# Eleven defects found by this check were repaired in /repo (see known_findings.json "fixed"; the four of the audit
# round of 2026-10-02 are 55654b4 BYMONTHDAY=0, e1e7505 out-of-range members of the rule's own time unit, 8ced7a9 the
# week containing 9999-12-31, 3426f68 the first week before 0001-01-01); their witnesses run first on every check
# from corpus/regressions/C01.jsonl and have regression theorems in coq/rr/RRRegress.v / RRFindings.v.  There is no
# open C01 finding, so NO difference is tolerated: MATCHERS is empty.
def _first_diff(a, b):
    """first instant at which two increasing sequences differ (the smaller of the two members)"""
    for x, y in zip(a, b):
        if x != y:
            return min(x, y)
    if len(a) != len(b):
        longer = a if len(a) > len(b) else b
        return longer[min(len(a), len(b))]
    return None


def _payload_first_diff(p):
    impl, spec = p.get("impl"), p.get("spec")
    if not impl or not spec:
        return None
    n = len(impl["items"])
    si = spec["items"][:n] if impl["status"] == "L" else spec["items"]
    return _first_diff(impl["items"], si)


MATCHERS = {}

# ------------------------------------------------------------------ soundness thresholds (fail closed)
# fractions of the evaluated (resp. generated) cases of a run; beyond them the run FAILS with a non-concrete
# violation "inconclusive budget exceeded": a class of inputs that is systematically too slow to be decided must
# not pass silently.  Measured on this machine (16 cores shared with other builders): stall 0, model-inconclusive
# ~1.0 %, spec-inconclusive ~0.9 %, domain-timeout < 0.01 %, oracle restarts ~0.4 %, skipped ~17 % (of which the
# rules that never match beyond the relocation cap are the bulk).
THRESHOLDS = {"stall": 0.002, "model_inconclusive": 0.04, "spec_inconclusive": 0.04, "domain_timeout": 0.002,
              "oracle_restarts": 0.03, "skipped": 0.35, "dst_inconclusive": 0.05, "dst_skipped": 0.45}


# ------------------------------------------------------------------ streams
def stream_random(tag, n, malformed):
    rnd = C.rng("C01/%s" % tag)
    for _ in range(n):
        yield RC.rand_case(rnd, malformed=malformed), rnd


def exhaustive_weekno_cases(tier):
    """every BYWEEKNO -53..53 x wkst 0..6 x one year per year shape; YEARLY over two years so that
    the start and the end of the year and the next year's start are all inside the window; in the
    thorough tier also WEEKLY (cross-year weeks through the +7 mask extension) and MONTHLY."""
    years = RC.year_shapes()
    if tier == "quick":
        years = years[C.seed() % 4::4]   # 7 of the 28 shapes per quick run (rotating with the seed); all 28 in thorough
    out = []
    for y in years:
        for wk in range(7):
            for n in list(range(-53, 0)) + list(range(1, 54)):
                out.append(RC.mk_case(0, y, 1, 1, until=(y + 1, 12, 31), N=40, wkst=wk, byweekno=[n],
                                      byhour=[0], byminute=[0], bysecond=[0]))
                if tier != "quick" and (abs(n) >= 51 or abs(n) <= 2):
                    out.append(RC.mk_case(2, y, 12, 1, until=(y + 1, 1, 31), N=40, wkst=wk, byweekno=[n],
                                          byweekday=[[d, 0] for d in range(7)]))
                    out.append(RC.mk_case(1, y, 12, 1, until=(y + 1, 1, 31), N=40, wkst=wk, byweekno=[n],
                                          byweekday=[[d, 0] for d in range(7)]))
    return out


def exhaustive_nth_weekday_cases(tier):
    """every weekday(n): YEARLY without BYMONTH (n = +-1..+-54), YEARLY with BYMONTH and MONTHLY
    (n = +-1..+-6), 7 weekdays, leap / non-leap years with every weekday of 1 January"""
    years = [y for y in RC.year_shapes()][:: (4 if tier == "quick" else 1)]
    out = []
    for y in years:
        for wd in range(7):
            ns = [n for n in range(-54, 55) if n != 0]
            if tier == "quick":
                ns = [n for n in ns if abs(n) <= 6 or abs(n) >= 50 or n % 9 == 0]
            for n in ns:
                out.append(RC.mk_case(0, y, 1, 1, until=(y, 12, 31), N=5, byweekday=[[wd, n]]))
            for n in range(-6, 7):
                if n == 0:
                    continue
                out.append(RC.mk_case(1, y, 1, 1, until=(y, 12, 31), N=20, byweekday=[[wd, n]]))
                out.append(RC.mk_case(0, y, 1, 1, until=(y, 12, 31), N=20, byweekday=[[wd, n]],
                                      bymonth=[2, 4, 12]))
    return out


def corpus_cases():
    out = []
    if os.path.exists(CORPUS):
        for line in open(CORPUS):
            line = line.strip()
            if line and not line.startswith("#"):
                out.append(json.loads(line))
    return out


# ------------------------------------------------------------------ one worker = one chunk
def classify(case):
    parts = [k for k in RC.ALLBY if case.get(k) is not None]
    return parts


def process_chunk(job):
    """job = (kind, tag, payload).  Returns a summary dict with violations."""
    kind, tag, payload = job
    orc = RC.TimedOracle(ORACLE_EXE)
    summ = {"n": 0, "generated": 0, "skipped": 0, "model_inconclusive": 0, "spec_inconclusive": 0, "stall": 0,
            "domain_timeout": 0, "in_wf": 0, "in_xwf": 0, "in_family": 0, "dst_n": 0, "dst_inconclusive": 0, "dst_generated": 0, "dst_skipped": 0,
            "model_diff": 0, "spec_diff": 0, "violations": [], "hist": {}, "keys": [], "samples": [],
            "relocated": {}, "classes": {}}
    budget = {"seen": 0, "relocated": 0}

    def bump(k, v=1):
        summ["hist"][k] = summ["hist"].get(k, 0) + v

    def cls(what, case):
        """per-class breakdown of everything that was NOT decided: by outcome, FREQ and BY-parts"""
        k = "%s|freq=%s|%s" % (what, case.get("freq"), "+".join(sorted(classify(case))) or "-")
        summ["classes"][k] = summ["classes"].get(k, 0) + 1

    def handle(case, rnd):
        summ["generated"] += 1
        if rnd is not None:
            budget["seen"] += 1
            m, why = RC.prepare(case, orc, rnd, budget)
            if m is None:
                summ["skipped"] += 1
                bump("skipped:" + why)
                cls("skipped:" + why, case)
                return
        else:
            m = None
        r = RC.evaluate(case, orc, m)
        summ["n"] += 1
        impl, model, spec = r["impl"], r["model"], r["spec"]
        bump("freq=%d" % case["freq"])
        bump("start=%s" % case["start"]["kind"])
        bump("domain=%s" % r["domain"])
        if case.get("wkst_default"):
            bump("wkst=default(calendar.firstweekday)")
        bump("term=%s" % ("count+until" if case.get("count") is not None and case.get("until") else
                          "count" if case.get("count") is not None else
                          "until" if case.get("until") else "first-N"))
        bump("impl=%s%s" % (impl["status"], ("/%s" % impl["exn"]) if impl["status"] == "R" else ""))
        bump("nparts=%d" % len(classify(case)))
        for k in classify(case):
            bump("has_" + k)
            v = case[k]
            if k != "byweekday" and any(x < 0 for x in v):
                bump("neg_" + k)
            if len(v) == 0:
                bump("empty_" + k)
        if case.get("byweekday") and any(n != 0 for _, n in case["byweekday"]):
            bump("has_nth_weekday")
        if case.get("relocated"):
            summ["relocated"][case["relocated"]] = summ["relocated"].get(case["relocated"], 0) + 1
        if case["interval"] > 1:
            bump("interval>1")
        nontrivial = (len(classify(case)) > 0 or case["interval"] > 1) and \
                     (len(impl["items"]) >= 2 or impl["status"] == "R")
        summ["keys"].append((RC.case_key(case), nontrivial))
        if r["domain"] == "domain-timeout":
            summ["domain_timeout"] += 1
            cls("domain-timeout", case)
        if r["domain"] == "extended":
            summ["in_xwf"] += 1
        if r["wf"]:
            summ["in_wf"] += 1
            if RC.in_proved_family(case):
                summ["in_family"] += 1
        if impl["status"] == "T":
            summ["stall"] += 1
            cls("stall", case)
        # whole seconds, start's tzinfo, strictly increasing
        if impl["extra"]:
            summ["violations"].append(({"kind": "resolution/tzinfo", "input": case, "impl": impl,
                                        "what": "yielded value with microseconds or foreign tzinfo: %s"
                                                % impl["extra"][:3]}, True))
        if any(b <= a for a, b in zip(impl["items"], impl["items"][1:])):
            summ["violations"].append(({"kind": "order", "input": case, "impl": impl,
                                        "what": "yielded sequence is not strictly increasing"}, True))
        sv = r["spec_verdict"]
        if sv == "inconclusive":
            summ["spec_inconclusive"] += 1
            cls("spec-inconclusive", case)
            sv = None
        if sv == "stall":
            sv = None
        if sv:
            summ["spec_diff"] += 1
            summ["violations"].append(({"kind": "spec", "what": "implementation differs from the executable "
                                        "specification: " + sv, "input": case, "impl": impl, "spec": spec,
                                        "model": model, "domain": r["domain"],
                                        "first_difference": RC.fmt_inst(_payload_first_diff(
                                            {"impl": impl, "spec": spec}) or 0)}, True))
        if r["model_agrees"] is None:
            if impl["status"] != "T":
                summ["model_inconclusive"] += 1
                cls("model-inconclusive", case)
        elif r["model_agrees"] is False:
            summ["model_diff"] += 1
            if not sv:
                summ["violations"].append(({"kind": "correspondence", "what": "extracted model differs from "
                                            "the implementation (the theorems no longer speak about this code)",
                                            "input": case, "impl": impl, "model": model, "spec": spec},
                                           False))
        if len(summ["samples"]) < 3 and nontrivial and summ["n"] % 7 == 0:
            summ["samples"].append({"input": case, "impl": {"status": impl["status"], "first": [
                RC.fmt_inst(x) for x in impl["items"][:4]], "n": len(impl["items"])},
                "model_agrees": r["model_agrees"], "spec_verdict": r["spec_verdict"] or "agree"})

    def handle_dst(case):
        """-> False when the draw was skipped (the caller draws a replacement)"""
        summ["dst_generated"] += 1
        v = RC.evaluate_dst(case, orc)
        if v == "skip":
            summ["dst_skipped"] += 1
            cls("dst-skip(no end before the cap within the fuel)", case)
            return False
        summ["generated"] += 1
        summ["dst_n"] += 1
        bump("class=dst-zone-start+utc-until")
        if v in ("inconclusive", "stall"):
            summ["dst_inconclusive"] += 1
            cls("dst-" + v, case)
        elif v is not None:
            what, expected, got = v
            summ["spec_diff"] += 1
            summ["violations"].append(({"kind": "dst-until", "what": "DST-zone start with UTC UNTIL: " + what,
                                        "input": case, "expected_wall": [RC.fmt_inst(x) for x in expected[:60]],
                                        "got_wall": [RC.fmt_inst(x) for x in got[:60]]}, True))
        return True

    try:
        if kind == "random":
            n, malformed = payload
            for case, rnd in stream_random(tag, n, malformed):
                handle(case, rnd)
        elif kind == "dst":
            rnd = C.rng("C01/%s" % tag)
            done = 0
            for _ in range(3 * payload):            # skipped draws are replaced, at most 3 draws per wanted case
                if done >= payload:
                    break
                case = RC.dst_case(rnd)
                if case is not None and handle_dst(case):
                    done += 1
        else:
            for case in payload:
                handle(case, None)
    finally:
        summ["oracle_restarts"] = orc.restarts
        orc.close()
    return summ


# ------------------------------------------------------------------ replay
def replay(path):
    data = json.load(open(path))
    C.ensure_built(["rr"], VO)
    case = data.get("input")
    if not isinstance(case, dict) or "freq" not in case:
        print("replay names a broken obligation, no concrete input:", json.dumps(data, indent=1)[:3000])
        return 0
    orc = RC.TimedOracle(ORACLE_EXE)
    r = RC.evaluate(case, orc)
    orc.close()
    freq, kw, _ = RC.build(case)
    print("input     rrule(%s, %s)" % (["YEARLY", "MONTHLY", "WEEKLY", "DAILY", "HOURLY", "MINUTELY",
                                        "SECONDLY"][freq] if 0 <= freq <= 6 else freq,
                                       ", ".join("%s=%r" % kv for kv in sorted(kw.items()))))
    for name in ("impl", "model", "spec"):
        x = r[name]
        if x is None:
            print("%-9s (rule outside the specification's domain spec_wf)" % name)
            continue
        print("%-9s phase=%s status=%s exn=%s n=%d %s" % (name, x["phase"], x["status"], x["exn"],
                                                          len(x["items"]), [RC.fmt_inst(t) for t in x["items"][:60]]))
    print("domain", r["domain"], " model_agrees_with_impl", r["model_agrees"], " spec_verdict",
          r["spec_verdict"] or "agree")
    p = {"kind": "spec", "input": case, "impl": r["impl"], "spec": r["spec"], "model": r["model"]}
    hits = [k for k, m in MATCHERS.items() if r["spec_verdict"] and r["spec"] is not None and m(p)]
    if hits:
        print("matches open finding(s):", hits)
    print("accepted outcomes:", RC.TOLERANCE_TEXT)
    return 0


# ------------------------------------------------------------------ main
def main():
    argv = sys.argv[1:]
    if "--replay" in argv:
        return replay(argv[argv.index("--replay") + 1])
    tier = C.tier_from_argv(argv)
    t0 = time.time()
    verdict = C.Verdict(CID, MATCHERS)
    build_err = None
    build_log = ""
    try:
        build_ok, build_log = C.ensure_built(["rr"], VO)
    except C.BuildError as ex:
        build_err = ex
        build_log = ex.log or ""
    # translators of the modelled source (gen_rr_init / gen_rr_masks / gen_rr_iter, run by common.regenerate):
    # an abort poisons the generated file, the C01_gen_* theorems at the end of props/C01.v then fail
    translators = [{"script": m.group(1), "status": "failed"}
                   for m in re.finditer(r"GENERATOR FAILED: ([^\s]+)", build_log) if "gen_rr_" in m.group(1)]
    for m in re.finditer(r"TRANSLATE-ERROR: ([^\n]*)", build_log):
        translators.append({"status": "translate-error", "message": m.group(1)[:300]})
    if build_err is not None:
        props = {"obligations": 0, "discharged": 0, "theorems": [], "assumptions": {},
                 "cmd": "coqc props/C01.v", "log": build_err.log, "ok": False}
        try:
            src = open(os.path.join(C.COQ, "props", "C01.v")).read()
            props["theorems"] = re.findall(r"^\s*Theorem\s+([A-Za-z0-9_']+)", src, flags=re.M)
            props["obligations"] = len(props["theorems"])
        except OSError:
            pass
    else:
        props = C.compile_props(CID)
        if not props["ok"]:
            for m in re.finditer(r"TRANSLATE-ERROR: ([^\n]*)", props["log"]):
                translators.append({"status": "translate-error", "message": m.group(1)[:300]})

    t_built = time.time()
    have_oracle = os.path.exists(ORACLE_EXE)
    quick = tier == "quick"
    nproc = 8 if quick else 14
    jobs = []
    corpus = corpus_cases()
    if corpus:
        jobs.append(("list", "corpus", corpus))
    n_rand = 2000 if quick else 60000
    n_mal = 600 if quick else 12000
    per = 150 if quick else 500
    for k in range(0, n_rand, per):
        jobs.append(("random", "rand/%s/%d" % (tier, k), (min(per, n_rand - k), False)))
    for k in range(0, n_mal, per):
        jobs.append(("random", "malformed/%s/%d" % (tier, k), (min(per, n_mal - k), True)))
    n_dst = 200 if quick else 4000
    for k in range(0, n_dst, 100 if quick else 400):
        jobs.append(("dst", "dst/%s/%d" % (tier, k), min(100 if quick else 400, n_dst - k)))
    ex1 = exhaustive_weekno_cases(tier)
    ex2 = exhaustive_nth_weekday_cases(tier)
    for name, lst in (("weekno", ex1), ("nthweekday", ex2)):
        for k in range(0, len(lst), 400):
            jobs.append(("list", "exh-%s/%d" % (name, k), lst[k:k + 400]))

    total = {"n": 0, "generated": 0, "skipped": 0, "model_inconclusive": 0, "spec_inconclusive": 0, "stall": 0,
             "domain_timeout": 0, "in_wf": 0, "in_xwf": 0, "in_family": 0, "dst_n": 0, "dst_inconclusive": 0, "dst_generated": 0, "dst_skipped": 0,
             "model_diff": 0, "spec_diff": 0, "oracle_restarts": 0}
    hist, keys, samples, relocated, classes = {}, {}, [], {}, {}
    if have_oracle:
        with multiprocessing.Pool(nproc) as pool:
            for summ in pool.imap_unordered(process_chunk, jobs):
                for k in total:
                    total[k] += summ.get(k, 0)
                for k, v in summ["hist"].items():
                    hist[k] = hist.get(k, 0) + v
                for k, v in summ["relocated"].items():
                    relocated[k] = relocated.get(k, 0) + v
                for k, v in summ["classes"].items():
                    classes[k] = classes.get(k, 0) + v
                for key, nt in summ["keys"]:
                    keys[key] = keys.get(key, False) or nt
                samples += summ["samples"]
                for payload, concrete in summ["violations"]:
                    verdict.violation(payload, concrete=concrete)
    else:
        verdict.violation({"kind": "no oracle", "what": "bin/oracle_rr could not be built", "input": None,
                           "log_tail": (build_err.log if build_err else "")[-2000:]}, concrete=False)

    # ---- soundness budget: undecided cases must stay below the stated fractions, else the run fails closed
    ev = max(total["n"], 1)
    gen = max(total["generated"], 1)
    fractions = {"stall": total["stall"] / ev, "model_inconclusive": total["model_inconclusive"] / ev,
                 "spec_inconclusive": total["spec_inconclusive"] / max(total["in_wf"] + total["in_xwf"], 1),
                 "domain_timeout": total["domain_timeout"] / ev, "oracle_restarts": total["oracle_restarts"] / ev,
                 "skipped": total["skipped"] / gen,
                 "dst_inconclusive": total["dst_inconclusive"] / max(total["dst_n"], 1),
                 "dst_skipped": total["dst_skipped"] / max(total["dst_generated"], 1)}
    exceeded = {k: round(v, 5) for k, v in fractions.items() if v > THRESHOLDS[k]}
    if have_oracle and exceeded:
        worst = sorted(classes.items(), key=lambda kv: -kv[1])[:15]
        verdict.violation({"kind": "inconclusive budget exceeded", "what": "too many cases were not decided: %s "
                           "(thresholds %s)" % (exceeded, {k: THRESHOLDS[k] for k in exceeded}),
                           "largest_undecided_classes": worst, "input": None}, concrete=False)

    if not props["ok"] and not verdict.violations:
        # props/C01.v is compiled top to bottom: the first theorem without a `Print Assumptions` block is the
        # one that broke.  The C01_gen_* theorems (generated code = hand model, appended LAST by the translators'
        # builders) break when a translator aborts (coq/gen/*Gen.v poisoned by common.regenerate) or when the
        # regenerated code no longer equals the model: the source under test changed in a modelled function and
        # the three-way comparison above found no failing input.
        broken = props["theorems"][props["discharged"]:]
        first = broken[0] if broken else None
        gen = bool(first) and first.startswith("C01_gen_")
        verdict.violation({"kind": ("translator abort / broken generated-code obligation (%s)" % first) if gen
                                   else "broken proof obligation" + (" (%s)" % first if first else ""),
                           "theorem_file": "coq/props/C01.v", "first_broken": first, "translator": translators,
                           "broken": broken[:40], "discharged": props["discharged"],
                           "obligations": props["obligations"],
                           "what": ("the code generated from the source under test is no longer proved equal to the "
                                    "hand model (or the translator refused the source); no failing input found by "
                                    "the correspondence run" if gen else
                                    "coq/props/C01.v does not compile up to this theorem; no failing input found"),
                           "input": None, "log_tail": props["log"][-3000:]}, concrete=False)

    rc = verdict.finish()
    cov = {
        "evaluations": total["n"],
        "distinct_nontrivial": sum(1 for v in keys.values() if v),
        "distinct_rules": len(keys),
        "rule": "a case is the canonical argument vector of the rule plus N; non-trivial = has at least one "
                "BY-part or interval > 1, and the implementation yields >= 2 instants or raises",
        "samples": samples[:12],
        "input_distribution": dict(sorted(hist.items())),
        "streams": {"corpus": len(corpus), "random": n_rand, "malformed": n_mal,
                    "dst_zone_start_with_utc_until": n_dst,
                    "exhaustive_byweekno(-53..53 x wkst 0..6 x year shapes)": len(ex1),
                    "exhaustive_weekday(n)": len(ex2)},
        "exhaustive": False,
        "exhaustive_small_scope": "every BYWEEKNO value -53..53 x wkst 0..6 x %d year shapes (YEARLY over two "
                                  "years%s); every weekday(n) n=+-1..+-54 (YEARLY) / +-1..+-6 (MONTHLY, "
                                  "YEARLY+BYMONTH) x 7 weekdays x year shapes%s"
                                  % (7 if quick else 28, "" if quick else "; WEEKLY and MONTHLY around the year end",
                                     " (subsampled in quick)" if quick else ""),
        "in_spec_domain": total["in_wf"],
        "in_extended_domain_only(never-matching time members, BYMONTHDAY 0)": total["in_xwf"],
        "STATISTIC_in_spec_domain_and_rule_shape_covered_by_a_loop_theorem": total["in_family"],
        "STATISTIC_note": "approximation from the rule alone (RC.in_proved_family): the theorems' bounds on the "
                          "number of passes (BYEASTER years) are approximated by the start year; not a "
                          "coverage claim",
        "accepted_outcomes": RC.TOLERANCE_TEXT,
        "undecided": {"generated": total["generated"], "evaluated": total["n"], "skipped": total["skipped"],
                      "stall(impl silent for %ds)" % int(RC.IMPL_TIMEOUT): total["stall"],
                      "model_inconclusive": total["model_inconclusive"],
                      "spec_inconclusive": total["spec_inconclusive"],
                      "domain_test_timeout": total["domain_timeout"],
                      "dst_class_drawn": total["dst_generated"],
                      "dst_class_skipped(sparse rule: the naive twin finds no end before the cap within the "
                      "fuel; replaced by a fresh draw)": total["dst_skipped"],
                      "dst_class_evaluated": total["dst_n"], "dst_class_inconclusive": total["dst_inconclusive"],
                      "oracle_restarts": total["oracle_restarts"],
                      "fractions": {k: round(v, 5) for k, v in fractions.items()},
                      "thresholds(fail closed beyond)": THRESHOLDS,
                      "relocation_cap": RC.RELOCATION_CAP,
                      "by_class(outcome|freq|BY-parts), 40 largest": dict(sorted(classes.items(),
                                                                                 key=lambda kv: -kv[1])[:40])},
        "model_vs_impl_disagreements": total["model_diff"],
        "spec_vs_impl_disagreements_incl_known": total["spec_diff"],
        "skipped_scan_unbounded": total["skipped"],
        "model_out_of_fuel_or_timeout": total["model_inconclusive"],
        "spec_out_of_fuel_or_timeout": total["spec_inconclusive"],
        "relocated_cases": relocated,
        "oracle_restarts": total["oracle_restarts"],
        "compared": "first N<=60 occurrences (wall clock, whole seconds), status exhausted/cut/raised, exception "
                    "class, constructor-vs-iteration phase; every yielded value checked for microsecond == 0, "
                    "tzinfo is dtstart's, strictly increasing",
        "partial_theorems": [t for t in props["theorems"] if "partial" in t or "guarded" in t],
        "fixed_findings": "F-C01-weekno (83f8e67), F-C01-setpos-week (12b1f51), F-C01-easter-week (c760855), "
                          "F-C01-year1-weekno (049bb14): found by this check, repaired in /repo, witnesses in "
                          "corpus/regressions/C01.jsonl and coq/rr/RRRegress.v",
        "theorem_status": {
            "guards": {
                "C01_wnomask_correct": "BYWEEKNO members within the RFC 5545 range -53..53; every year",
                "C01_eastermask_correct_partial": "years 1583..4098 (this and the next year inside the range of "
                                                  "C19's theorem)",
                "C01_cl_weekday_plain_correct": "no nth-weekday mask (plain BYDAY)",
                "C01_day_filter_correct_partial": "day-selecting parts among BYMONTH/BYMONTHDAY/BYYEARDAY/plain BYDAY",
                "C01_day_filter_correct_weekno": "as above plus BYWEEKNO (RFC range), years 1..9999",
                "C01_day_filter_correct_guarded": "as above plus BYEASTER when 1583 <= year <= 4098",
                "C01_day_filter_correct_monthly_nth_guarded": "MONTHLY with nth weekdays, days of the cursor's month",
                "C01_day_filter_correct_yearly_nth_guarded": "YEARLY without BYMONTH with nth weekdays",
                "C01_yearly_pass_is_spec_step": "YEARLY, plain BYDAY, no BYSETPOS, iterinfo = rebuild from the "
                                                "initial one",
                "C01_timeset_is_spec": "FREQ coarser than HOURLY",
                "C01_rrule_iter_correct_yearly_partial": "yfam_u: YEARLY, spec_wf, plain BYDAY, no BYSETPOS; COUNT, "
                                                         "UNTIL allowed; BYEASTER only with all passes in 1583..4098; "
                                                         "passes within year 9999",
                "C01_rrule_iter_correct_yearly_all_fuel_partial": "same family without BYEASTER: every fuel incl. "
                                                                  "the MAXYEAR end",
                "C01_rrule_iter_correct_headline_partial": "HEADLINE (coarse_guard_all): FREQ YEARLY..DAILY, equal "
                    "fuel: spec_wf, BYWEEKNO in -53..53, no BYEASTER; everything else free (numeric BYDAY prefixes "
                    "under WEEKLY/DAILY are ignored by code and specification: C01_normalize_strip, "
                    "C01_spec_iter_strip); every fuel (the WEEKLY boundary weeks containing 0001-01-01 / "
                    "9999-12-31 are included since fixes 3426f68 / 8ced7a9)",
                "C01_rrule_iter_correct_full_headline_partial": "full_guard = the headline guard without BYEASTER, OR with "
                    "BYEASTER and start year + all n passes inside C19's range 1583..4098 (WEEKLY: 1584..4097, the "
                    "cross-year week needs next year's Easter); nth weekdays and BYSETPOS free in both cases",
                "C01_rrule_strictly_increasing_headline_partial": "coarse_guard_all",
                "C01_rrule_nodup_headline_partial": "coarse_guard_all",
                "C01_rrule_total_headline_partial": "coarse_guard_all: constructor accepts, iteration raises nothing",
                "C01_rrule_valid_instants_headline_partial": "coarse_guard_all: every yielded instant is a "
                    "representable day that satisfies the rule, with a time of the rule's time set, >= dtstart",
                "C01_rrule_complete_headline_partial": "coarse_guard_all for the larger fuel: a run that stopped for a "
                    "reason other than fuel has yielded the specification's whole sequence (up to limit)",
                "C01_rrule_iter_correct_subdaily_headline_partial": "sfam_sa: EVERY HOURLY/MINUTELY/SECONDLY rule of "
                    "the domain with BYWEEKNO in range and no BYEASTER (BYSETPOS and numeric BYDAY prefixes "
                    "included): model and specification enumerate the same stream; equality at equal fuel is false "
                    "for sub-daily FREQ",
                "C01_subdaily_strictly_increasing_headline_partial": "sfam_sa",
                "C01_subdaily_self_stop_is_end_partial": "sfam_sa: a self-stopped run (incl. the sub-daily advance's "
                    "ValueError/TypeError) has yielded the complete stream",
                "C01_rrule_iter_correct_coarse_partial": "the same with BYDAY without numeric prefix under WEEKLY/"
                    "DAILY (coarse_guard), FREQ YEARLY..DAILY, equal fuel: spec_wf, BYWEEKNO "
                    "in -53..53, no BYEASTER (not an RFC part); BYSETPOS, COUNT, UNTIL, interval free; YEARLY and "
                    "MONTHLY: every BYDAY (plain, nth, with or without BYMONTH); WEEKLY/DAILY: BYDAY without numeric "
                    "prefix (as the RFC requires)",
                "C01_rrule_iter_correct_yearly_all_partial": "yfam_noe: every YEARLY rule of the domain without "
                                                             "BYEASTER; every fuel",
                "C01_rrule_strictly_increasing_partial": "coarse_guard (the guard of the summary theorem)",
                "C01_rrule_nodup_partial": "coarse_guard",
                "C01_rrule_no_exception_partial": "coarse_guard: the iteration raises no exception at all",
                "C01_rrule_total_coarse_partial": "coarse_guard: constructor accepts, iteration raises nothing",
                "C01_rrule_iter_correct_monthly_all_partial": "mfam_all: every MONTHLY rule of the domain without "
                                                              "BYEASTER; every fuel",
                "C01_rrule_iter_correct_yearly_full_partial": "yfam_all: YEARLY without BYEASTER, plain BYDAY or nth "
                                                              "weekdays without BYMONTH; BYSETPOS free; every fuel",
                "C01_rrule_iter_correct_weekly_setpos_partial": "wfam_s: WEEKLY, plain BYDAY, BYSETPOS free",
                "C01_rrule_iter_correct_daily_setpos_partial": "dfam_s: DAILY, plain BYDAY, BYSETPOS free; every fuel",
                "C01_day_filter_correct_extension": "plain family without BYEASTER, indices of the cross-year week",
                "C01_rrule_iter_correct_subdaily_stream_partial": "sfam: HOURLY/MINUTELY/SECONDLY, plain BYDAY, no "
                    "BYSETPOS, no BYEASTER: model and specification enumerate the same stream (position by "
                    "position, unbounded fuel); equality at EQUAL fuel is false for sub-daily rules",
                "C01_subdaily_prefix_of_spec_partial": "sfam: every fuel and limit, yielded sequence is a prefix of "
                                                       "the specification's",
                "C01_subdaily_spec_prefix_of_iterate": "sfam: the converse (progress)"},
            "not_proved_correspondence_only": [
                "rrule_iter_correct (model = spec for every rule in spec_wf): proved for the families above; NOT "
                "proved: BYEASTER outside C19's year range 1583..4098 or under sub-daily FREQ (dateutil extension, "
                "not RFC); BYWEEKNO members beyond +-53 (not RFC).  The WEEKLY boundary weeks (containing "
                "9999-12-31 / 0001-01-01) were defects, fixed by 8ced7a9 / 3426f68; the model follows the fixed "
                "code and the headline theorems now cover them (no WEEKLY guard left without BYEASTER)",
                "the headline theorems compare the yielded sequence (fst) only; termination kind: never an exception "
                "and one of COUNT/UNTIL/year-9999/limit/fuel under coarse_guard_all (C01_rrule_term_kinds_partial), a "
                "finished run is complete (C01_rrule_complete_headline_partial); NOT stated: that some fuel ends "
                "every run; no-exception / term kinds under the BYEASTER branch of full_guard",
                "sub-daily FREQ: a raise happens only when the specification has nothing more and its class is "
                "ValueError (C01_subdaily_raise_is_end_partial, C01_subdaily_raise_is_valueerror_partial: sfam_sa, no "
                "BYEASTER); the constructor raises only ValueError for every argument record "
                "(C01_normalize_only_valueerror); outside spec_wf the iteration's TypeError existed (finding "
                "F-C01-outofrange-typeerror, fixed by e1e7505: such members are skipped by __construct_byset and the "
                "empty set raises ValueError at construction)",
                "whole-second resolution and the start's tzinfo are true BY CONSTRUCTION of the model's instant type "
                "(ordinal, second of day; tzinfo opaque): checked on every yielded value, not proved",
                "tie model = code: rrule.__init__, __construct_byset, __mod_distance and all of _iterinfo are "
                "TRANSLATED from the source and proved equal to the model (C01_gen_*); of _iter only the six filter "
                "clauses, gate_one, the seven advance branches, one fix-day step and one __mod_distance step are "
                "translated -- prologue, day-set fetch, BYSETPOS/poslist section, filter_loop, gate_list, step, run, "
                "init_state are PINNED AS TEXT against a template (fail closed on edits, semantics by hand model + "
                "differential run)"]},
        "refuted_theorems": [t for t in props["theorems"] if "refuted" in t],
        "open_findings": {},
        "fixed_findings_of_the_audit_round": {
            "F-C01-last-week-9999": "8ced7a9", "F-C01-year1-setpos-week": "3426f68",
            "F-C01-outofrange-typeerror": "e1e7505", "F-C01-bymonthday-zero": "55654b4",
            "rule": "no matcher: any recurrence is a violation; regression theorems coq/rr/RRFindings.v, witnesses "
                    "in corpus/regressions/C01.jsonl"},
        "differential_only": ["BYEASTER outside C19's year range 1583..4098 or with sub-daily FREQ",
                              "start in a DST zone with a UTC UNTIL: compared through the naive twin of the rule "
                              "(model on the wall clock, cut at the UTC UNTIL by aware comparison), not modelled",
                              "wkst not passed (calendar.firstweekday()): case class of the random stream",
                              "dtstart=None (datetime.now()): NOT covered",
                              "rules outside spec_xwf (empty BY lists, BYMONTH outside 1..12, BYSETPOS 0 / beyond "
                              "+-366, tz-mix): model vs implementation only (ValueError paths of the constructor)"],
        "known_findings_hit": verdict.known_hits,
        "translator": translators or "all generators ran (see assumptions: gen files)",
    }
    # guards are listed only for theorems that props/C01.v still restates (superseded ones were dropped there)
    if props["theorems"]:
        cov["theorem_status"]["guards"] = {k: v for k, v in cov["theorem_status"]["guards"].items()
                                           if k in props["theorems"]}
    C.write_evidence(CID, tier, t0, props, cov,
                     ["CPython datetime/calendar modelled by coq/base/Cal.v (date validity, ordinals, weekday)",
                      "gen/RrTables.v is a value dump of the live module tables (harness/gen_rr_tables.py)",
                      "easter() enters through gen/EasterGen.v (C19's regenerated model)",
                      "aware datetimes: UNTIL/dtstart comparisons are modelled on the start's wall clock "
                      "(same tzinfo object or fixed offsets); a DST-zone start with a UTC UNTIL is only tested, "
                      "through the naive twin of the rule",
                      "datetime.now() default start is not modelled and not tested; the calendar.firstweekday() "
                      "default wkst is a case class of the random stream (the model gets calendar.firstweekday())",
                      "_iter's prologue / poslist section / pass skeleton are pinned as text by gen_rr_iter.py, not "
                      "translated: their semantics rest on the hand model RRIter.v and the differential run"],
                     len(verdict.violations))
    print("C01 %s: obligations %d/%d, %d cases (%d in spec domain, %d skipped), model-diff %d, spec-diff %d "
          "(known %s), %.1fs (build+props %.1fs)" % (tier, props["discharged"], props["obligations"], total["n"], total["in_wf"],
                                 total["skipped"], total["model_diff"], total["spec_diff"],
                                 dict(verdict.known_hits), time.time() - t0, t_built - t0))
    return rc


if __name__ == "__main__":
    sys.exit(main())
