#!/usr/bin/env python3
"""Fail-closed translator (Python `ast`):  /repo/src/dateutil/rrule.py  rrule._iter, rrule.__mod_distance
    ->  coq/gen/RRIterGen.v   in the vocabulary of coq/rr/RRIter.v (+ coq/factory/RRGenLib.v)

GENUINELY TRANSLATED (expression / statement translation; coq/factory/RRIterGenThm.v proves the result
equal to the hand model of the `rr` area):
  * the BY-filter: the six disjuncts of the `if (...)` inside `for i in dayset[start:end]:`, in source
    order, with Python's short-circuit evaluation and the exceptions of indexing
        gen_cl_1 .. gen_cl_6 = cl_month, cl_weekno, cl_weekday, cl_easter, cl_monthday, cl_yearday
        gen_day_rejected     = day_rejected           (their `or`, left to right)
  * the until / >= dtstart / count gate (both copies must be identical):   gen_gate_one = gate_one
    (`until and res > until` -> after_until, `res >= self._dtstart` -> inst_le (dtstart_inst rl):
    the datetime comparisons themselves are the model's; the branch structure, `count -= 1`,
    `count < 0`, which `return` publishes which stop reason, and `yield` are translated)
  * the period advance of all seven frequencies:  gen_adv_<FREQ> = advance  on rules of that frequency
    (`x = e`, `x += e`, `a, b = divmod(e, c)`, if / else with the continuation duplicated, the
    MAXYEAR stop `self._len = total; return`, ii.rebuild, self.__mod_distance, gettimeset, fixday, the
    `filtered` day jumps (also as gen_jump_MINUTELY / gen_jump_SECONDLY), and for MINUTELY / SECONDLY
    the `for j in range(rep_rate // gcd(interval, rep_rate)):` loops with `valid` / `break` /
    `raise ValueError` -> for_range over the tuple of loop-carried variables)
  * one pass of the fixday `while day > daysinmonth:` loop (gen_fix_step, unfolding lemma for fix_loop)
    and one pass of the loop of rrule.__mod_distance (gen_md_step, unfolding lemma for
    mod_distance_loop); the skeletons around them are checked structurally
PINNED BY TEMPLATE (the section must be, up to layout and comments, the text embedded below; its
semantics is the hand model + the differential correspondence of check_C01):
  the prologue before `while True:` (locals, the WEEKLY+BYSETPOS week-start, getdayset / timeset
  selection), the dayset fetch, the output section apart from the gate (BYSETPOS poslist with divmod /
  swallowed IndexError / de-duplication / sort, the plain day x time loops), the order of the seven
  sections of the loop body and of the `freq == X` chain.

ACCEPTED SUBSET of the translated parts
  conditions  by-tuple names (truthiness), `ii.nwdaymask` (truthiness), `ii.<mask>[i]` (truthiness of the
              element), not / and / or, `x in t` / `x not in t` with t a by-tuple, < > <= >= == between
              integer expressions, boolean locals (filtered), integer locals (ndays, div)
  integers    literals, locals, `ii.yearlen` / `ii.nextyearlen`, interval / self._interval, wkst,
              datetime.MAXYEAR, + - * // and unary -, `ii.<mask>[i]`, calendar.monthrange(year, month)[1]
  statements  see above; anything else raises TranslateError (exit 1, the output is poisoned)
"""
import ast
import os
import sys

VERIF = os.path.dirname(os.path.dirname(os.path.abspath(__file__)))
SRC = os.path.join(os.environ.get("VERIF_REPO", "/repo"), "src", "dateutil", "rrule.py")
OUT = os.path.join(VERIF, "coq", "gen", "RRIterGen.v")      # coq/gen/RRIterGen.v


class TranslateError(Exception):
    pass


def dump(node):
    return ast.dump(node)


def dumps(nodes):
    return [ast.dump(n) for n in nodes]


def parse_stmts(src):
    return ast.parse(src).body


# ----------------------------------------------------------------------------------------
# vocabulary

OPT_BY = ["bymonth", "byweekno", "byweekday", "byeaster", "byyearday", "bysetpos", "byhour", "byminute", "bysecond"]
LIST_BY = ["bymonthday", "bynmonthday"]
LIST_MASK = ["mmask", "mdaymask", "nmdaymask", "wdaymask"]
OPT_MASK = ["wnomask", "nwdaymask", "eastermask"]
INT_LOCALS = ["year", "month", "day", "hour", "minute", "second", "weekday", "i", "div", "mod", "ndays", "back",
              "nhours", "nminutes", "rep_rate", "daysinmonth", "value", "accumulator", "base"]
LOOP_TEMPS = ["nhours", "nminutes", "div", "valid", "filtered", "j"]
BOOL_LOCALS = ["filtered", "fixday"]


def by_list(name):
    if name in OPT_BY:
        return "(opt_list (%s rl))" % name
    if name in LIST_BY:
        return "(%s rl)" % name
    raise TranslateError("not a BY-tuple: %s" % name)


def self_by(e):
    """self._byhour -> 'byhour'"""
    if isinstance(e, ast.Attribute) and isinstance(e.value, ast.Name) and e.value.id == "self" \
            and e.attr.startswith("_") and e.attr[1:] in OPT_BY + LIST_BY:
        return e.attr[1:]
    return None


def mask_elem(e):
    """ii.<mask>[i] -> Coq term : res Z"""
    if (isinstance(e, ast.Subscript) and isinstance(e.value, ast.Attribute) and isinstance(e.value.value, ast.Name)
            and e.value.value.id == "ii" and isinstance(e.slice, ast.Name) and e.slice.id == "i"):
        m = e.value.attr
        if m in LIST_MASK:
            return "(py_nth (%s ii) i)" % m
        if m in OPT_MASK:
            return "(nth_opt (%s ii) i)" % m
    return None


def vn(name):
    """Coq name of a Python local (`mod` is a Coq keyword)"""
    return {"mod": "mod_", "div": "div_", "daysinmonth": "dm", "accumulator": "acc"}.get(name, name)


def intexpr(e):
    """pure integer expression -> Coq term : Z"""
    if isinstance(e, ast.Constant) and isinstance(e.value, int) and not isinstance(e.value, bool):
        return str(e.value) if e.value >= 0 else "(%d)" % e.value
    if isinstance(e, ast.Name):
        if e.id in INT_LOCALS:
            return vn(e.id)
        if e.id == "interval":
            return "(interval rl)"
        if e.id == "wkst":
            return "(wkst rl)"
        raise TranslateError("unknown integer name %s" % e.id)
    if isinstance(e, ast.Attribute) and isinstance(e.value, ast.Name):
        if e.value.id == "ii" and e.attr in ("yearlen", "nextyearlen"):
            return "(%s ii)" % e.attr
        if e.value.id == "self" and e.attr == "_interval":
            return "(interval rl)"
        if e.value.id == "datetime" and e.attr == "MAXYEAR":
            return "T_MAXYEAR"
    if isinstance(e, ast.UnaryOp) and isinstance(e.op, ast.USub):
        return "(- %s)" % intexpr(e.operand)
    if isinstance(e, ast.BinOp):
        ops = {ast.Add: "+", ast.Sub: "-", ast.Mult: "*", ast.FloorDiv: "/", ast.Mod: "mod"}
        if type(e.op) in ops:
            return "(%s %s %s)" % (intexpr(e.left), ops[type(e.op)], intexpr(e.right))
    raise TranslateError("unsupported integer expression: " + ast.unparse(e))


def resint(e):
    """integer-valued expression that may raise -> Coq term : res Z"""
    m = mask_elem(e)
    if m is not None:
        return m
    return "(Ok %s)" % intexpr(e)


def cond(e):
    """-> Coq term : res bool, Python evaluation order and short-circuit"""
    if isinstance(e, ast.Name):
        if e.id in OPT_BY:
            return "(Ok (truthy (%s rl)))" % e.id
        if e.id in LIST_BY:
            return "(Ok (nonempty (%s rl)))" % e.id
        if e.id in BOOL_LOCALS:
            return "(Ok %s)" % e.id
        if e.id in INT_LOCALS:
            return "(Ok (negb (%s =? 0)))" % vn(e.id)
        raise TranslateError("unknown name in a condition: %s" % e.id)
    if (isinstance(e, ast.Attribute) and isinstance(e.value, ast.Name) and e.value.id == "ii"
            and e.attr in OPT_MASK):
        return "(Ok (truthy (%s ii)))" % e.attr
    m = mask_elem(e)
    if m is not None:
        return "(r_truth %s)" % m
    if isinstance(e, ast.UnaryOp) and isinstance(e.op, ast.Not):
        return "(r_not %s)" % cond(e.operand)
    if isinstance(e, ast.BoolOp):
        f = "r_and" if isinstance(e.op, ast.And) else "r_or"
        parts = [cond(v) for v in e.values]
        t = parts[-1]
        for p in reversed(parts[:-1]):
            t = "(%s %s %s)" % (f, p, t)
        return t
    if isinstance(e, ast.Compare) and len(e.ops) == 1:
        op, a, b = e.ops[0], e.left, e.comparators[0]
        if isinstance(op, (ast.In, ast.NotIn)):
            name = b.id if isinstance(b, ast.Name) else self_by(b)
            if name is None:
                raise TranslateError("membership in something other than a BY-tuple: " + ast.unparse(e))
            return "(%s %s %s)" % ("r_in" if isinstance(op, ast.In) else "r_notin", resint(a), by_list(name))
        x, y = intexpr(a), intexpr(b)
        if isinstance(op, ast.Lt):
            return "(Ok (%s <? %s))" % (x, y)
        if isinstance(op, ast.Gt):
            return "(Ok (%s <? %s))" % (y, x)
        if isinstance(op, ast.LtE):
            return "(Ok (%s <=? %s))" % (x, y)
        if isinstance(op, ast.GtE):
            return "(Ok (%s <=? %s))" % (y, x)
        if isinstance(op, ast.Eq):
            return "(Ok (%s =? %s))" % (x, y)
    raise TranslateError("unsupported condition: " + ast.unparse(e))


def purecond(e):
    """condition that cannot raise -> Coq term : bool"""
    if isinstance(e, ast.Name):
        if e.id in OPT_BY:
            return "(truthy (%s rl))" % e.id
        if e.id in BOOL_LOCALS:
            return e.id
        if e.id in INT_LOCALS:
            return "(negb (%s =? 0))" % vn(e.id)
    if isinstance(e, ast.Compare) and len(e.ops) == 1 and not isinstance(e.ops[0], (ast.In, ast.NotIn)):
        t = cond(e)
        return t[len("(Ok "):-1]
    if isinstance(e, ast.Compare) and len(e.ops) == 1 and isinstance(e.ops[0], ast.In) \
            and isinstance(e.comparators[0], ast.Name):
        return "(memZ %s %s)" % (intexpr(e.left), by_list(e.comparators[0].id))
    if isinstance(e, ast.UnaryOp) and isinstance(e.op, ast.Not):
        return "(negb %s)" % purecond(e.operand)
    if isinstance(e, ast.BoolOp):
        op = " && " if isinstance(e.op, ast.And) else " || "
        return "(" + op.join(purecond(v) for v in e.values) + ")"
    raise TranslateError("unsupported branch condition: " + ast.unparse(e))


# ----------------------------------------------------------------------------------------
# statements of an advance branch (continuation-passing: an `if` duplicates what follows it)

FINAL = "finish_advance rl s fixday year month day hour minute second weekday ii ts cnt out"
T_LEN_RETURN = dumps(parse_stmts("self._len = total\nreturn"))
T_REBUILD = dump(parse_stmts("ii.rebuild(year, month)")[0])
T_MONTHRANGE = dump(parse_stmts("daysinmonth = calendar.monthrange(year, month)[1]")[0])
RETURN_TERM = ["Ok AdvMax"]
T_GETTIMESET = dump(parse_stmts("timeset = gettimeset(hour, minute, second)")[0])


def is_mod_distance(s):
    """a, b = self.__mod_distance(value=a_or_b.., byxxx=self._byX, base=N) -> (a, b, value, by, base)"""
    if not (isinstance(s, ast.Assign) and len(s.targets) == 1 and isinstance(s.targets[0], ast.Tuple)
            and len(s.targets[0].elts) == 2 and all(isinstance(x, ast.Name) for x in s.targets[0].elts)
            and isinstance(s.value, ast.Call) and ast.unparse(s.value.func) in ("self.__mod_distance",)
            and not s.value.args and [k.arg for k in s.value.keywords] == ["value", "byxxx", "base"]):
        return None
    kw = {k.arg: k.value for k in s.value.keywords}
    by = self_by(kw["byxxx"])
    if by is None or not (isinstance(kw["base"], ast.Constant) and isinstance(kw["base"].value, int)):
        raise TranslateError("unsupported __mod_distance call: " + ast.unparse(s))
    a, b = [x.id for x in s.targets[0].elts]
    return a, b, intexpr(kw["value"]), by, kw["base"].value


T_VALID_FALSE = dump(parse_stmts("valid = False")[0])
T_BREAK = dumps(parse_stmts("valid = True\nbreak"))


def assigned_order(body, acc):
    for s in body:
        targets = []
        if isinstance(s, ast.Assign):
            for t in s.targets:
                targets += [x.id for x in (t.elts if isinstance(t, ast.Tuple) else [t]) if isinstance(x, ast.Name)]
        elif isinstance(s, ast.AugAssign) and isinstance(s.target, ast.Name):
            targets.append(s.target.id)
        for n in targets:
            if n not in acc:
                acc.append(n)
        if isinstance(s, ast.If):
            assigned_order(s.body, acc)
            assigned_order(s.orelse, acc)
    return acc


def loop_stmt(s, rest, ind):
    """for j in range([0,] rep_rate // gcd(interval, rep_rate)): BODY ; if not valid: raise ValueError(..)"""
    pad = "  " * ind
    it = ast.unparse(s.iter)
    if it not in ("range(rep_rate // gcd(interval, rep_rate))", "range(0, rep_rate // gcd(interval, rep_rate))") \
            or s.orelse or not (isinstance(s.target, ast.Name) and s.target.id == "j"):
        raise TranslateError("unsupported for-loop header: for %s in %s" % (ast.unparse(s.target), it))
    if not rest or not (isinstance(rest[0], ast.If) and ast.unparse(rest[0].test) == "not valid" and not rest[0].orelse
                        and len(rest[0].body) == 1 and isinstance(rest[0].body[0], ast.Raise)
                        and isinstance(rest[0].body[0].exc, ast.Call)
                        and ast.unparse(rest[0].body[0].exc.func) == "ValueError"):
        raise TranslateError("the loop is not followed by `if not valid: raise ValueError(...)`")
    after = rest[1:]
    for a in after:
        for n in ast.walk(a):
            if isinstance(n, ast.Name) and n.id in ("filtered", "valid") and isinstance(n.ctx, ast.Load):
                raise TranslateError("`%s` is read after the loop" % n.id)
    vars_ = [v for v in assigned_order(s.body, []) if v not in LOOP_TEMPS]
    if any(v not in INT_LOCALS + BOOL_LOCALS for v in vars_):
        raise TranslateError("unexpected loop-carried variable among %r" % vars_)
    tup = "(" + ", ".join(vn(v) for v in vars_) + ")"
    body = stmts(s.body, ind + 2, final="LCont " + tup, loop=tup)
    return ("%smatch for_range (rep_rate / Z.gcd (interval rl) rep_rate)\n%s  (fun st_ => let '%s := st_ in\n%s)\n%s  %s with\n"
            "%s| LErr e_ => Err e_\n%s| LCont _ => Err EValue\n%s| LBreak %s =>\n%s\n%send"
            % (pad, pad, tup, body, pad, tup, pad, pad, pad, tup, stmts(after, ind + 1), pad))


def stmts(body, ind, final=None, loop=None):
    pad = "  " * ind
    if final is None:
        final = FINAL
    if not body:
        return pad + final
    s, rest = body[0], body[1:]
    if loop is not None and len(body) >= 1 and isinstance(s, ast.If) and dumps(s.body) == T_BREAK and not s.orelse:
        return "%sif %s then LBreak %s else\n%s" % (pad, purecond(s.test), loop, stmts(rest, ind, final, loop))
    if loop is None and dump(s) == T_VALID_FALSE:
        return stmts(rest, ind, final, loop)
    if loop is None and isinstance(s, ast.Assign) and ast.unparse(s.targets[0]) == "rep_rate":
        return "%slet rep_rate := %s in\n%s" % (pad, intexpr(s.value), stmts(rest, ind, final, loop))
    if loop is None and isinstance(s, ast.For):
        return loop_stmt(s, rest, ind)
    if len(body) >= 2 and dumps(body[:2]) == T_LEN_RETURN:
        # `self._len = total; return` ends the generator (what follows in `body` is the duplicated
        # continuation of an enclosing `if`, which a return never reaches)
        if loop is not None:
            raise TranslateError("return inside a loop body")
        return pad + RETURN_TERM[0]
    if dump(s) == T_MONTHRANGE:
        return "%slet dm := Cal.dim year month in\n%s" % (pad, stmts(rest, ind, final, loop))
    if dump(s) == T_REBUILD:
        return "%sdo ii <- rebuild rl ii year month;\n%s" % (pad, stmts(rest, ind, final, loop))
    if dump(s) == T_GETTIMESET:
        return "%sdo ts <- gettimeset rl hour minute second;\n%s" % (pad, stmts(rest, ind, final, loop))
    md = is_mod_distance(s)
    if md is not None:
        a, b, v, by, base = md
        if loop is not None:
            return ("%smatch mod_distance rl %s (opt_list (%s rl)) %d with\n%s| Err e_ => LErr e_\n%s| Ok md_ =>\n"
                    "%slet %s := fst md_ in let %s := snd md_ in\n%s\n%send"
                    % (pad, v, by, base, pad, pad, pad, vn(a), vn(b), stmts(rest, ind + 1, final, loop), pad))
        return ("%sdo md_ <- mod_distance rl %s (opt_list (%s rl)) %d;\n%slet %s := fst md_ in let %s := snd md_ in\n%s"
                % (pad, v, by, base, pad, vn(a), vn(b), stmts(rest, ind, final, loop)))
    if isinstance(s, ast.AugAssign) and isinstance(s.target, ast.Name) and s.target.id in INT_LOCALS \
            and isinstance(s.op, (ast.Add, ast.Sub)):
        op = "+" if isinstance(s.op, ast.Add) else "-"
        return "%slet %s := %s %s %s in\n%s" % (pad, vn(s.target.id), vn(s.target.id), op, intexpr(s.value),
                                                stmts(rest, ind, final, loop))
    if isinstance(s, ast.Assign) and len(s.targets) == 1:
        t = s.targets[0]
        if isinstance(t, ast.Name) and t.id in BOOL_LOCALS and isinstance(s.value, ast.Constant) \
                and isinstance(s.value.value, bool):
            return "%slet %s := %s in\n%s" % (pad, t.id, "true" if s.value.value else "false", stmts(rest, ind, final, loop))
        if isinstance(t, ast.Name) and t.id in INT_LOCALS:
            return "%slet %s := %s in\n%s" % (pad, vn(t.id), intexpr(s.value), stmts(rest, ind, final, loop))
        if (isinstance(t, ast.Tuple) and len(t.elts) == 2 and all(isinstance(x, ast.Name) and x.id in INT_LOCALS for x in t.elts)
                and isinstance(s.value, ast.Call) and isinstance(s.value.func, ast.Name) and s.value.func.id == "divmod"
                and len(s.value.args) == 2 and (
                    (isinstance(s.value.args[1], ast.Constant) and isinstance(s.value.args[1].value, int)
                     and s.value.args[1].value > 0)
                    or (isinstance(s.value.args[1], ast.Name) and s.value.args[1].id == "base"))):
            a, b = vn(t.elts[0].id), vn(t.elts[1].id)
            c = intexpr(s.value.args[1])
            return ("%slet dm_ := %s in let %s := dm_ / %s in let %s := dm_ mod %s in\n%s"
                    % (pad, intexpr(s.value.args[0]), a, c, b, c, stmts(rest, ind, final, loop)))
    if isinstance(s, ast.If):
        c = purecond(s.test)
        return "%sif %s then\n%s\n%selse\n%s" % (pad, c, stmts(s.body + rest, ind + 1, final, loop), pad,
                                                  stmts(s.orelse + rest, ind + 1, final, loop))
    raise TranslateError("unsupported statement in an advance branch (line %d): %s"
                         % (s.lineno, ast.unparse(s)[:100]))


# ----------------------------------------------------------------------------------------
# the until / >= dtstart / count gate (statement translation; datetime comparisons are mapped to
# the model's instant comparisons: `until and res > until` -> after_until, `res >= self._dtstart`
# -> inst_le (dtstart_inst rl) x; `total` only feeds self._len and is dropped; `yield res` conses)

def gate_count_cond(e):
    """comparison of the local `count` with an integer literal -> Coq bool"""
    if (isinstance(e, ast.Compare) and len(e.ops) == 1 and isinstance(e.left, ast.Name) and e.left.id == "count"
            and isinstance(e.comparators[0], ast.Constant) and isinstance(e.comparators[0].value, int)):
        k = e.comparators[0].value
        ks = str(k) if k >= 0 else "(%d)" % k
        ops = {ast.Lt: "(count <? %s)", ast.LtE: "(count <=? %s)", ast.Gt: "(%s <? count)", ast.GtE: "(%s <=? count)",
               ast.Eq: "(count =? %s)"}
        if type(e.ops[0]) in ops:
            return ops[type(e.ops[0])] % ks
    raise TranslateError("unsupported count test: " + ast.unparse(e))


def gate_body(body, cnt_term):
    """statements of the `res >= dtstart` arm -> Coq term : list instant * option Z * option term;
    cnt_term = the Coq term for the current value of `count` (option Z)"""
    if not body:
        raise TranslateError("the gate arm ends without `yield res`")
    s, rest = body[0], body[1:]
    if len(body) >= 2 and dumps(body[:2]) == T_LEN_RETURN:
        return "(out, %s, Some TCount)" % cnt_term
    if isinstance(s, ast.If) and ast.unparse(s.test) == "count is not None" and not s.orelse:
        return ("match cnt with\n      | Some count => %s\n      | None => %s\n      end"
                % (gate_body(s.body + rest, "Some count"), gate_body(rest, "None")))
    if isinstance(s, ast.If) and not s.orelse:
        return "if %s then %s else %s" % (gate_count_cond(s.test), gate_body(s.body + rest, cnt_term),
                                          gate_body(rest, cnt_term))
    if isinstance(s, ast.AugAssign) and ast.unparse(s.target) == "count" and isinstance(s.op, (ast.Add, ast.Sub)) \
            and isinstance(s.value, ast.Constant) and isinstance(s.value.value, int):
        op = "+" if isinstance(s.op, ast.Add) else "-"
        return "let count := count %s %d in %s" % (op, s.value.value, gate_body(rest, cnt_term))
    if isinstance(s, ast.AugAssign) and ast.unparse(s.target) == "total":
        return gate_body(rest, cnt_term)
    if dump(s) == dump(parse_stmts("yield res")[0]):
        if rest:
            raise TranslateError("statements after `yield res` in the gate")
        return "(x :: out, %s, None)" % cnt_term
    raise TranslateError("unsupported statement in the gate: " + ast.unparse(s)[:80])


def gate_def_of(s):
    if not (isinstance(s, ast.If) and ast.unparse(s.test) == "until and res > until"
            and dumps(s.body) == T_LEN_RETURN and len(s.orelse) == 1 and isinstance(s.orelse[0], ast.If)):
        raise TranslateError("the gate does not start with `if until and res > until: self._len = total; return`")
    e = s.orelse[0]
    if ast.unparse(e.test) != "res >= self._dtstart" or e.orelse:
        raise TranslateError("the gate's second arm is not `elif res >= self._dtstart:` without else")
    return ("Definition gen_gate_one (rl : rule) (x : instant) (cnt : option Z) (out : list instant)\n"
            "  : list instant * option Z * option term :=\n"
            "  if after_until rl x then (out, cnt, Some TUntil)\n"
            "  else if inst_le (dtstart_inst rl) x then\n    %s\n  else (out, cnt, None).\n" % gate_body(e.body, "cnt"))


# ----------------------------------------------------------------------------------------
# the WEEKLY + BYSETPOS week-start of the prologue (a date is its proleptic ordinal:
# self._dtstart.toordinal() -> ord_of_ymd (s_y rl) (s_m rl) (s_d rl), date.fromordinal(e) -> e,
# first.year/.month/.day -> ymd_of_ord first, first.weekday() -> weekday_of_ord first)

def ordexpr(e):
    if ast.unparse(e) == "self._dtstart.toordinal()":
        return "(ord_of_ymd (s_y rl) (s_m rl) (s_d rl))"
    if isinstance(e, ast.BinOp) and isinstance(e.op, (ast.Add, ast.Sub)):
        return "(%s %s %s)" % (ordexpr(e.left), "+" if isinstance(e.op, ast.Add) else "-", ordexpr(e.right))
    if isinstance(e, ast.Call) and isinstance(e.func, ast.Name) and e.func.id == "max" and len(e.args) == 2 \
            and not e.keywords:
        return "(Z.max %s %s)" % (ordexpr(e.args[0]), ordexpr(e.args[1]))
    return intexpr(e)


def week_start(s):
    if not (isinstance(s, ast.If) and not s.orelse and isinstance(s.test, ast.BoolOp) and isinstance(s.test.op, ast.And)
            and [ast.unparse(v) for v in s.test.values] == ["freq == WEEKLY", "bysetpos"]):
        raise TranslateError("the week-start statement is not `if freq == WEEKLY and bysetpos:`")
    b = s.body
    if not (len(b) == 2 and isinstance(b[0], ast.Assign) and ast.unparse(b[0].targets[0]) == "back"
            and isinstance(b[1], ast.If) and not b[1].orelse and len(b[1].body) == 3):
        raise TranslateError("the week-start body has an unexpected shape")
    back = intexpr(b[0].value)
    test = purecond(b[1].test)
    f, ymd, wd = b[1].body
    if not (isinstance(f, ast.Assign) and ast.unparse(f.targets[0]) == "first" and isinstance(f.value, ast.Call)
            and ast.unparse(f.value.func) == "datetime.date.fromordinal" and len(f.value.args) == 1):
        raise TranslateError("week start: `first = datetime.date.fromordinal(...)` expected")
    first = ordexpr(f.value.args[0])
    if dump(ymd) != dump(parse_stmts("year, month, day = first.year, first.month, first.day")[0]):
        raise TranslateError("week start: `year, month, day = first.year, first.month, first.day` expected")
    if dump(wd) == dump(parse_stmts("weekday = first.weekday()")[0]):
        wdt = "weekday_of_ord first"
    elif isinstance(wd, ast.Assign) and ast.unparse(wd.targets[0]) == "weekday":
        wdt = intexpr(wd.value)
    else:
        raise TranslateError("week start: assignment of `weekday` expected")
    return ("Definition gen_week_start (rl : rule) (year month day weekday : Z) : Z * Z * Z * Z :=\n"
            "  if (freq rl =? WEEKLY) && truthy (bysetpos rl) then\n"
            "    let back := %s in\n"
            "    if %s then\n"
            "      let first := %s in\n"
            "      let '(year, month, day) := ymd_of_ord first in\n"
            "      let weekday := %s in (year, month, day, weekday)\n"
            "    else (year, month, day, weekday)\n"
            "  else (year, month, day, weekday).\n" % (back, test, first, wdt))


HEADER = """let year := c_year s in let month := c_month s in let day := c_day s in
  let hour := c_hour s in let minute := c_minute s in let second := c_second s in
  let weekday := c_weekday s in let ii := c_ii s in let ts := c_timeset s in
  let fixday := false in
"""

# ----------------------------------------------------------------------------------------
# pinned sections (text as of the tree the hand model of coq/rr/RRIter.v was written for)

PIN_PROLOGUE = '''
year, month, day, hour, minute, second, weekday, yearday, _ = \\
    self._dtstart.timetuple()
freq = self._freq
interval = self._interval
wkst = self._wkst
until = self._until
bymonth = self._bymonth
byweekno = self._byweekno
byyearday = self._byyearday
byweekday = self._byweekday
byeaster = self._byeaster
bymonthday = self._bymonthday
bynmonthday = self._bynmonthday
bysetpos = self._bysetpos
byhour = self._byhour
byminute = self._byminute
bysecond = self._bysecond
if freq == WEEKLY and bysetpos:
    back = (weekday - wkst) % 7
    if back:
        first = datetime.date.fromordinal(
            max(self._dtstart.toordinal() - back, 1))
        year, month, day = first.year, first.month, first.day
        weekday = first.weekday()
ii = _iterinfo(self)
ii.rebuild(year, month)
getdayset = {YEARLY: ii.ydayset,
             MONTHLY: ii.mdayset,
             WEEKLY: ii.wdayset,
             DAILY: ii.ddayset,
             HOURLY: ii.ddayset,
             MINUTELY: ii.ddayset,
             SECONDLY: ii.ddayset}[freq]
if freq < HOURLY:
    timeset = self._timeset
else:
    gettimeset = {HOURLY: ii.htimeset,
                  MINUTELY: ii.mtimeset,
                  SECONDLY: ii.stimeset}[freq]
    if ((freq >= HOURLY and
         self._byhour and hour not in self._byhour) or
        (freq >= MINUTELY and
         self._byminute and minute not in self._byminute) or
        (freq >= SECONDLY and
         self._bysecond and second not in self._bysecond)):
        timeset = ()
    else:
        timeset = gettimeset(hour, minute, second)
total = 0
count = self._count
'''

PIN_OUTPUT = '''
if bysetpos and timeset:
    poslist = []
    for pos in bysetpos:
        if pos < 0:
            daypos, timepos = divmod(pos, len(timeset))
        else:
            daypos, timepos = divmod(pos-1, len(timeset))
        try:
            i = [x for x in dayset[start:end]
                 if x is not None][daypos]
            time = timeset[timepos]
        except IndexError:
            pass
        else:
            date = datetime.date.fromordinal(ii.yearordinal+i)
            res = datetime.datetime.combine(date, time)
            if res not in poslist:
                poslist.append(res)
    poslist.sort()
    for res in poslist:
        GATE
else:
    for i in dayset[start:end]:
        if i is not None:
            date = datetime.date.fromordinal(ii.yearordinal + i)
            for time in timeset:
                res = datetime.datetime.combine(date, time)
                GATE
'''

def expect(nodes, src, what):
    want = dumps(parse_stmts(src))
    got = dumps(nodes)
    if got != want:
        k = next((i for i in range(min(len(got), len(want))) if got[i] != want[i]), min(len(got), len(want)))
        line = nodes[k].lineno if k < len(nodes) else (nodes[-1].lineno if nodes else 0)
        raise TranslateError("%s differs from the pinned text (statement %d, near line %d)" % (what, k, line))


def strip_doc(body):
    if body and isinstance(body[0], ast.Expr) and isinstance(body[0].value, ast.Constant) \
            and isinstance(body[0].value.value, str):
        return body[1:]
    return body


def find_method(tree, cls, name):
    for n in tree.body:
        if isinstance(n, ast.ClassDef) and n.name == cls:
            fs = [m for m in n.body if isinstance(m, ast.FunctionDef) and m.name == name]
            if len(fs) == 1:
                return fs[0]
    raise TranslateError("%s.%s not found" % (cls, name))


FREQS = ["YEARLY", "MONTHLY", "WEEKLY", "DAILY", "HOURLY", "MINUTELY", "SECONDLY"]


def translate():
    tree = ast.parse(open(SRC).read())
    f = find_method(tree, "rrule", "_iter")
    if [a.arg for a in f.args.args] != ["self"] or f.decorator_list:
        raise TranslateError("_iter: unexpected signature")
    body = strip_doc(f.body)
    if not body or not isinstance(body[-1], ast.While):
        raise TranslateError("_iter does not end in the `while True:` loop")
    loop = body[-1]
    if dump(loop.test) != dump(ast.parse("True").body[0].value) or loop.orelse:
        raise TranslateError("the main loop is not `while True:`")
    expect(body[:-1], PIN_PROLOGUE, "the prologue of _iter")
    ws = [n for n in body[:-1] if isinstance(n, ast.If) and ast.unparse(n.test).startswith("freq == WEEKLY")]
    if len(ws) != 1:
        raise TranslateError("the prologue has no unique `if freq == WEEKLY and bysetpos:`")
    week_def = week_start(ws[0])
    w = loop.body
    if len(w) != 7:
        raise TranslateError("the body of `while True:` no longer has its 7 sections (has %d)" % len(w))
    expect(w[0:2], "dayset, start, end = getdayset(year, month, day)\nfiltered = False", "the dayset fetch")
    # ---- section 3: the BY-filter loop
    fl = w[2]
    if not (isinstance(fl, ast.For) and dump(fl.target) == dump(ast.parse("i").body[0].value).replace("Load", "Store")
            and ast.unparse(fl.iter) == "dayset[start:end]" and not fl.orelse and len(fl.body) == 1
            and isinstance(fl.body[0], ast.If) and not fl.body[0].orelse):
        raise TranslateError("the BY-filter loop has an unexpected shape")
    expect(fl.body[0].body, "dayset[i] = None\nfiltered = True", "the body of the BY-filter `if`")
    test = fl.body[0].test
    if not (isinstance(test, ast.BoolOp) and isinstance(test.op, ast.Or)):
        raise TranslateError("the BY-filter condition is not an `or` of clauses")
    clauses = [cond(v) for v in test.values]
    # ---- section 4: output (pinned, with both copies of the gate)
    import copy
    try:
        g1 = w[3].body[-1].body[0]                       # for res in poslist: <gate>
        g2 = w[3].orelse[0].body[0].body[-1].body[-1]    # for time in timeset: res = ...; <gate>
    except (AttributeError, IndexError):
        raise TranslateError("the output section has an unexpected shape (near line %d)" % w[3].lineno)
    if dump(g1) != dump(g2):
        raise TranslateError("the two copies of the until/dtstart/count gate differ")
    sec = copy.deepcopy(w[3])
    sec.body[-1].body[0] = ast.Pass()
    sec.orelse[0].body[0].body[-1].body[-1] = ast.Pass()
    expect([sec], PIN_OUTPUT.replace("GATE", "pass"), "the output section (BYSETPOS poslist, gate positions)")
    gate_def = gate_def_of(g1)
    # ---- section 5/6: advance
    expect([w[4]], "fixday = False", "`fixday = False`")
    chain = w[5]
    branches = []
    node = chain
    for fq in FREQS:
        if not (isinstance(node, ast.If) and ast.unparse(node.test) == "freq == %s" % fq):
            raise TranslateError("the advance chain does not test `freq == %s` where expected" % fq)
        branches.append((fq, node.body))
        if fq == "SECONDLY":
            if node.orelse:
                raise TranslateError("unexpected `else` after the SECONDLY branch")
        else:
            if len(node.orelse) != 1:
                raise TranslateError("the advance chain is not an if/elif chain")
            node = node.orelse[0]
    # ---- section 7: the fixday carry: skeleton checked here, the body of its `while` translated
    fx = w[6]
    try:
        inner = fx.body[1]
        wh = inner.body[0]
        ok = (isinstance(fx, ast.If) and ast.unparse(fx.test) == "fixday and day > 28" and not fx.orelse
              and len(fx.body) == 2 and dump(fx.body[0]) == T_MONTHRANGE
              and isinstance(inner, ast.If) and ast.unparse(inner.test) == "day > daysinmonth" and not inner.orelse
              and len(inner.body) == 2 and isinstance(wh, ast.While) and ast.unparse(wh.test) == "day > daysinmonth"
              and not wh.orelse and dump(inner.body[1]) == T_REBUILD)
    except (AttributeError, IndexError):
        ok = False
    if not ok:
        raise TranslateError("the fixday month/year carry has an unexpected skeleton (near line %d)" % fx.lineno)
    RETURN_TERM[0] = "None"
    fix_step = ("Definition gen_fix_step (year month day dm : Z) : option (Z * Z * Z * Z) :=\n%s.\n"
                % stmts(wh.body, 1, final="Some (year, month, day, dm)"))
    RETURN_TERM[0] = "Ok AdvMax"
    # ---- rrule.__mod_distance: skeleton checked, the loop body translated
    md = find_method(tree, "rrule", "__mod_distance")
    if [a.arg for a in md.args.args] != ["self", "value", "byxxx", "base"]:
        raise TranslateError("__mod_distance: unexpected signature")
    mb = strip_doc(md.body)
    if not (len(mb) == 2 and dump(mb[0]) == dump(parse_stmts("accumulator = 0")[0]) and isinstance(mb[1], ast.For)
            and ast.unparse(mb[1].iter) == "range(1, base + 1)" and not mb[1].orelse and len(mb[1].body) == 3
            and isinstance(mb[1].body[2], ast.If) and ast.unparse(mb[1].body[2].test) == "value in byxxx"
            and not mb[1].body[2].orelse
            and dumps(mb[1].body[2].body) == dumps(parse_stmts("return (accumulator, value)"))):
        raise TranslateError("rrule.__mod_distance has an unexpected skeleton")
    md_step = ("Definition gen_md_step (rl : rule) (base : Z) (byxxx : list Z) (value acc : Z) : Z * Z * bool :=\n%s.\n"
               % stmts(mb[1].body[:2], 1, final="(acc, value, memZ value byxxx)"))

    out = ["(* GENERATED by harness/gen_rr_iter.py from dateutil/rrule.py (rrule._iter) -- do not edit. *)",
           "From Coq Require Import ZArith List Bool.",
           "From V Require Import base.Cal gen.RrTables rr.RRBase rr.RRNorm rr.RRMasks rr.RRIter factory.RRGenLib.",
           "Import ListNotations.", "Open Scope Z_scope.", ""]
    if len(clauses) != 6:
        raise TranslateError("the BY-filter has %d clauses, the model has 6" % len(clauses))
    for k, c in enumerate(clauses):
        out.append("Definition gen_cl_%d (rl : rule) (ii : iinfo) (i : Z) : res bool :=\n  %s.\n" % (k + 1, c))
    t = "gen_cl_6 rl ii i"
    for k in (5, 4, 3, 2, 1):
        t = "r_or (gen_cl_%d rl ii i) (%s)" % (k, t)
    out.append("Definition gen_day_rejected (rl : rule) (ii : iinfo) (i : Z) : res bool :=\n  %s.\n" % t)
    out.append(gate_def)
    out.append(week_def)
    out.append(fix_step)
    out.append(md_step)
    for fq, b in branches:
        if fq in ("MINUTELY", "SECONDLY"):
            # the `filtered` day jump, also emitted on its own
            first = b[0]
            var = "minute" if fq == "MINUTELY" else "second"
            if not (isinstance(first, ast.If) and ast.unparse(first.test) == "filtered" and not first.orelse
                    and len(first.body) == 1 and isinstance(first.body[0], ast.AugAssign)
                    and isinstance(first.body[0].op, ast.Add) and ast.unparse(first.body[0].target) == var):
                raise TranslateError("%s: the `if filtered:` day jump has an unexpected shape" % fq)
            out.append("Definition gen_jump_%s (rl : rule) (filtered : bool) (hour minute second : Z) : Z :=\n"
                       "  if filtered then %s + %s else %s.\n" % (fq, var, intexpr(first.body[0].value), var))
            jump = "  let %s := gen_jump_%s rl filtered hour minute second in\n" % (var, fq)
            out.append("Definition gen_adv_%s (rl : rule) (s : state) (filtered : bool) (cnt : option Z) "
                       "(out : list instant) : res adv :=\n  %s%s%s.\n" % (fq, HEADER, jump, stmts(b[1:], 1)))
        else:
            out.append("Definition gen_adv_%s (rl : rule) (s : state) (filtered : bool) (cnt : option Z) "
                       "(out : list instant) : res adv :=\n  %s%s.\n" % (fq, HEADER, stmts(b, 1)))
    return "\n".join(out) + "\n"


def main():
    try:
        txt = translate()
    except TranslateError as ex:
        print("TRANSLATE-ERROR (gen_rr_iter.py): %s" % ex)
        return 1
    if not os.path.exists(OUT) or open(OUT).read() != txt:
        os.makedirs(os.path.dirname(OUT), exist_ok=True)
        open(OUT, "w").write(txt)
    return 0


if __name__ == "__main__":
    sys.exit(main())
