"""Shared pieces of the relativedelta checks (C03, C09, C16): encoding of values for the
extracted oracle (bin/oracle_rd), canonical projections of implementation results, generators.

Import only after common.reexec_under_impl_python() (dateutil must come from VERIF_REPO/src)."""
import datetime as _dt
import os
import sys

sys.path.insert(0, os.path.dirname(os.path.abspath(__file__)))
import common as C

AREA = "rd"
VO_MODEL = ["gen/RdTables.vo", "rd/RdBase.vo", "rd/RdModel.vo", "rd/RdSpec.vo", "rd/RdAwareModel.vo"]

# oracle entry points (coq/extract/ExtractRd.v)
E_MK, E_ADD, E_RSUB, E_NEG, E_ABS, E_ADDRD, E_SUBRD, E_MULINT, E_MULWITH, E_NORMALIZED = range(1, 11)
E_EQB, E_HASH, E_BOOL, E_HASTIME, E_MKDIFF, E_RADD = 11, 12, 13, 14, 15, 16
S_ADD, S_WF, S_DIFF, S_PRED, S_MSHIFT = 20, 21, 22, 23, 24
E_MKDIFF_AWARE = 28

REL = ("years", "months", "days", "hours", "minutes", "seconds", "microseconds")
ABS = ("year", "month", "day", "hour", "minute", "second", "microsecond")
ERRNAME = {1: "ValueError", 2: "OverflowError", 3: "AssertionError", 4: "IndexError", 5: "OutOfFuel"}
LIMIT = 1 << 61   # everything sent to / received from the oracle must fit OCaml's native int


def is_int(x):
    return isinstance(x, int) and not isinstance(x, bool)


class WArg(object):
    """a weekday argument with its INTENDED (weekday, n): the object handed to relativedelta is built the
    documented way, relativedelta.MO..SU and MO(n) (_common.weekday.__call__), while the model and the spec
    receive the intent -- so a change in _common.weekday / the MO..SU table is visible."""
    __slots__ = ("weekday", "n")

    def __init__(self, weekday, n):
        self.weekday, self.n = weekday, n

    def obj(self):
        from dateutil import relativedelta as _rd
        base = (_rd.MO, _rd.TU, _rd.WE, _rd.TH, _rd.FR, _rd.SA, _rd.SU)[self.weekday]
        return base if self.n is None else base(self.n)


def real_kw(kw):
    """keyword arguments as handed to relativedelta (WArg -> the weekday object it describes)"""
    return {k: (v.obj() if isinstance(v, WArg) else v) for k, v in kw.items()}


def exc_code(ex):
    """exception CLASS -> the model's error enum (ValueError first: calendar.IllegalMonthError is
    both a ValueError and an IndexError)."""
    if isinstance(ex, ValueError):
        return 1
    if isinstance(ex, OverflowError):
        return 2
    if isinstance(ex, AssertionError):
        return 3
    if isinstance(ex, IndexError):
        return 4
    return "EXC:" + type(ex).__name__


# ------------------------------------------------------------------ encoders (-> oracle ints)

def enc_opt(v):
    return [0, 0] if v is None else [1, v]


def enc_dt(o):
    """date / datetime (naive or aware) -> 8 ints"""
    if isinstance(o, _dt.datetime):
        return [1, o.year, o.month, o.day, o.hour, o.minute, o.second, o.microsecond]
    return [0, o.year, o.month, o.day, 0, 0, 0, 0]


def enc_wd_obj(w):
    if w is None:
        return [0, 0, 0, 0]
    n = w.n
    return [1, w.weekday] + ([0, 0] if n is None else [1, n])


def rd_proj(d):
    """canonical projection of an implementation relativedelta: 8 relative values, 7 absolute,
    weekday as None | (weekday, n)."""
    w = d.weekday
    return (tuple(getattr(d, a) for a in REL) + (d.leapdays,),
            tuple(getattr(d, a) for a in ABS),
            None if w is None else (w.weekday, w.n))


def proj_is_int(p):
    return (all(is_int(x) for x in p[0]) and all(x is None or is_int(x) for x in p[1])
            and (p[2] is None or (is_int(p[2][0]) and (p[2][1] is None or is_int(p[2][1])))))


def enc_proj(p):
    rel, ab, w = p
    out = list(rel[:7]) + [rel[7]]
    for v in ab:
        out += enc_opt(v)
    if w is None:
        out += [0, 0, 0, 0]
    else:
        out += [1, w[0]] + ([0, 0] if w[1] is None else [1, w[1]])
    return out


def dec_rd(v):
    """26 ints -> projection"""
    rel = tuple(v[:8])
    ab = []
    for i in range(7):
        f, x = v[8 + 2 * i], v[9 + 2 * i]
        ab.append(x if f else None)
    wf, w, nf, n = v[22:26]
    return (rel, tuple(ab), None if not wf else (w, n if nf else None))


def dec_res_rd(v):
    if isinstance(v, str):
        return ("ORACLE", v)
    if v[0] == 1:
        return ("err", v[1])
    return ("ok", dec_rd(v[1:]))


def dec_dt(v):
    if v[0] == 0:
        return ("date", v[1], v[2], v[3])
    return ("datetime",) + tuple(v[1:8])


def dec_res_dt(v):
    if isinstance(v, str):
        return ("ORACLE", v)
    if v[0] == 1:
        return ("err", v[1])
    return ("ok", dec_dt(v[1:]))


def dec_opt_dt(v):
    if isinstance(v, str):
        return ("ORACLE", v)
    if v[0] == 0:
        return None
    return dec_dt(v[1:])


def dt_proj(o):
    if isinstance(o, _dt.datetime):
        return ("datetime", o.year, o.month, o.day, o.hour, o.minute, o.second, o.microsecond)
    return ("date", o.year, o.month, o.day)


def enc_kw(kw):
    """keyword-constructor arguments (ints / None / weekday forms) -> 31 ints"""
    out = [kw.get(a, 0) for a in REL]
    out += [kw.get("leapdays", 0), kw.get("weeks", 0)]
    for a in ABS:
        out += enc_opt(kw.get(a))
    w = kw.get("weekday")
    if w is None:
        out += [0, 0, 0, 0]
    elif is_int(w):
        out += [1, w, 0, 0]
    else:
        out += [2, w.weekday] + ([0, 0] if w.n is None else [1, w.n])
    out += enc_opt(kw.get("yearday"))
    out += enc_opt(kw.get("nlyearday"))
    return out


def fits(ints):
    return all(-LIMIT < x < LIMIT for x in ints)


def kw_json(kw):
    out = {}
    for k, v in kw.items():
        if k == "weekday" and isinstance(v, WArg):
            out[k] = {"weekday": v.weekday, "n": v.n, "via": "MO..SU(n)"}
        elif k == "weekday" and v is not None and not is_int(v):
            out[k] = {"weekday": v.weekday, "n": v.n}
        else:
            out[k] = v
    return out


def kw_from_json(j):
    from dateutil._common import weekday
    kw = {}
    for k, v in j.items():
        if k == "weekday" and isinstance(v, dict) and v.get("via"):
            kw[k] = WArg(v["weekday"], v["n"])
        elif k == "weekday" and isinstance(v, dict):
            kw[k] = weekday(v["weekday"], v["n"])
        else:
            kw[k] = v
    return kw


def dt_json(o):
    tzname = None
    if isinstance(o, _dt.datetime) and o.tzinfo is not None:
        tzname = getattr(o.tzinfo, "_verif_name", repr(o.tzinfo))
    return {"v": list(dt_proj(o)), "tz": tzname}


_TZS = {}


def zones():
    """tzinfo objects for the aware-datetime stream (carried untouched by relativedelta)."""
    if not _TZS:
        from dateutil import tz
        zs = {"utc": tz.tzutc(), "+05:30": tz.tzoffset("IST", 19800), "-03:00": tz.tzoffset(None, -10800),
              "EST5EDT": tz.tzstr("EST5EDT,M3.2.0,M11.1.0")}
        for k, z in zs.items():
            try:
                z._verif_name = k
            except Exception:
                pass
        _TZS.update(zs)
    return _TZS


def dt_from_json(j):
    v = j["v"]
    if v[0] == "date":
        return _dt.date(*v[1:])
    tzinfo = zones().get(j.get("tz")) if j.get("tz") else None
    return _dt.datetime(*v[1:], tzinfo=tzinfo)


# ------------------------------------------------------------------ generators

B_YEARS = [1, 2, 3, 4, 5, 99, 100, 101, 399, 400, 401, 999, 1000, 1582, 1583, 1600, 1899, 1900, 1901,
           1970, 1996, 1999, 2000, 2001, 2003, 2004, 2023, 2024, 2037, 2038, 2096, 2100, 2101, 2400,
           9995, 9996, 9997, 9998, 9999]


def days_in_month(y, m):
    import calendar
    return calendar.monthrange(y, m)[1]


def gen_date(r):
    """boundary-biased (y, m, d)"""
    y = r.choice(B_YEARS) if r.random() < 0.6 else r.randint(1, 9999)
    m = r.choice([1, 2, 2, 3, 12]) if r.random() < 0.4 else r.randint(1, 12)
    dim = days_in_month(y, m)
    c = r.random()
    if c < 0.45:
        d = r.choice([1, 28, 29, 30, 31, dim, dim - 1])
        d = min(d, dim)
    else:
        d = r.randint(1, dim)
    return y, m, d


def gen_time(r):
    c = r.random()
    if c < 0.25:
        return (0, 0, 0, 0)
    if c < 0.4:
        return (23, 59, 59, 999999)
    if c < 0.5:
        return (r.choice([0, 12, 23]), r.choice([0, 59]), r.choice([0, 59]), r.choice([0, 1, 999999]))
    return (r.randint(0, 23), r.randint(0, 59), r.randint(0, 59), r.randint(0, 999999))


def gen_operand(r, kinds=("date", "naive", "aware")):
    """a date, naive datetime or aware datetime"""
    y, m, d = gen_date(r)
    k = r.choice(kinds)
    if k == "date":
        return _dt.date(y, m, d)
    hh, mi, ss, us = gen_time(r)
    tzinfo = None
    if k == "aware":
        tzinfo = zones()[r.choice(sorted(zones()))]
    return _dt.datetime(y, m, d, hh, mi, ss, us, tzinfo=tzinfo)


def signed(r, mag):
    return r.randint(-mag, mag)


def gen_rel_value(r, name):
    """signed relative value: small, large enough to carry, or huge"""
    c = r.random()
    small = {"years": 3, "months": 13, "days": 40, "hours": 30, "minutes": 70, "seconds": 70,
             "microseconds": 1000}[name]
    carry = {"years": 300, "months": 400, "days": 5000, "hours": 2000, "minutes": 10 ** 5,
             "seconds": 10 ** 7, "microseconds": 10 ** 10}[name]
    huge = {"years": 20000, "months": 250000, "days": 8 * 10 ** 6, "hours": 10 ** 8, "minutes": 10 ** 10,
            "seconds": 10 ** 12, "microseconds": 10 ** 15}[name]
    if c < 0.55:
        return signed(r, small)
    if c < 0.8:
        base = {"years": 1, "months": 12, "days": 7, "hours": 24, "minutes": 60, "seconds": 60,
                "microseconds": 10 ** 6}[name]
        # values around multiples of the carry base
        return r.choice([-1, 1]) * (base * r.randint(0, 5) + r.choice([-1, 0, 1, base - 1]))
    if c < 0.95:
        return signed(r, carry)
    if c < 0.995:
        return signed(r, huge)
    return r.choice([-1, 1]) * r.choice([2 ** 31 - 1, 2 ** 31, 10 ** 10, 86400 * 10 ** 9, 10 ** 15])


def gen_abs_value(r, name):
    valid = {"year": lambda: r.choice(B_YEARS) if r.random() < 0.5 else r.randint(1, 9999),
             "month": lambda: r.randint(1, 12),
             "day": lambda: r.choice([1, 28, 29, 30, 31]) if r.random() < 0.6 else r.randint(1, 31),
             "hour": lambda: r.choice([0, 23]) if r.random() < 0.4 else r.randint(0, 23),
             "minute": lambda: r.choice([0, 59]) if r.random() < 0.4 else r.randint(0, 59),
             "second": lambda: r.choice([0, 59]) if r.random() < 0.4 else r.randint(0, 59),
             "microsecond": lambda: r.choice([0, 999999]) if r.random() < 0.4 else r.randint(0, 999999)}
    c = r.random()
    if c < 0.88:
        return valid[name]()
    bad = {"year": [0, -1, 10000, 2 ** 31, -5], "month": [0, 13, -1, 14, 24, 25, 30],
           "day": [0, 32, -1, 40, 2 ** 31], "hour": [24, -1, 25, 2 ** 31], "minute": [60, -1],
           "second": [60, -1, 61], "microsecond": [10 ** 6, -1, 2 ** 31]}
    return r.choice(bad[name])


def gen_weekday(r):
    from dateutil._common import weekday
    c = r.random()
    if c < 0.2:
        return r.randint(0, 6)                       # integer form
    if c < 0.23:
        return r.choice([-7, -1, 7, -8, 6, 10])      # integer form incl. negative index / IndexError
    w = r.randint(0, 6)
    c = r.random()
    if c < 0.2:
        n = None
    elif c < 0.9:
        n = r.randint(-5, 5)
    elif c < 0.97:
        n = r.choice([-60, -53, 53, 100, 1000, -1000])
    else:
        n = r.choice([10 ** 6, -10 ** 6, 10 ** 9, -10 ** 9, 2 * 10 ** 8])
    if r.random() < 0.02:
        w = r.choice([7, 9, -1, 13])                 # outside MO..SU (weekday(x) accepts anything)
    return weekday(w, n)


def gen_kwargs(r, p_rel=0.3, p_abs=0.18, allow_yearday=True):
    kw = {}
    for name in REL:
        if r.random() < p_rel:
            kw[name] = gen_rel_value(r, name)
    if r.random() < 0.12:
        kw["weeks"] = signed(r, r.choice([3, 60, 10 ** 4]))
    if r.random() < 0.12:
        kw["leapdays"] = r.choice([-2, -1, 0, 1, 2, 3, 10])
    for name in ABS:
        if r.random() < p_abs:
            kw[name] = gen_abs_value(r, name)
    if r.random() < 0.35:
        kw["weekday"] = gen_weekday(r)
    if allow_yearday and r.random() < 0.1:
        which = r.choice(["yearday", "nlyearday", "both"])
        def yd():
            return (r.choice([1, 31, 32, 59, 60, 61, 90, 365, 366, 367, 0, -1, -400, 400])
                    if r.random() < 0.4 else r.randint(1, 366))
        if which in ("yearday", "both"):
            kw["yearday"] = yd()
        if which in ("nlyearday", "both"):
            kw["nlyearday"] = yd()
    return kw


def merge_hist(a, b):
    for k, v in b.items():
        a[k] = a.get(k, 0) + v
    return a


def pool_map(fn, jobs, procs):
    """Run fn over jobs with a process pool (fork); results in job order."""
    procs = max(1, min(procs, len(jobs)))
    if procs == 1:
        return [fn(j) for j in jobs]
    import multiprocessing as mp
    ctx = mp.get_context("fork")
    with ctx.Pool(procs) as p:
        return p.map(fn, jobs, chunksize=1)


def nprocs(tier):
    try:
        v = int(os.environ.get("VERIF_PROCS", "0"))
    except ValueError:
        v = 0
    if v > 0:
        return min(v, 16)
    return 4 if tier == "quick" else 12


def measure_anchor_coverage(fn, ranges):
    """run fn() in-process under coverage.py restricted to relativedelta.py; report which statements
    of the anchored line ranges were executed (definitions run at import time are not counted)."""
    try:
        import coverage
    except Exception:
        return fn(), {"available": False}
    path = os.path.join(C.SRC, "dateutil", "relativedelta.py")
    cov = coverage.Coverage(branch=True, include=[path], data_file=None)
    cov.start()
    try:
        res = fn()
    finally:
        cov.stop()
    try:
        an = cov._analyze(path)
        inr = lambda n: any(a <= n <= b for a, b in ranges)
        src_lines = open(path).read().splitlines()
        is_def = lambda n: src_lines[n - 1].strip().startswith(("def ", "@", "class "))
        stmts = sorted(n for n in an.statements if inr(n) and not is_def(n))
        missing = sorted(n for n in an.missing if inr(n) and not is_def(n))
        return res, {"available": True, "file": "src/dateutil/relativedelta.py", "ranges": [list(r) for r in ranges],
                     "statements_in_ranges": len(stmts), "missing_statements_in_ranges": len(missing),
                     "missing_lines": missing[:40]}
    except Exception as ex:
        return res, {"available": False, "error": repr(ex)}


# ------------------------------------------------------------------ translated-source obligations
GEN_MARKER = ("From V Require Import rd.RdGenBase gen.RdMethodsGen rd.RdGenThm rd.RdAddGenBase gen.RdAddGen "
              "rd.RdAddGenThm.")


def _load(modname):
    import importlib.util
    spec = importlib.util.spec_from_file_location(modname, os.path.join(C.VERIF, "harness", modname + ".py"))
    m = importlib.util.module_from_spec(spec)
    spec.loader.exec_module(m)
    return m


def translator_errors():
    """run both source translators in-process on this run's source tree: the list of their aborts"""
    terrs = []
    rd_src = os.path.join(C.SRC, "dateutil", "relativedelta.py")
    try:
        _t, e1 = _load("gen_rd_methods").translate(open(rd_src).read(),
                                                   open(os.path.join(C.SRC, "dateutil", "_common.py")).read())
        terrs += ["gen_rd_methods %s: %s" % e for e in e1]
    except Exception as ex:
        terrs.append("gen_rd_methods source: %s" % ex)
    try:
        _t, e2 = _load("gen_rd_add").translate(open(rd_src).read())
        terrs += ["gen_rd_add %s: %s" % e for e in e2]
    except Exception as ex:
        terrs.append("gen_rd_add source: %s" % ex)
    return terrs


def private_gen_check(cid):
    """Re-check the <cid>_gen_* obligations against the translation of THIS run's source (VERIF_REPO) in a
    private directory (logical path P): coq/gen/ is shared with every concurrently running check, each of
    which regenerates it from its own source tree, so the shared build may belong to another tree by the
    time props/<cid>.v is compiled.  The result is cached under build/rd_gen_cache/<hash> where the hash
    covers the two generated files, every hand-written source they and the proofs depend on and the
    obligations themselves -- an unchanged tree is compiled once, a changed one is always recompiled.
    -> dict(names, discharged, ok, errors [translator aborts], log)"""
    import hashlib
    import re
    import shutil
    terrs = []
    try:
        G1 = _load("gen_rd_methods")
        t1, e1 = G1.translate(open(os.path.join(C.SRC, "dateutil", "relativedelta.py")).read(),
                              open(os.path.join(C.SRC, "dateutil", "_common.py")).read())
        terrs += ["gen_rd_methods %s: %s" % e for e in e1]
    except Exception as ex:
        t1 = "(* TRANSLATE-ERROR source: %s *)\n" % str(ex).replace("*)", "* )").replace("(*", "( *")
        terrs.append("gen_rd_methods source: %s" % ex)
    try:
        G2 = _load("gen_rd_add")
        t2, e2 = G2.translate(open(os.path.join(C.SRC, "dateutil", "relativedelta.py")).read())
        terrs += ["gen_rd_add %s: %s" % e for e in e2]
    except Exception as ex:
        t2 = "(* TRANSLATE-ERROR source: %s *)\n" % str(ex).replace("*)", "* )").replace("(*", "( *")
        terrs.append("gen_rd_add source: %s" % ex)
    props = open(os.path.join(C.COQ, "props", cid + ".v")).read()
    if GEN_MARKER not in props:
        return {"names": [], "discharged": 0, "ok": False, "errors": terrs, "log": "marker line missing in props/%s.v" % cid}
    head = re.sub(r"\(\*.*?\*\)", "", props[:props.index("Theorem %s_" % cid)], flags=re.S)
    tail = props[props.index(GEN_MARKER) + len(GEN_MARKER):]
    names = re.findall(r"^\s*Theorem\s+([A-Za-z0-9_']+)", re.sub(r"\(\*.*?\*\)", "", tail, flags=re.S), flags=re.M)
    thm1 = open(os.path.join(C.COQ, "rd", "RdGenThm.v")).read()
    thm2 = open(os.path.join(C.COQ, "rd", "RdAddGenThm.v")).read()
    if " gen.RdMethodsGen" not in thm1 or "gen.RdMethodsGen rd.RdGenThm rd.RdAddGenBase gen.RdAddGen." not in thm2 \
            or " gen.RdMethodsGen" not in t2 and "TRANSLATE-ERROR source" not in t2:
        return {"names": names, "discharged": 0, "ok": False, "errors": terrs,
                "log": "unexpected import lines in RdGenThm.v / RdAddGenThm.v / RdAddGen.v"}
    files = [
        ("RdMethodsGen.v", t1),
        ("RdGenThm.v", thm1.replace(" gen.RdMethodsGen", "", 1).replace(
            "Import ListNotations.", "From P Require Import RdMethodsGen.\nImport ListNotations.", 1)),
        ("RdAddGen.v", t2.replace(" gen.RdMethodsGen", "", 1).replace(
            "Open Scope Z_scope.", "From P Require Import RdMethodsGen.\nOpen Scope Z_scope.", 1)),
        ("RdAddGenThm.v", thm2.replace("gen.RdMethodsGen rd.RdGenThm rd.RdAddGenBase gen.RdAddGen.",
                                       "rd.RdAddGenBase.\nFrom P Require Import RdMethodsGen RdGenThm RdAddGen.", 1)),
        (cid + "gen.v", head + "\nFrom V Require Import rd.RdGenBase rd.RdAddGenBase.\n"
                               "From P Require Import RdMethodsGen RdGenThm RdAddGen RdAddGenThm.\n" + tail),
    ]
    h = hashlib.sha256()
    for name, txt in files:
        h.update(name.encode() + b"\0" + txt.encode() + b"\0")
    for sub in ("base", "rd"):
        for f in sorted(os.listdir(os.path.join(C.COQ, sub))):
            if f.endswith(".v"):
                h.update(f.encode() + open(os.path.join(C.COQ, sub, f), "rb").read())
    h.update(open(os.path.join(C.COQ, "gen", "RdTables.v"), "rb").read())
    root = os.path.join(C.BUILD, "rd_gen_cache")
    os.makedirs(root, exist_ok=True)
    res_path = os.path.join(root, h.hexdigest()[:24] + ".json")
    import json as _json
    if os.path.exists(res_path):
        try:
            r = _json.load(open(res_path))
            r["errors"], r["cached"] = terrs, True
            return r
        except Exception:
            pass
    d = os.path.join(root, "work_%d" % os.getpid())
    shutil.rmtree(d, ignore_errors=True)
    os.makedirs(os.path.join(d, "P"))
    try:
        log, rc = "", 0
        for name, txt in files:
            open(os.path.join(d, "P", name), "w").write(txt)
        for name, _t in files:
            rc, out = C.sh(["timeout", "900", "coqc", "-R", C.COQ, "V", "-R", os.path.join(d, "P"), "P",
                            os.path.join(d, "P", name)], cwd=d)
            log += out
            if rc != 0:
                break
        n = len(re.findall(r"(?m)^(Closed under the global context|Axioms:)", log))
        r = {"names": names, "discharged": min(n, len(names)), "ok": rc == 0 and n == len(names),
             "log": log[-4000:], "cached": False}
        # a failure caused by a stale shared .vo (another check rebuilding coq/rd) must not be cached as a verdict
        if "inconsistent assumptions" not in log and "Cannot find a physical path" not in log \
                and "Unable to locate library" not in log:
            tmp = res_path + ".%d" % os.getpid()
            open(tmp, "w").write(_json.dumps(r))
            os.replace(tmp, res_path)
        r["errors"] = terrs
        return r
    finally:
        shutil.rmtree(d, ignore_errors=True)


def merge_private(cid, props, priv):
    """fold the private re-check of the <cid>_gen_* obligations into the compile_props() result"""
    gen_names = [n for n in props["theorems"] if n.startswith(cid + "_gen_")]
    base_names = [n for n in props["theorems"] if not n.startswith(cid + "_gen_")]
    if props["discharged"] >= len(base_names) and priv["names"] == gen_names:
        props["discharged"] = len(base_names) + priv["discharged"]
        props["ok"] = bool(priv.get("ok"))
        props["log"] = (props["log"][-1500:] + "\n--- private re-check of the %s_gen_* obligations (%s) ---\n" % (
            cid, "cached" if priv.get("cached") else "compiled") + priv["log"][-2500:])
    elif priv["names"] != gen_names:
        props["ok"] = False
        props["log"] += "\nprivate re-check: theorem names differ: %r vs %r" % (priv["names"], gen_names)
    return props
