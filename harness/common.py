"""Shared machinery of the /verif checks: build, oracle processes, proof-obligation
compilation, evidence, known findings, violation reporting."""
import fcntl
import glob
import hashlib
import json
import os
import random
import re
import subprocess
import sys
import time

VERIF = os.path.dirname(os.path.dirname(os.path.abspath(__file__)))
REPO = os.environ.get("VERIF_REPO", "/repo")
SRC = os.path.join(REPO, "src")
COQ = os.path.join(VERIF, "coq")
BUILD = os.path.join(VERIF, "build")
BIN = os.path.join(VERIF, "bin")
# runs against a scratch copy of the repository (VERIF_REPO, used to try seeded changes) must not
# overwrite the evidence / replays of the real tree
_SCRATCH = os.path.realpath(REPO) != "/repo"
EVID = os.path.join(BUILD, "scratch_evidence") if _SCRATCH else os.path.join(VERIF, "evidence")
REPLAYS = os.path.join(BUILD, "scratch_replays") if _SCRATCH else os.path.join(VERIF, "replays")
JOBS = str(os.cpu_count() or 4)
IMPL_PY = "/venv/bin/python"

FORBIDDEN = re.compile(
    r"\b(Admitted|admit|Axiom|Axioms|Parameter|Parameters|Conjecture|Conjectures|Admit Obligations|"
    r"Unset Guard Checking|Unset Positivity Checking|Unset Universe Checking|bypass_check|"
    r"native_compute|type-in-type|impredicative-set)\b")


def seed():
    try:
        return int(os.environ.get("VERIF_SEED", "0"))
    except ValueError:
        return 0


def rng(tag=""):
    return random.Random("%d/%s" % (seed(), tag))


def sh(cmd, cwd=None, timeout=1800, env=None):
    p = subprocess.run(cmd, cwd=cwd, shell=isinstance(cmd, str), stdout=subprocess.PIPE,
                       stderr=subprocess.STDOUT, timeout=timeout, env=env, text=True)
    return p.returncode, p.stdout


class BuildError(Exception):
    def __init__(self, what, log):
        Exception.__init__(self, what)
        self.what, self.log = what, log


# --------------------------------------------------------------------------------------
# build


def _lock():
    os.makedirs(BUILD, exist_ok=True)
    f = open(os.path.join(BUILD, ".lock"), "w")
    fcntl.flock(f, fcntl.LOCK_EX)
    return f


POISON = ("(* GENERATOR-FAILED: %s\n%s\n*)\n"
          "(* the translator is fail-closed: everything that depends on this file must not build *)\n"
          "Definition generator_failed : False := I.\n")


def regenerate():
    """Regenerate coq/gen/*.v from /repo's current working tree.  Every generator is fail-closed:
    when one aborts, the files it is responsible for (named `coq/gen/<X>.v` in its source) are
    replaced by a file that does not compile, so exactly the theorems that depend on the
    translated code stop checking (a broken obligation of THOSE properties) while the checks of
    unrelated properties are not disturbed."""
    os.makedirs(os.path.join(COQ, "gen"), exist_ok=True)
    logs = []
    for script in sorted(glob.glob(os.path.join(VERIF, "harness", "gen_*.py"))):
        rc, out = sh([IMPL_PY, script], cwd=VERIF, env=impl_env())
        logs.append(out)
        if rc != 0:
            outs = sorted(set(re.findall(r"coq/gen/(\w+)\.v", open(script).read())))
            if not outs:
                raise BuildError("generator %s failed (translator is fail-closed)" % os.path.basename(script), out)
            for name in outs:
                path = os.path.join(COQ, "gen", name + ".v")
                txt = POISON % (os.path.basename(script), out[-1500:].replace("*)", "* )"))
                if not os.path.exists(path) or open(path).read() != txt:
                    open(path, "w").write(txt)
                # the compiled files of the previous, clean build must not stay loadable
                for ext in (".vo", ".vos", ".vok", ".glob"):
                    try:
                        os.remove(os.path.join(COQ, "gen", name + ext))
                    except OSError:
                        pass
            logs.append("GENERATOR FAILED: %s -> poisoned %s" % (os.path.basename(script), outs))
    return "\n".join(logs)


def coq_sources():
    out = []
    for root, _d, files in os.walk(COQ):
        for f in files:
            if f.endswith(".v"):
                out.append(os.path.join(root, f))
    return sorted(out)


def scan_forbidden():
    bad = []
    for p in coq_sources():
        txt = re.sub(r"\(\*.*?\*\)", "", open(p).read(), flags=re.S)
        for m in FORBIDDEN.finditer(txt):
            bad.append("%s: %s" % (os.path.relpath(p, VERIF), m.group(0)))
    return bad


def write_coqproject():
    lines = ["-R . V", "-arg -w -arg -notation-overridden,-deprecated-hint-without-locality,-deprecated"]
    for p in coq_sources():
        rel = os.path.relpath(p, COQ)
        if rel.startswith("extract" + os.sep):
            continue
        lines.append(rel)
    txt = "\n".join(lines) + "\n"
    path = os.path.join(COQ, "_CoqProject")
    old = open(path).read() if os.path.exists(path) else None
    if old != txt:
        open(path, "w").write(txt)
        rc, out = sh("coq_makefile -f _CoqProject -o Makefile", cwd=COQ)
        if rc != 0:
            raise BuildError("coq_makefile failed", out)
    elif not os.path.exists(os.path.join(COQ, "Makefile")):
        rc, out = sh("coq_makefile -f _CoqProject -o Makefile", cwd=COQ)
        if rc != 0:
            raise BuildError("coq_makefile failed", out)


def make(targets=None, timeout=3000):
    """Full .vo build (never -vos). targets: list of .vo paths relative to coq/, or None = all."""
    # every coqc is capped at 20 GB of address space: a runaway proof fails instead of
    # exhausting the machine (the largest legitimate file here needs < 4 GB)
    cmd = "ulimit -v 20000000; exec timeout %d make -k -j%s %s" % (timeout, JOBS, " ".join(targets or []))
    rc, out = sh(["bash", "-c", cmd], cwd=COQ, timeout=timeout + 60)
    return rc, out


def _area_hash(extract_v):
    """Hash of every Coq source the extraction may depend on."""
    h = hashlib.sha256()
    for p in coq_sources():
        rel = os.path.relpath(p, COQ)
        if rel.startswith("props" + os.sep):
            continue
        if rel.startswith("extract" + os.sep) and p != extract_v:
            continue
        h.update(rel.encode())
        h.update(open(p, "rb").read())
    h.update(open(os.path.join(VERIF, "ocaml", "driver.ml"), "rb").read())
    return h.hexdigest()


def build_oracle(area):
    """Extract coq/extract/Extract<Area>.v and link bin/oracle_<area> (if stale)."""
    name = "Extract" + area[0].upper() + area[1:] + ".v"
    extract_v = os.path.join(COQ, "extract", name)
    bdir = os.path.join(BUILD, area)
    os.makedirs(bdir, exist_ok=True)
    os.makedirs(BIN, exist_ok=True)
    stamp = os.path.join(bdir, "stamp")
    exe = os.path.join(BIN, "oracle_" + area)
    hv = _area_hash(extract_v)
    if os.path.exists(stamp) and os.path.exists(exe) and open(stamp).read() == hv:
        return
    rc, out = sh(["timeout", "900", "coqc", "-R", COQ, "V", "-w", "-extraction", extract_v], cwd=bdir)
    if rc != 0:
        raise BuildError("extraction of %s failed" % name, out)
    sh(["cp", os.path.join(VERIF, "ocaml", "driver.ml"), bdir])
    rc, out = sh("ocamlfind ocamlopt -O3 -w -a -o %s model.mli model.ml driver.ml 2>&1 || "
                 "ocamlfind ocamlopt -w -a -o %s model.mli model.ml driver.ml" % (exe, exe), cwd=bdir)
    if rc != 0:
        raise BuildError("ocaml build of oracle_%s failed" % area, out)
    open(stamp, "w").write(hv)


def ensure_built(areas=(), vo_targets=None):
    """Regenerate gen files from /repo, rebuild whatever depends on them, build oracles.
    Raises BuildError (a broken proof obligation) on failure."""
    lk = _lock()
    try:
        bad = scan_forbidden()
        if bad:
            raise BuildError("forbidden construct in the Coq development", "\n".join(bad))
        log = regenerate()
        write_coqproject()
        # -k: a proof broken by a regenerated file must not stop the models (and hence the
        # oracles used to search for a failing input) from building.  Whether a property's own
        # obligations still check is decided by compile_props().
        rc, out = make(vo_targets)
        log += out
        for a in areas:
            build_oracle(a)
        return rc == 0, log
    finally:
        lk.close()


# --------------------------------------------------------------------------------------
# oracle


class Oracle:
    """Persistent extracted-model process; batch calls are chunked to avoid pipe deadlock."""

    def __init__(self, area):
        self.area = area
        self.exe = os.path.join(BIN, "oracle_" + area)
        self.p = subprocess.Popen(["bash", "-c", "ulimit -s unlimited 2>/dev/null; exec " + self.exe],
                                  stdin=subprocess.PIPE, stdout=subprocess.PIPE, text=True, bufsize=1 << 20)

    @staticmethod
    def _parse(line):
        line = line.strip()
        if line.startswith(("OVF", "STACK", "FAIL")):
            return line
        return [int(t) for t in line.split()]

    def call(self, entry, args):
        self.p.stdin.write("%d %s\n" % (entry, " ".join(map(str, args))))
        self.p.stdin.flush()
        line = self.p.stdout.readline()
        if not line:
            raise RuntimeError("oracle_%s died on entry %d args %r" % (self.area, entry, args[:50]))
        return self._parse(line)

    def call_many(self, reqs, chunk=256):
        # a batch is at most `chunk` requests AND at most 32 KiB of request text, so that writing
        # it can never block on the 64 KiB pipe while the oracle blocks writing its replies
        out = []
        i = 0
        while i < len(reqs):
            part, lines, size = [], [], 0
            while i < len(reqs) and len(part) < chunk:
                e, a = reqs[i]
                ln = "%d %s\n" % (e, " ".join(map(str, a)))
                if part and size + len(ln) > 32768:
                    break
                part.append((e, a))
                lines.append(ln)
                size += len(ln)
                i += 1
            self.p.stdin.write("".join(lines))
            self.p.stdin.flush()
            for (e, a) in part:
                line = self.p.stdout.readline()
                if not line:
                    raise RuntimeError("oracle_%s died on entry %d args %r" % (self.area, e, a[:50]))
                out.append(self._parse(line))
        return out

    def close(self):
        try:
            self.p.stdin.close()
            self.p.wait(timeout=10)
        except Exception:
            self.p.kill()


# --------------------------------------------------------------------------------------
# proof obligations


def compile_props(cid):
    """Compile coq/props/<cid>.v; returns dict(obligations, discharged, theorems, assumptions, cmd, log, ok).
    Done under ONE hold of the build lock together with a fresh regeneration of coq/gen from the
    repository under test and a `make` of everything the props file depends on, so that a
    concurrently running check of another tree cannot swap the generated files in between."""
    path = os.path.join(COQ, "props", cid + ".v")
    src = open(path).read()
    src_nc = re.sub(r"\(\*.*?\*\)", "", src, flags=re.S)
    names = re.findall(r"^\s*Theorem\s+([A-Za-z0-9_']+)", src_nc, flags=re.M)
    cmd = "coqc -R %s V %s" % (COQ, path)
    lk = _lock()
    make_failed = False
    try:
        pre = ""
        try:
            pre = regenerate()
            write_coqproject()
            rcm, outm = make(["props/%s.vo" % cid], timeout=2400)
            if rcm != 0:
                pre += "\n" + outm[-3000:]
                make_failed = True
        except BuildError as ex:
            pre += "\n" + ex.what + "\n" + ex.log[-2000:]
        # the props file itself only READS compiled files: downgrade to a shared lock so that
        # several checks can print their assumptions at once, while any regenerate / make of
        # another check (exclusive) still waits for all readers
        fcntl.flock(lk, fcntl.LOCK_SH)
        rc, out = sh(["timeout", "900", "coqc", "-R", COQ, "V", path], cwd=COQ)
        if make_failed and rc == 0:
            # a dependency of the props file did not build (e.g. a regenerated file that no longer
            # compiles): the stale .vo files of an earlier build must not discharge anything.
            # Count the theorems whose Print Assumptions came BEFORE nothing: none.
            rc, out = 1, ("a dependency of props/%s.v failed to build; obligations are not discharged by "
                          "stale compiled files\n" % cid) + pre[-4000:]
        elif rc != 0:
            out = pre[-4000:] + "\n" + out
    finally:
        lk.close()
    # each `Print Assumptions` prints either "Closed under the global context" or "Axioms:" + list
    blocks = re.split(r"(?m)^(?=Closed under the global context|Axioms:)", out)
    blocks = [b.strip() for b in blocks if b.strip().startswith(("Closed under", "Axioms:"))]
    assumptions = {}
    for n, b in zip(names, blocks):
        assumptions[n] = b if len(b) < 2000 else b[:2000]
    discharged = len(blocks) if rc != 0 else len(names)
    if rc == 0 and len(blocks) != len(names):
        rc, out = 1, out + "\nprops file must have one Print Assumptions per Theorem"
        discharged = min(len(blocks), len(names))
    return {"obligations": len(names), "discharged": discharged, "theorems": names,
            "assumptions": assumptions, "cmd": cmd, "log": out, "ok": rc == 0}


# --------------------------------------------------------------------------------------
# implementation environment


def impl_env(extra=None):
    env = dict(os.environ)
    env["PYTHONPATH"] = SRC
    env["PYTHONHASHSEED"] = "0"
    env.setdefault("TZ", "UTC")
    env["DATEUTIL_VERIF"] = "1"
    if extra:
        env.update(extra)
    return env




def reexec_under_impl_python():
    """Checks run under /venv/bin/python with PYTHONPATH=/repo/src, PYTHONHASHSEED=0, TZ=UTC."""
    if os.environ.get("VERIF_REEXEC") == "1":
        if SRC not in sys.path:
            sys.path.insert(0, SRC)
        return
    env = impl_env({"VERIF_REEXEC": "1"})
    os.execve(IMPL_PY, [IMPL_PY] + sys.argv, env)


# --------------------------------------------------------------------------------------
# verdicts


def load_known_findings(cid):
    path = os.path.join(VERIF, "known_findings.json")
    if not os.path.exists(path):
        return []
    data = json.load(open(path))
    return [f for f in data.get("findings", []) if f.get("property") == cid and f.get("status") == "open"]


def write_replay(cid, payload):
    os.makedirs(REPLAYS, exist_ok=True)
    blob = json.dumps(payload, sort_keys=True, default=str)
    h = hashlib.sha1(blob.encode()).hexdigest()[:12]
    path = os.path.join(REPLAYS, "%s-%s.json" % (cid, h))
    open(path, "w").write(json.dumps(payload, indent=1, sort_keys=True, default=str) + "\n")
    return path


class Verdict:
    """Collects violations / known findings of one run and produces exit code + lines."""

    def __init__(self, cid, matchers=None):
        self.cid = cid
        self.findings = load_known_findings(cid)
        self.matchers = matchers or {}
        self.violations = []      # (payload, concrete?)
        self.known_hits = {}      # finding id -> count
        self.known_examples = {}

    def violation(self, payload, concrete=True):
        """payload: dict with at least 'kind' and 'input'. Routed to a known finding if a
        listed matcher accepts it."""
        for f in self.findings:
            m = self.matchers.get(f.get("matcher"))
            if m is not None:
                try:
                    hit = m(payload)
                except Exception:
                    hit = False
                if hit:
                    self.known_hits[f["id"]] = self.known_hits.get(f["id"], 0) + 1
                    self.known_examples.setdefault(f["id"], payload)
                    return False
        self.violations.append((payload, concrete))
        return True

    def finish(self):
        for f in self.findings:
            # listed findings are printed on every run of the unchanged tree
            print("KNOWN-FINDING: property=%s %s [%s; reproduced %d times in this run]" % (
                self.cid, f["what"], f["id"], self.known_hits.get(f["id"], 0)))
        if not self.violations:
            return 0
        seen = set()
        # concrete failing inputs first: they are the replays worth looking at
        ordered = sorted(self.violations, key=lambda pc: 0 if pc[1] else 1)
        for payload, concrete in ordered[:5]:
            payload = dict(payload)
            payload["property"] = self.cid
            payload["concrete_failing_input"] = bool(concrete)
            path = write_replay(self.cid, payload)
            if path in seen:
                continue
            seen.add(path)
            print("VIOLATION property=%s replay=%s%s" % (
                self.cid, path, "" if concrete else " no-failing-input-found"))
        return 1


def base_trusted():
    return [
        "Coq 8.16.1 kernel incl. bytecode VM (vm_compute); no native_compute",
        "extraction: Require Extraction + ExtrOcamlBasic only (bool/option/unit/list/prod/sumbool/sumor "
        "mapped to OCaml types); no Extract Constant / Extract Inductive of ours; Z/positive/nat stay inductives",
        "ocaml/driver.ml line protocol (native int <-> Z) and OCaml 4.13 compiler",
        "Python harness: generators, canonical projection, comparison",
        "CPython datetime/calendar modelled (coq/base/Cal.v), not verified",
    ]


def write_evidence(cid, tier, t0, props, coverage, assumptions, violations):
    os.makedirs(EVID, exist_ok=True)
    cov = dict(coverage)
    cov.setdefault("obligations", props["obligations"])
    cov.setdefault("discharged", props["discharged"])
    cov.setdefault("checker_cmd", "make -C coq (full .vo build via coq_makefile) && " + props["cmd"])
    cov.setdefault("theorems", props["theorems"])
    cov.setdefault("print_assumptions", props["assumptions"])
    tb = list(cov.get("trusted_base", [])) or base_trusted()
    axioms = sorted({a for a in props["assumptions"].values() if not a.startswith("Closed")})
    tb.append("Print Assumptions of every theorem of props/%s.v in this run: %s" % (
        cid, "all 'Closed under the global context'" if not axioms else "; ".join(axioms)))
    cov["trusted_base"] = tb
    ev = {"property_id": cid, "tier": tier, "seed": seed(), "level": "proof", "coverage": cov,
          "assumptions": assumptions, "wall_s": round(time.time() - t0, 2), "violations": violations}
    path = os.path.join(EVID, cid + ".json")
    tmp = path + ".tmp"
    open(tmp, "w").write(json.dumps(ev, indent=1, default=str) + "\n")
    os.replace(tmp, path)
    return path


def tier_from_argv(argv):
    t = os.environ.get("VERIF_TIER")
    for a in argv:
        if a in ("quick", "thorough"):
            t = a
    return t or "quick"
