#!/usr/bin/env python3
"""C07 -- isoparse inverts every ISO-8601 rendering.

Theorems (coq/props/C07.v) are about the hand-written model coq/iso/IsoModel.v and the spec
coq/iso/IsoSpec.v (render_iso / wf_fmt / expected).  This check ties the model to the code:
every rendered string (rendered by the EXTRACTED SPEC) is parsed by the real implementation as
str and as bytes / StringIO / BytesIO, by the extracted model and by the extracted recogniser;
inside the theorem's guard (wf_fmt && valid_dt) the implementation must return exactly
`expected` (that is the property); everywhere the implementation must agree with the model."""
import json
import os
import sys
import time

sys.path.insert(0, os.path.dirname(os.path.abspath(__file__)))
import common as C

C.reexec_under_impl_python()
import iso_common as I

CID = "C07"
VO = ["props/C07.vo", "iso/IsoGenCor.vo"] + I.VO_MODEL
KINDS = ("bytes", "sio", "bio")
MAXV = 25
GRAMMAR_NOTE = [
    "guard of the inverse law = wf_fmt_text (coq/iso/IsoText.v): every date form x time form x fraction digits x any "
    "single ASCII separator byte (or the configured one) x offset form, notation of date / time / offset varying "
    "independently, 'Z' and 'z', negative zero offsets (read as UTC) - minus the OPEN finding",
    "F-C07-ordinal-digit-sep: basic ordinal date YYYYDDD + DIGIT separator + time ('2014123412') is rejected with "
    "ValueError although it has exactly one well-formed reading; theorem C07_isoparse_render_guarded carries exactly "
    "the complement (fmt_ordinal_digit f = false), witness C07_isoparse_render_refuted_ordinal_digit",
    "hour 24 is stated for an all-zero fraction; a non-zero digit beyond microseconds after 24:00:00 is the C20 "
    "finding F-C20-2400-subus",
]
MIN_IN_GUARD = {"quick": 20000, "thorough": 500000}


def _viol(lst, item):
    if len(lst) < MAXV:
        lst.append(item)


def job(arg):
    tag, n = arg
    r = C.rng("C07/" + tag)
    o = C.Oracle(I.AREA)
    out = {"evals": 0, "draws": 0, "in_domain": 0, "hist": {}, "kinds": {}, "entries": {}, "nontrivial": set(),
           "concrete": [], "soft": [], "samples": [], "model_diff": 0, "spec_diff": 0, "kind_diff": 0,
           "pyref_checked": 0, "pyref_diff": 0, "spec_incoherent": 0}
    hist = out["hist"]

    def bump(d, k):
        d[k] = d.get(k, 0) + 1

    # ------------------------------------------------------------ draw
    items = []          # (entry-of-render, req, meta)
    if tag == "boundary":
        # deterministic: calendar / week-year / range boundaries x every complete date form x every time
        # form x {normal, 24:00} x a few offsets
        n = 0
        dates = [(1, 1, 1), (1, 1, 7), (1, 12, 31), (9999, 12, 31), (9999, 12, 30), (9999, 12, 27), (9999, 1, 1),
                 (2000, 2, 29), (1900, 2, 28), (1900, 3, 1), (2100, 2, 28), (2016, 12, 31), (2015, 12, 31),
                 (2016, 1, 3), (2010, 1, 3), (2009, 12, 31), (2008, 12, 29), (2020, 12, 31), (2021, 1, 3),
                 (2004, 12, 31), (2005, 1, 1), (2005, 1, 2), (2014, 1, 1), (2014, 12, 28), (2014, 12, 29)]
        for (y, m, d) in dates:
            for df in range(10):
                for tf in range(7):
                    for e in (20, 21):
                        for off in ((0, 0, 0, 0), (1, 0, 0, 0), (4, 1, 23, 59), (3, 0, 0, 0), (2, 0, 14, 0)):
                            ht = 1 if I.COMPLETE[df] else 0
                            if not ht and (tf or e == 21 or off[0]):
                                continue
                            k = 7 if tf >= 5 else 0
                            fmt = (None, df, ht, tf, (y + tf) % 2, k, 84, [0] if k else [])
                            dt = (y, m, d, 23, 59, 59, 999999)
                            items.append(("iso", I.render_req(e, fmt, dt, off),
                                          {"fmt": fmt, "dt": dt, "off": off, "e": e}))
        # the open finding F-C07-ordinal-digit-sep, deterministically: YYYYDDD + every digit as separator + every
        # time form (inside the guard of the property text; reported as KNOWN-FINDING)
        for (y, m, d) in dates[:8]:
            for tf in range(7):
                for sepd in range(48, 58):
                    k = 3 if tf >= 5 else 0
                    fmt = (None, 9, 1, tf, 0, k, sepd, [])
                    dt = (y, m, d, 12, 30, 45, 123000)
                    items.append(("iso", I.render_req(20, fmt, dt, (0, 0, 0, 0)),
                                  {"fmt": fmt, "dt": dt, "off": (0, 0, 0, 0), "e": 20}))
    for i in range(n):
        bad = r.random() < 0.12
        u = r.random()
        if u < 0.70:     # full isoparse rendering (entry 20 / 21)
            fmt = I.draw_fmt(r, bad and r.random() < 0.4)
            y, m, d = I.draw_date(r, bad and r.random() < 0.4)
            h, mi, s, us = I.draw_time(r, bad and r.random() < 0.4)
            off = I.draw_off(r, bad and r.random() < 0.4)
            if not fmt[2] and r.random() < 0.97:
                off = (0, 0, 0, 0)
            e = 21 if (fmt[2] and r.random() < 0.08) else 20
            if e == 21 and fmt[7] and r.random() < 0.8:
                fmt = fmt[:7] + ([0] * len(fmt[7]),)
            items.append(("iso", I.render_req(e, fmt, (y, m, d, h, mi, s, us), off),
                          {"fmt": fmt, "dt": (y, m, d, h, mi, s, us), "off": off, "e": e}))
        elif u < 0.82:   # date only (entry 22)
            df = r.randrange(10)
            y, m, d = I.draw_date(r, bad)
            items.append(("date", (22, [df, y, m, d]), {"df": df, "ymd": (y, m, d)}))
        elif u < 0.94:   # time only (entry 23)
            fmt = I.draw_fmt(r, False)
            tf, comma, k, extra = fmt[3], fmt[4], fmt[5], fmt[7]
            h, mi, s, us = I.draw_time(r, bad and r.random() < 0.5)
            off = I.draw_off(r, bad and r.random() < 0.5)
            if r.random() < 0.1:
                h, mi, s, us = 24, 0, 0, 0
                if r.random() < 0.8:
                    extra = [0] * len(extra)
            items.append(("time", (23, [tf, comma, k] + list(off) + [h, mi, s, us] + list(extra)),
                          {"tf": tf, "k": k, "off": off, "hms": (h, mi, s, us), "extra": extra}))
        else:            # offset only (entry 24)
            off = I.draw_off(r, bad)
            items.append(("tz", (24, list(off)), {"off": off, "zutc": r.random() < 0.7}))
    rend = o.call_many([it[1] for it in items])

    # ------------------------------------------------------------ cases
    cases, info = [], []
    for idx, ((what, req, meta), res) in enumerate(zip(items, rend)):
        kind2 = KINDS[idx % 3]
        if what == "iso":
            wf, valid, codes, exp = I.split_render(res)
            dom = wf and valid
            sep = meta["fmt"][0]
            lab = I.fmt_label(meta["fmt"], meta["off"], meta["e"] == 21)
            base = (0, sep, "str", codes, True)
        elif what == "date":
            valid, nn = bool(res[0]), res[1]
            codes, exp = tuple(res[2:2 + nn]), res[2 + nn:]
            dom = valid
            lab = "date:" + I.DFORMS[meta["df"]]
            base = (1, None, "str", codes, True)
            if valid:
                out["pyref_checked"] += 1
                ref = I.py_reference(meta["df"], *meta["ymd"])
                if ref != "".join(map(chr, codes)):
                    out["pyref_diff"] += 1
                    _viol(out["soft"], {"kind": "spec sanity: render_date differs from CPython's own formatting",
                                        "input": {"df": I.DFORMS[meta["df"]], "ymd": meta["ymd"]},
                                        "spec_render": "".join(map(chr, codes)), "cpython": ref})
        elif what == "time":
            wf, valid, nn = bool(res[0]), bool(res[1]), res[2]
            codes, exp = tuple(res[3:3 + nn]), res[3 + nn:]
            dom = wf and valid
            h, mi, s, us = meta["hms"]
            if wf and (h, mi, s, us) == (24, 0, 0, 0) and not any(meta["extra"]):
                dom = True                      # 24:00 is 00:00 for the time-only entry point
                exp = [1, 0] + exp[2:]
            lab = "time:" + I.TFORMS[meta["tf"]] + "|" + I.OFORMS[min(meta["off"][0], 4)]
            base = (2, None, "str", codes, True)
        else:
            wf, nn = bool(res[0]), res[1]
            codes, exp = tuple(res[2:2 + nn]), res[2 + nn:]
            zutc = meta["zutc"]
            dom = wf and zutc
            lab = "tz:" + I.OFORMS[min(meta["off"][0], 4)] + ("" if zutc else "|zero_as_utc=False")
            base = (3, None, "str", codes, zutc)
        if any(c >= 256 for c in codes) or any(c < 0 for c in codes):
            continue
        other = (base[0], base[1], kind2, base[3], base[4])
        cases.append(base)
        cases.append(other)
        info.append((what, dom, exp, lab, meta))
    mres, sres = I.oracle_eval(o, cases[0::2])
    o.close()

    for j, (what, dom, exp, lab, meta) in enumerate(info):
        c1, c2 = cases[2 * j], cases[2 * j + 1]
        r1, r2 = I.impl_call(c1), I.impl_call(c2)
        rm, rs = mres[j], sres[j]
        out["evals"] += 2
        out["draws"] += 1
        bump(hist, lab + ("" if dom else "|outside-guard"))
        bump(out["kinds"], "str")
        bump(out["kinds"], c2[2])
        bump(out["entries"], I.ENTRY_NAMES[c1[0]])
        flagged = False
        if dom:
            out["in_domain"] += 1
            out["nontrivial"].add(I.case_hash(c1))
            if r1 != exp:
                flagged = True
                _viol(out["concrete"], {"kind": "rendering not inverted: implementation differs from `expected` "
                                                "of the specification inside the theorem's guard",
                                        "input": I.case_json(c1), "format": lab, "impl": r1, "spec_expected": exp,
                                        "model": rm})
            if rs != exp:
                out["spec_incoherent"] += 1
                _viol(out["soft"], {"kind": "machinery: spec recogniser iso_denotes disagrees with spec `expected` "
                                            "on a rendered string", "input": I.case_json(c1), "iso_denotes": rs,
                                    "expected": exp})
        if r2 != r1:
            out["kind_diff"] += 1
            if not flagged:
                flagged = True
                _viol(out["concrete"], {"kind": "input types not equivalent: %s and str inputs give different results"
                                                % c2[2], "input": I.case_json(c2), "impl_" + c2[2]: r2, "impl_str": r1})
        if r1 != rm:
            out["model_diff"] += 1
            if not flagged:
                # outside the guard: does the implementation still satisfy the recogniser (C20's side)?
                _viol(out["soft"], {"kind": "correspondence: implementation differs from the extracted model",
                                    "input": I.case_json(c1), "format": lab, "impl": r1, "model": rm, "spec": rs})
        if r1 != rs:
            out["spec_diff"] += 1
        if len(out["samples"]) < 3 and dom and j % 97 == 0:
            out["samples"].append({"input": I.case_json(c1), "format": lab, "impl": r1, "model": rm,
                                   "spec_expected": exp, "other_kind": c2[2], "impl_other_kind": r2})
    out["stream"] = tag
    return out


def datetime_isoformat_sanity(o, n, r):
    """render_iso for YYYY-MM-DDThh:mm:ss[.ffffff][+HH:MM] must be CPython's datetime.isoformat()"""
    import datetime as D
    bad, checked = [], 0
    reqs, refs = [], []
    for _ in range(n):
        y, m, d = I.draw_date(r)
        h, mi, s, us = I.draw_time(r)
        oh, om, neg = r.randint(0, 23), r.randint(0, 59), r.randrange(2)
        if oh == 0 and om == 0:
            neg = 0        # CPython prints a zero offset as +00:00; '-00:00' is a different (valid) spelling
        withoff = r.random() < 0.5
        tzinfo = D.timezone((-1 if neg else 1) * D.timedelta(hours=oh, minutes=om)) if withoff else None
        if us == 0:
            fmt = (None, 2, 1, 3, 0, 0, 84, [])
        else:
            fmt = (None, 2, 1, 5, 0, 6, 84, [])
        off = (4, neg, oh, om) if withoff else (0, 0, 0, 0)
        reqs.append(I.render_req(20, fmt, (y, m, d, h, mi, s, us), off))
        refs.append(D.datetime(y, m, d, h, mi, s, us, tzinfo).isoformat())
    for req, ref, res in zip(reqs, refs, o.call_many(reqs)):
        wf, valid, codes, exp = I.split_render(res)
        checked += 1
        if "".join(map(chr, codes)) != ref:
            bad.append({"spec_render": "".join(map(chr, codes)), "cpython_isoformat": ref})
    return checked, bad


def regressions(o, verdict):
    path = os.path.join(C.VERIF, "corpus", "regressions", CID + ".jsonl")
    n = 0
    if not os.path.exists(path):
        return 0
    for line in open(path):
        line = line.strip()
        if not line or line.startswith("#"):
            continue
        d = json.loads(line)
        case = I.case_from_json(d)
        ri = I.impl_call(case)
        (rm,), (rs,) = I.oracle_eval(o, [case])
        n += 1
        if ri != d["expect"]:
            verdict.violation({"kind": "regression corpus: implementation differs from the recorded expected value",
                               "input": I.case_json(case), "impl": ri, "expect": d["expect"], "model": rm, "spec": rs})
        elif rm != ri:
            verdict.violation({"kind": "regression corpus: model differs from implementation",
                               "input": I.case_json(case), "impl": ri, "model": rm}, concrete=False)
    return n


def replay(path):
    data = json.load(open(path))
    C.ensure_built([I.AREA], I.VO_MODEL)
    inp = data.get("input")
    if isinstance(inp, dict) and "codes" in inp:
        case = I.case_from_json(inp)
        o = C.Oracle(I.AREA)
        (rm,), (rs,) = I.oracle_eval(o, [case])
        o.close()
        print("input      %s(%r) sep=%r kind=%s" % (inp["entry"], inp.get("text"), inp.get("sep"), inp.get("kind")))
        print("impl       ", I.impl_call(case))
        for k in KINDS + ("str",):
            print("impl[%s]" % k, I.impl_call((case[0], case[1], k, case[3], case[4])))
        print("model      ", rm)
        print("spec       ", rs, "(iso_denotes)")
        if "spec_expected" in data:
            print("expected   ", data["spec_expected"], "(spec `expected` of the rendering)")
    else:
        print("replay names a broken obligation / machinery problem, no concrete input:")
        print(json.dumps(data, indent=1)[:3000])
    return 0


def main():
    argv = sys.argv[1:]
    if "--replay" in argv:
        return replay(argv[argv.index("--replay") + 1])
    tier = C.tier_from_argv(argv)
    t0 = time.time()
    verdict = C.Verdict(CID, I.MATCHERS)
    build_err = None
    try:
        C.ensure_built([I.AREA, "cal"], VO + ["base/Cal.vo"])
    except C.BuildError as ex:
        build_err = ex
    if build_err is not None:
        # translator abort (harness/gen_*.py is fail-closed) or forbidden construct: nothing was re-checked
        names = I.theorem_names(CID)
        props = {"obligations": len(names), "discharged": 0, "theorems": names, "assumptions": {},
                 "cmd": "coqc props/C07.v", "log": "%s\n%s" % (build_err.what, build_err.log), "ok": False}
    else:
        props = I.apply_poison(C.compile_props(CID))
    t_build = time.time() - t0        # regenerate + make + coqc props, including the wait for the build lock
    have_oracle = os.path.exists(os.path.join(C.BIN, "oracle_" + I.AREA))
    tot = {"evals": 0, "draws": 0, "in_domain": 0, "hist": {}, "kinds": {}, "entries": {}, "model_diff": 0,
           "spec_diff": 0, "kind_diff": 0, "pyref_checked": 0, "pyref_diff": 0, "spec_incoherent": 0}
    nontrivial, concrete, soft, samples = set(), [], [], []
    n_reg, cov_summary, iso_checked = 0, {"available": False}, 0
    floors, calres = [], None
    try:
      if have_oracle:
          # Cal.isocalendar / ord_of_ymd / ymd_of_ord are shared by model, renderer and weekdate_of: compare them
          # with CPython here as well (quick: sampled chunks + boundaries, thorough: every ordinal)
          # (oracle_cal was built under this check's own build lock above; cal_corr.run must not queue for the
          # lock a second time)
          import cal_corr
          _eb = C.ensure_built
          C.ensure_built = lambda *a, **k: (True, "")
          try:
              calres = cal_corr.run(full=(tier == "thorough"))
          finally:
              C.ensure_built = _eb
          o = C.Oracle(I.AREA)
          n_reg = regressions(o, verdict)
          iso_checked, iso_bad = datetime_isoformat_sanity(o, 2000 if tier == "quick" else 20000, C.rng("C07/isofmt"))
          o.close()
          for b in iso_bad[:3]:
              soft.append(dict(b, kind="spec sanity: render_iso differs from datetime.isoformat()", input=None))
          if tier == "quick":
              nproc, jobs = 4, [("q%d" % i, 5000) for i in range(8)]
          else:
              nproc, jobs = 12, [("t%d" % i, 25000) for i in range(60)]
          # one small shard under coverage.py (in-process), the rest in the pool
          first, cov_summary = I.measure_anchor_coverage(lambda: job(("cov", 1500)))
          results = [first] + I.run_pool(job, [("boundary", 0)] + jobs, nproc)
          for res in results:
              for k in ("evals", "draws", "in_domain", "model_diff", "spec_diff", "kind_diff", "pyref_checked",
                        "pyref_diff", "spec_incoherent"):
                  tot[k] += res[k]
              for k in ("hist", "kinds", "entries"):
                  I.merge_hist(tot[k], res[k])
              nontrivial |= res["nontrivial"]
              floors.append((res.get("stream", "?"), res["evals"], res["in_domain"]))
              concrete += res["concrete"]
              soft += res["soft"]
              samples += res["samples"]
    except Exception as ex:      # oracle / pool failure: the property is not shown to hold in this run
        import traceback
        soft.append({"kind": "machinery failure during the correspondence run: %r" % (ex,), "input": None,
                     "traceback": traceback.format_exc()[-2000:]})
    concrete.sort(key=lambda p: len(p["input"]["codes"]))
    n_real = 0
    for p in concrete:
        if verdict.violation(p, concrete=True):
            n_real += 1
            if n_real >= 5:
                break
    # evaluation floors: a shard that ran empty shows nothing
    for name, ev, dom_n in floors:
        if ev == 0 or dom_n == 0:
            soft.append({"kind": "machinery: shard %r produced %d evaluations / %d draws inside the guard "
                                 "(floor: > 0 each)" % (name, ev, dom_n), "input": None})
    if not floors or tot["in_domain"] < MIN_IN_GUARD[tier]:
        soft.append({"kind": "machinery: only %d draws inside the guard (floor %d): the correspondence did not run"
                             % (tot["in_domain"], MIN_IN_GUARD[tier]), "input": None})
    if calres is None or calres.get("disagreements"):
        soft.append({"kind": "calendar model coq/base/Cal.v differs from CPython datetime (harness/cal_corr.py): "
                             "every week / ordinal theorem is relative to it", "input": None, "cal_corr": calres})
    if not n_real:
        for p in soft[:3]:
            verdict.violation(p, concrete=False)
    if not props["ok"] and not verdict.violations:
        verdict.violation({"kind": I.broken_kind(build_err, props), "theorem_file": "coq/props/C07.v",
                           "theorems": props["theorems"], "discharged": props["discharged"], "input": None,
                           "log_tail": props["log"][-3000:]}, concrete=False)
    rc = verdict.finish()
    partial = [t for t in props["theorems"] if t.endswith("_partial")]
    cov = {
        "evaluations": tot["evals"] + n_reg,
        "distinct_nontrivial": len(nontrivial),
        "rule": "a draw = (date form x time form x fraction digits 1..20 x dot/comma x separator byte x configured "
                "separator x offset form and value x boundary-biased datetime); the EXTRACTED SPEC renders it "
                "(render_iso / render_iso_2400 / render_date / render_time++render_off / render_off) and the "
                "implementation parses it as str and as one of bytes / StringIO / BytesIO (2 evaluations per draw). "
                "non-trivial = inside the guard of the property text (wf_fmt_text && valid_dt ...; the renderings of the open "
                "finding F-C07-ordinal-digit-sep are inside it and are reported as KNOWN-FINDING); distinct = distinct "
                "(entry point, configured separator, string), counted by a 64-bit hash set",
        "exhaustive": False,
        "samples": samples[:10],
        "input_distribution": {"by_format": dict(sorted(tot["hist"].items())), "by_input_kind": tot["kinds"],
                               "by_entry_point": tot["entries"], "draws": tot["draws"],
                               "inside_guard": tot["in_domain"]},
        "model_vs_impl_disagreements": tot["model_diff"],
        "recogniser_vs_impl_disagreements": tot["spec_diff"],
        "input_kind_disagreements": tot["kind_diff"],
        "spec_render_vs_cpython_formatting": {"dates_checked": tot["pyref_checked"], "dates_differ": tot["pyref_diff"],
                                              "isoformat_checked": iso_checked,
                                              "isoformat_differ": len([s for s in soft if "isoformat" in s["kind"]])},
        "spec_recogniser_vs_expected_disagreements": tot["spec_incoherent"],
        "regression_corpus_cases": n_reg,
        "shard_floors": [{"shard": n, "evaluations": e, "inside_guard": d} for n, e, d in floors],
        "calendar_model_vs_cpython": calres,
        "renderings_the_theorems_are_about": GRAMMAR_NOTE,
        "anchor_coverage_of_one_shard": cov_summary,
        "partial_theorems": partial,
        "model_tie": I.model_tie(build_err, props),
        "only_differential_tested": ["tz.UTC / tz.tzoffset object identity (modelled as a tag + seconds)",
                                     "that io.StringIO / io.BytesIO .read() returns the characters written (the "
                                     "model's InStream carries what read() returns)"],
        "known_findings_hit": verdict.known_hits,
    }
    C.write_evidence(CID, tier, t0, props, cov,
                     ["CPython datetime/date/time constructors and date + timedelta modelled by Cal.valid_ymd / "
                      "ord_of_ymd / ymd_of_ord (coq/base/Cal.v), not verified",
                      "model <-> source: harness/gen_iso.py (fail-closed ast translator, accepted subset in its docstring / notes/iso.md) regenerates coq/gen/IsoGen.v from isoparser.py on every run and IsoGenThm.v proves gen_f = model_f; the decorator _takes_ascii is translated too (input kinds str / bytes / stream -> gen_takes_ascii); trusted: the translator, the primitives of coq/iso/IsoGenLib.v (read_in, encode_ascii, py_int, ...), the AST-hash pins of isoparser.__init__, the module tail, the import block and the (unevaluated) arguments of raise ValueError(...); the differential run ties the running bytecode",
                      "regex [\\.,]([0-9]+) modelled by frac_match/span_digits"],
                     len(verdict.violations))
    print("C07 %s: obligations %d/%d, %d evaluations (%d inside guard, %d distinct), model-diff %d, kind-diff %d, "
          "concrete %d, %.1fs (build+proofs incl. lock wait %.0fs)" % (tier, props["discharged"], props["obligations"], cov["evaluations"],
                                   tot["in_domain"], len(nontrivial), tot["model_diff"], tot["kind_diff"],
                                   len(concrete), time.time() - t0, t_build))
    return rc


if __name__ == "__main__":
    sys.exit(main())
