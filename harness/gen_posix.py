#!/usr/bin/env python3
"""Fail-closed translator:  /repo/src/dateutil/tz/_common.py, tz/tz.py  ->  coq/gen/PosixGen.v

Translates, from the Python AST of the current source, the methods listed in METHODS into Gallina
definitions gen_* in the vocabulary of coq/posix/{RDelta,TzParseModel,TzRangeModel,TzLocalModel,
IcalModel}.v.  coq/posix/PosixGenThm.v proves gen_* = the hand model for ALL inputs, so a changed
operator, bound, branch or call in the translated code breaks a C08_gen_* / C17_gen_* obligation.

Representation: naive datetimes and timedeltas are Z (whole seconds, PTime.v); a datetime
parameter is a pair of Coq variables (seconds, fold); methods that can raise return `res T`.

ACCEPTED SUBSET (anything else raises TranslateError: the method is NOT defined in the output, a
TRANSLATE-ERROR comment is written instead, PosixGenThm.v stops compiling at its lemma):
 statements: docstring; `x = e`; `a, b = e` (pair); `x -= e`; `kwargs = {}` / `kwargs["k"] = e` /
   `kwargs["k"] -= e` (a keyword dictionary = one optional variable per key); `if/elif/else` with
   or without `return` inside (variables assigned in non-returning arms are joined);
   `return e`; `raise ValueError(...)`; the argument guards `if not isinstance(dt, datetime): raise
   TypeError`, `if dt.tzinfo is not self: raise ValueError` (dropped: arguments are datetimes of
   this zone); `global` / `from dateutil import ...` (dropped).
 expressions: int / str literals, None, True, False, locals, table attributes (ATTRS), table
   calls (see CALL TABLE in notes/posix.md and `call` below), + - * unary -, comparisons incl.
   chains, `is None` / `is not None` (constant on values the tables type as never None: a datetime
   argument, a bool result -- `dt is None` paths are outside the model), not / and / or with
   short-circuit when the right operand can raise, tuples, `(a, b)[cond]`, `names[cond]`.
"""
import ast
import os
import sys

VERIF = os.path.dirname(os.path.dirname(os.path.abspath(__file__)))
REPO = os.environ.get("VERIF_REPO", "/repo")
OUT = os.path.join(VERIF, "coq", "gen", "PosixGen.v")      # coq/gen/PosixGen.v   (C08: tzrangebase, tzrange, tzstr, tzlocal)
OUT2 = os.path.join(VERIF, "coq", "gen", "IcalGen.v")      # coq/gen/IcalGen.v    (C17: _tzicalvtz, tzical)

KEYWORDS = {"end", "at", "in", "as", "fix", "fun", "let", "match", "return", "then", "else", "if", "with",
            "type", "using", "where", "for", "mod"}


class TranslateError(Exception):
    pass


def cn(n):
    if n.startswith("@"):
        return n[1:].replace(".", "_")
    return n + "_" if n in KEYWORDS else n


def lit(n):
    return str(n) if n >= 0 else "(%d)" % n


def zs(s):
    return "[" + "; ".join(str(ord(c)) for c in s) + "]"


class V(object):
    """a translated expression: Coq term(s), type tag, purity (impure terms have type `res T`)"""

    def __init__(self, term, ty, pure=True, fold=None):
        self.term, self.ty, self.pure, self.fold = term, ty, pure, fold


COQTY = {"Z": "Z", "B": "bool", "OTR": "option (Z * Z)", "TR": "(Z * Z)", "ONAME": "option (list Z)",
         "CHARS": "list Z", "OZ": "option Z", "COMP": "comp", "DTF": "(Z * bool)", "RD": "rdelta",
         "ATTR": "tzattr", "DELTA": "delta", "OWD": "option (Z * Z)", "DARG": "darg", "ZONE": "zone",
         "ODT": "option Z", "OCOMP": "option comp"}
LOCAL_HINTS = {"lastcompdt": "ODT", "lastcomp": "OCOMP"}

# attributes an __init__ writes on self -> (type, field of the zone record or None when not stored in it)
SLOTS = {"_std_abbr": "ONAME", "_dst_abbr": "ONAME", "_std_offset": "Z", "_dst_offset": "Z",
         "_start_delta": "DELTA", "_end_delta": "DELTA", "hasdst": "B", "_dst_base_offset_": "Z", "_s": "CHARS"}
ZONE_FIELDS = ["_std_abbr", "_dst_abbr", "_std_offset", "_dst_offset", "_start_delta", "_end_delta", "hasdst"]
ZONE_GET = {"_std_abbr": "z_std_abbr", "_dst_abbr": "z_dst_abbr", "_std_offset": "z_std_off",
            "_dst_offset": "z_dst_off", "_start_delta": "z_start", "_end_delta": "z_end", "hasdst": "z_hasdst"}
RES_ATTRS = {"stdabbr": ("r_stdabbr", "ONAME"), "stdoffset": ("r_stdoffset", "OZ"), "dstabbr": ("r_dstabbr", "ONAME"),
             "dstoffset": ("r_dstoffset", "OZ"), "start": ("r_start", "ATTR"), "end": ("r_end", "ATTR"),
             "any_unused_tokens": ("r_unused", "B")}

SELF = {
    "zone": dict(binder="(z : zone)", args="z", attrs={
        "_std_offset": ("(z_std_off z)", "Z"), "_dst_offset": ("(z_dst_off z)", "Z"),
        "_std_abbr": ("(z_std_abbr z)", "ONAME"), "_dst_abbr": ("(z_dst_abbr z)", "ONAME"),
        "hasdst": ("(z_hasdst z)", "B"), "_dst_base_offset": ("(gen_dst_base_offset z)", "Z"),
        "_start_delta": ("(z_start z)", "DELTA"), "_end_delta": ("(z_end z)", "DELTA")}),
    "offsets": dict(binder="(std_off dst_off : Z)", args="std_off dst_off", attrs={
        "_std_offset": ("std_off", "Z"), "_dst_offset": ("dst_off", "Z")}),
    "local": dict(binder="(libc : Z -> bool) (std alt : Z) (daylight : bool) (sn dn : list Z)",
                  args="libc std alt daylight sn dn", attrs={
        "_hasdst": ("(l_hasdst std alt daylight)", "B"), "_std_offset": ("std", "Z"),
        "_dst_offset": ("(l_dst_off std alt daylight)", "Z"),
        "_dst_saved": ("(l_dst_saved std alt daylight)", "Z"), "_tznames": ("", "NAMES")}),
    "ical": dict(binder="(cs : list comp)", args="cs", attrs={}),
    "init": dict(binder="", args="", attrs={}),
}

COMP_ATTRS = {"tzoffsetto": ("c_to", "Z"), "tzoffsetfrom": ("c_from", "Z"), "tzoffsetdiff": ("c_diff", "Z"),
              "isdst": ("c_isdst", "B"), "tzname": ("c_name", "ONAME"), "rrule": ("c_onsets", "RRULE")}
ATTR_ATTRS = {k: ("x_" + k, "OZ") for k in ("month", "week", "weekday", "yday", "jyday", "day", "time")}
KW_KEYS = ["month", "day", "weekday", "yearday", "nlyearday", "seconds"]
KW_TY = {"month": "OZ", "day": "OZ", "weekday": "OWD", "yearday": "OZ", "nlyearday": "OZ", "seconds": "Z"}

METHODS = [
    # (file, class, method, coq name, self kind, [(param, type)], return type)
    ("tz/_common.py", "tzrangebase", "_dst_base_offset", "gen_dst_base_offset", "zone", [], "Z"),
    ("tz/_common.py", "tzrangebase", "_naive_isdst", "gen_naive_isdst", None, [("dt", "DT"), ("transitions", "TR")], "B"),
    ("tz/tz.py", "tzrange", "transitions", "gen_transitions", "zone", [("year", "Z")], "OTR"),
    ("tz/_common.py", "tzrangebase", "is_ambiguous", "gen_is_ambiguous", "zone", [("dt", "DT")], "B"),
    ("tz/_common.py", "tzrangebase", "_isdst", "gen_isdst", "zone", [("dt", "DTF")], "B"),
    ("tz/_common.py", "tzrangebase", "utcoffset", "gen_utcoffset", "zone", [("dt", "DTF")], "Z"),
    ("tz/_common.py", "tzrangebase", "dst", "gen_dst", "zone", [("dt", "DTF")], "Z"),
    ("tz/_common.py", "tzrangebase", "tzname", "gen_tzname", "zone", [("dt", "DTF")], "ONAME"),
    ("tz/_common.py", "tzrangebase", "fromutc", "gen_fromutc", "zone", [("dt", "DTU")], "DTF"),
    ("tz/tz.py", "tzstr", "_delta", "gen_tzstr_delta", "offsets", [("x", "ATTR"), ("isend", "B")], "RD"),
    ("tz/tz.py", "tzrange", "__init__", "gen_tzrange_init", "init",
     [("stdabbr", "ONAME"), ("stdoffset", "OZ"), ("dstabbr", "ONAME"), ("dstoffset", "OZ"), ("start", "DARG"),
      ("end", "DARG")], "ZONE"),
    ("tz/tz.py", "tzstr", "__init__", "gen_tzstr_init", "init", [("s", "CHARS"), ("posix_offset", "B")], "ZONE"),
    ("tz/tz.py", "tzlocal", "_naive_is_dst", "gen_l_naive_is_dst", "local", [("dt", "DT")], "B"),
    ("tz/tz.py", "tzlocal", "is_ambiguous", "gen_l_is_ambiguous", "local", [("dt", "DT")], "B"),
    ("tz/tz.py", "tzlocal", "_isdst", "gen_l_isdst", "local", [("dt", "DTF")], "B"),
    ("tz/tz.py", "tzlocal", "utcoffset", "gen_l_utcoffset", "local", [("dt", "DTF")], "Z"),
    ("tz/tz.py", "tzlocal", "dst", "gen_l_dst", "local", [("dt", "DTF")], "Z"),
    ("tz/tz.py", "tzlocal", "tzname", "gen_l_tzname", "local", [("dt", "DTF")], "CHARS"),
    ("tz/tz.py", "tzical", "_parse_offset", "gen_parse_offset", None, [("s", "CHARS")], "Z"),
    ("tz/tz.py", "_tzicalvtz", "_find_compdt", "gen_find_compdt", "ical", [("comp", "COMP"), ("dt", "DTF")], "OZ"),
    ("tz/tz.py", "_tzicalvtz", "_find_comp", "gen_select_comp", "ical", [("dt", "DTF")], "COMP"),
    ("tz/tz.py", "_tzicalvtz", "utcoffset", "gen_ic_utcoffset", "ical", [("dt", "DTF")], "Z"),
    ("tz/tz.py", "_tzicalvtz", "dst", "gen_ic_dst", "ical", [("dt", "DTF")], "Z"),
    ("tz/tz.py", "_tzicalvtz", "tzname", "gen_ic_tzname", "ical", [("dt", "DTF")], "ONAME"),
]

# methods of self callable from translated code: name -> (coq format, arg kinds, result type, pure?)
SELF_CALLS = {
    "zone": {"transitions": ("gen_transitions z %s", ["Z"], "OTR", False),
             "_isdst": ("gen_isdst z %s %s", ["DTF"], "B", False),
             "is_ambiguous": ("gen_is_ambiguous z %s", ["DT"], "B", False),
             "_naive_isdst": ("gen_naive_isdst %s %s", ["DT", "TR"], "B", True),
             "utcoffset": ("gen_utcoffset z %s %s", ["DTF"], "Z", False)},
    "local": {"_naive_is_dst": ("gen_l_naive_is_dst libc std alt daylight sn dn %s", ["DT"], "B", True),
              "is_ambiguous": ("gen_l_is_ambiguous libc std alt daylight sn dn %s", ["DT"], "B", True),
              "_isdst": ("gen_l_isdst libc std alt daylight sn dn %s %s", ["DTF"], "B", True)},
    "ical": {"_find_comp": ("comp_at cs %s %s", ["DTF"], "COMP", False),
             "_find_compdt": ("gen_find_compdt cs %s %s %s", ["COMP", "DTF"], "ODT", True)},
    "offsets": {},
    "init": {},
}


class Tr(object):
    def __init__(self, spec):
        (self.file, self.cls, self.name, self.coq, self.kind, self.params, self.ret_spec) = spec
        self.kw_seen = []

    # ---------------------------------------------------------------- expressions
    def lift(self, v):
        return v.term if not v.pure else "(Ok %s)" % v.term

    def bind(self, vals, build):
        """evaluate vals left to right (binding the impure ones), then build(terms) -> V"""
        names, wraps = [], []
        for i, v in enumerate(vals):
            if v.pure:
                names.append(v.term)
            else:
                t = "t%d_" % (len(self.tmp))
                self.tmp.append(t)
                names.append(t)
                wraps.append((t, v.term))
        out = build(names)
        if not wraps:
            return out
        term = self.lift(out)
        for (t, e) in reversed(wraps):
            term = "(rbind %s (fun %s => %s))" % (e, t, term)
        return V(term, out.ty, False, out.fold)

    def truth(self, v):
        if v.ty == "B":
            return v
        if v.ty == "OZ":
            return V("(truthy_oz %s)" % v.term, "B", v.pure)
        if v.ty == "ONAME":
            return V("(truthy_str %s)" % v.term, "B", v.pure)
        if v.ty == "KWARGS":
            if not self.kw_seen:
                return V("false", "B")
            return V("(negb (%s))" % " && ".join("is_none kw_%s" % k for k in self.kw_seen), "B")
        if v.ty == "CHARS":
            return V("(negb (match %s with [] => true | _ => false end))" % v.term, "B", v.pure)
        if v.ty in ("ODT", "OCOMP") and v.pure:        # datetimes and component objects are always truthy
            return V("(negb (is_none %s))" % v.term, "B")
        if v.ty == "DELTA" and v.pure:
            return V("(delta_bool %s)" % v.term, "B")
        raise TranslateError("truth value of type %s" % v.ty)

    def expr(self, e, env):
        if isinstance(e, ast.Constant):
            if e.value is None:
                return V("None", "NONE")
            if e.value is True or e.value is False:
                return V("true" if e.value else "false", "B")
            if isinstance(e.value, int):
                return V(lit(e.value), "Z")
            if isinstance(e.value, str):
                return V(zs(e.value), "CHARS")
            raise TranslateError("constant %r" % (e.value,))
        if isinstance(e, ast.Name):
            if e.id in env:
                return env[e.id]
            if e.id == "ZERO":
                return V("0", "Z")
            raise TranslateError("unknown name %s" % e.id)
        if isinstance(e, ast.Tuple):
            vs = [self.expr(x, env) for x in e.elts]
            if len(vs) == 2 and all(v.ty in ("Z", "DT") for v in vs):
                out = self.bind(vs, lambda t: V("(%s, %s)" % (t[0], t[1]), "TR"))
                if all(v.pure for v in vs):
                    out.parts = [v.term for v in vs]
                return out
            if all(v.ty in ("Z", "CHARS") and v.pure for v in vs):
                return V([v.term for v in vs], "TUP_" + vs[0].ty)
            raise TranslateError("tuple of %s" % [v.ty for v in vs])
        if isinstance(e, ast.Attribute):
            return self.attribute(e, env)
        if isinstance(e, ast.Call):
            return self.call(e, env)
        if isinstance(e, ast.UnaryOp):
            v = self.expr(e.operand, env)
            if isinstance(e.op, ast.Not):
                b = self.truth(v)
                return V("(negb %s)" % b.term, "B", True) if b.pure else \
                    self.bind([b], lambda t: V("(negb %s)" % t[0], "B"))
            if isinstance(e.op, (ast.USub, ast.UAdd)) and v.ty == "Z" and v.pure:
                return V("(- %s)" % v.term if isinstance(e.op, ast.USub) else v.term, "Z")
            raise TranslateError("unary operator")
        if isinstance(e, ast.BinOp):
            # timedelta total:  td.seconds + td.days * 86400
            if (isinstance(e.op, ast.Add) and isinstance(e.left, ast.Attribute) and e.left.attr == "seconds"
                    and isinstance(e.right, ast.BinOp) and isinstance(e.right.op, ast.Mult)
                    and isinstance(e.right.left, ast.Attribute) and e.right.left.attr == "days"
                    and isinstance(e.right.right, ast.Constant) and e.right.right.value == 86400
                    and ast.dump(e.left.value) == ast.dump(e.right.left.value)):
                v = self.expr(e.left.value, env)
                if v.ty == "Z":
                    return v
            a, b = self.expr(e.left, env), self.expr(e.right, env)
            op = {ast.Add: "+", ast.Sub: "-", ast.Mult: "*"}.get(type(e.op))
            if op is None:
                raise TranslateError("binary operator %s" % type(e.op).__name__)
            if a.ty == "JAN1" and b.ty == "DELTA" and op == "+":
                return V("(add_delta %s %s)" % (b.term, a.term), "Z", False)
            if a.ty in ("Z", "DT", "DTF") and b.ty in ("Z", "DT", "DTF"):
                ty = "DT" if (a.ty != "Z" or b.ty != "Z") and op != "*" else "Z"
                return self.bind([a, b], lambda t: V("(%s %s %s)" % (t[0], op, t[1]), ty, True,
                                                     "false" if ty == "DT" else None))
            raise TranslateError("operands %s %s" % (a.ty, b.ty))
        if isinstance(e, ast.Compare):
            return self.compare(e, env)
        if isinstance(e, ast.BoolOp):
            first = e.values[0]
            restv = e.values[1:]
            rest_e = restv[0] if len(restv) == 1 else ast.BoolOp(op=e.op, values=restv)
            nm = None
            if isinstance(e.op, ast.And) and isinstance(first, ast.Name):
                nm, some_goes_on = first.id, True
            elif isinstance(e.op, ast.Or) and isinstance(first, ast.UnaryOp) and isinstance(first.op, ast.Not) \
                    and isinstance(first.operand, ast.Name):
                nm, some_goes_on = first.operand.id, True
            if nm is not None and nm in env and env[nm].ty in ("ODT", "OCOMP") and env[nm].pure:
                # `X and R`: R is evaluated with X not None;  `not X or R`: likewise
                fresh = "s%d_" % len(self.tmp)
                self.tmp.append(fresh)
                env2 = dict(env)
                env2[nm] = V(fresh, "DT" if env[nm].ty == "ODT" else "COMP", True, None)
                r = self.truth(self.expr(rest_e, env2))
                if not r.pure:
                    raise TranslateError("impure operand under a narrowed optional")
                none_val = "false" if isinstance(e.op, ast.And) else "true"
                return V("(match %s with Some %s => %s | None => %s end)" % (env[nm].term, fresh, r.term, none_val), "B")
            vs = [self.truth(self.expr(x, env)) for x in e.values]
            is_and = isinstance(e.op, ast.And)
            out = vs[-1]
            for v in reversed(vs[:-1]):
                if v.pure and v.term in ("true", "false"):          # constant operand
                    if (v.term == "true") == is_and:
                        continue
                    out = v
                    continue
                if v.pure and out.pure:
                    out = V("(%s %s %s)" % (v.term, "&&" if is_and else "||", out.term), "B")
                elif v.pure:
                    out = V("(if %s then %s else %s)" % ((v.term, out.term, "Ok false") if is_and else
                                                         (v.term, "Ok true", out.term)), "B", False)
                else:
                    t = "t%d_" % len(self.tmp)
                    self.tmp.append(t)
                    rhs = self.lift(out)
                    out = V("(rbind %s (fun %s => if %s then %s else %s))" % (
                        (v.term, t, t, rhs, "Ok false") if is_and else (v.term, t, t, "Ok true", rhs)), "B", False)
            return out
        if isinstance(e, ast.Subscript) and isinstance(e.slice, ast.Slice):
            base = self.expr(e.value, env)
            lo, hi = e.slice.lower, e.slice.upper
            if base.ty != "CHARS" or not base.pure or e.slice.step is not None or \
                    any(x is not None and not (isinstance(x, ast.Constant) and isinstance(x.value, int) and x.value >= 0)
                        for x in (lo, hi)):
                raise TranslateError("slice %s" % ast.unparse(e))
            a = lo.value if lo is not None else 0
            t = base.term if a == 0 else "(skipn %d %s)" % (a, base.term)
            if hi is not None:
                t = "(firstn %d %s)" % (hi.value - a, t)
            return V(t, "CHARS")
        if isinstance(e, ast.Subscript) and ast.unparse(e.value) == "self._comps" and self.kind == "ical" \
                and isinstance(e.slice, ast.Constant) and e.slice.value == 0:
            return V("(match nth_error cs 0 with Some c_ => Ok c_ | None => Err 3 end)", "COMP", False)
        if isinstance(e, ast.Subscript):
            base = self.expr(e.value, env)
            if base.ty == "CHARS" and base.pure and isinstance(e.slice, ast.Constant) and e.slice.value == 0:
                return V("(hd 0 %s)" % base.term, "CH")
            idx = self.expr(e.slice, env)
            if base.ty == "NAMES" and idx.ty == "B":
                return self.bind([idx], lambda t: V("(if %s then dn else sn)" % t[0], "CHARS"))
            if base.ty == "TR" and idx.ty == "B" and getattr(base, "parts", None):
                return self.bind([idx], lambda t: V("(if %s then %s else %s)" % (t[0], base.parts[1], base.parts[0]), "Z"))
            if base.ty.startswith("TUP_") and idx.ty == "B" and len(base.term) == 2:
                return self.bind([idx], lambda t: V("(if %s then %s else %s)" % (t[0], base.term[1], base.term[0]),
                                                    base.ty[4:]))
            raise TranslateError("subscript %s[%s]" % (base.ty, idx.ty))
        raise TranslateError("expression %s" % type(e).__name__)

    def attribute(self, e, env):
        key = "@" + ast.unparse(e)
        if key in env:
            return env[key]
        if isinstance(e.value, ast.Name) and e.value.id == "self":
            a = SELF[self.kind]["attrs"].get(e.attr)
            if a is None:
                raise TranslateError("self.%s" % e.attr)
            return V(a[0], a[1])
        if isinstance(e.value, ast.Name) and e.value.id == "time" and e.attr == "timezone" and self.kind == "local":
            return V("(- std)", "Z")
        base = self.expr(e.value, env)
        if base.ty in ("DT", "DTF") and e.attr == "year":
            return self.bind([base], lambda t: V("(year_of_secs %s)" % t[0], "Z"))
        if base.ty == "COMP" and e.attr in COMP_ATTRS:
            f, ty = COMP_ATTRS[e.attr]
            return self.bind([base], lambda t: V("(%s %s)" % (f, t[0]), ty))
        if base.ty == "ATTR" and e.attr in ATTR_ATTRS:
            f, ty = ATTR_ATTRS[e.attr]
            return V("(%s %s)" % (f, base.term), ty)
        if base.ty == "TZRES" and e.attr in RES_ATTRS:
            f, ty = RES_ATTRS[e.attr]
            return V("(%s %s)" % (f, base.term), ty)
        if base.ty == "TM" and e.attr == "tm_isdst":
            return V(base.term, "B", base.pure)
        raise TranslateError("attribute .%s of %s" % (e.attr, base.ty))

    def dt_args(self, v, kind):
        """Coq arguments for a datetime passed to a callee wanting `kind`"""
        if v.ty not in ("DT", "DTF"):
            raise TranslateError("datetime argument expected, got %s" % v.ty)
        if kind == "DT":
            return [v.term]
        if v.fold is None:
            raise TranslateError("fold of this datetime is not known")
        return [v.term, v.fold]

    def call(self, e, env):
        f = e.func
        kw = {k.arg: k.value for k in e.keywords}
        # self.method(...)
        if isinstance(f, ast.Attribute) and isinstance(f.value, ast.Name) and f.value.id == "self":
            if f.attr == "_fold" and len(e.args) == 1:
                v = self.expr(e.args[0], env)
                if v.ty in ("DT", "DTF") and v.fold is not None:
                    return V(v.fold, "B")
                raise TranslateError("self._fold of %s" % v.ty)
            if self.kind == "init" and f.attr == "_delta" and len(e.args) == 1 and set(kw) <= {"isend"}:
                x = self.expr(e.args[0], env)
                so, do = env.get("@self._std_offset"), env.get("@self._dst_offset")
                isend = "false"
                if "isend" in kw:
                    if not (isinstance(kw["isend"], ast.Constant) and kw["isend"].value in (0, 1)):
                        raise TranslateError("isend argument")
                    isend = "true" if kw["isend"].value else "false"
                if x.ty == "ATTR" and so is not None and do is not None:
                    return V("(rbind (gen_tzstr_delta %s %s %s %s) (fun r_ => Ok (DRd r_)))" % (
                        so.term, do.term, x.term, isend), "DELTA", False)
                raise TranslateError("self._delta call")
            sc = SELF_CALLS.get(self.kind, {}).get(f.attr)
            if sc is None or kw or len(e.args) != len(sc[1]):
                raise TranslateError("call self.%s" % f.attr)
            vals = [self.expr(a, env) for a in e.args]
            for v, kind in zip(vals, sc[1]):
                if kind in ("DT", "DTF"):
                    self.dt_args(v, kind)
                elif v.ty != kind:
                    raise TranslateError("argument of self.%s: %s, expected %s" % (f.attr, v.ty, kind))

            def build(ts, vals=vals, sc=sc):
                args = []
                for t, v, kind in zip(ts, vals, sc[1]):
                    args += [t, v.fold] if kind == "DTF" else [t]
                return V("(" + sc[0] % tuple(args) + ")", sc[2], sc[3], None)
            out = self.bind(vals, build)
            return out
        # dt.replace(tzinfo=None)
        if isinstance(f, ast.Attribute) and f.attr == "replace" and not e.args and list(kw) == ["tzinfo"] \
                and isinstance(kw["tzinfo"], ast.Constant) and kw["tzinfo"].value is None:
            v = self.expr(f.value, env)
            if v.ty in ("DT", "DTF"):
                return v
        # comp.rrule.before(dt, inc=True)
        if isinstance(f, ast.Attribute) and f.attr == "before" and len(e.args) == 1 and list(kw) == ["inc"] \
                and isinstance(kw["inc"], ast.Constant) and kw["inc"].value is True:
            r = self.expr(f.value, env)
            d = self.expr(e.args[0], env)
            if r.ty == "RRULE" and d.ty in ("DT", "DTF") and r.pure and d.pure:
                return V("(before_inc %s %s None)" % (r.term, d.term), "OZ")
        # s.strip()
        if isinstance(f, ast.Attribute) and f.attr == "strip" and not e.args and not kw:
            v = self.expr(f.value, env)
            if v.ty == "CHARS" and v.pure:
                return V("(strip %s)" % v.term, "CHARS")
        dotted = ast.unparse(f)
        if dotted == "bool" and len(e.args) == 1 and not kw:
            return self.truth(self.expr(e.args[0], env))
        if dotted == "parser._parsetz" and len(e.args) == 1 and not kw:
            v = self.expr(e.args[0], env)
            if v.ty == "CHARS" and v.pure:
                return V("(tzparse %s)" % v.term, "OTZRES", False)
        if dotted == "datetime.timedelta" and not e.args and len(kw) == 1:
            (k_, val), = kw.items()
            v = self.expr(val, env)
            if v.ty == "Z" and v.pure and k_ in ("seconds", "hours"):
                return V(v.term if k_ == "seconds" else "(%s * 3600)" % v.term, "Z")
        if dotted == "relativedelta.relativedelta" and not e.args and set(kw) == {"hours", "month", "day", "weekday"}:
            vs = {k_: self.expr(x, env) for k_, x in kw.items()}
            if all(vs[k_].ty == "Z" and vs[k_].pure for k_ in ("hours", "month", "day")) and vs["weekday"].ty == "OWD":
                return V("(rbind (rd_mk (mkArgs 0 %s 0 0 (Some %s) (Some %s) %s None None)) (fun r_ => Ok (DRd r_)))" % (
                    vs["hours"].term, vs["month"].term, vs["day"].term, vs["weekday"].term), "DELTA", False)
        if dotted == "len" and len(e.args) == 1 and not kw:
            v = self.expr(e.args[0], env)
            if v.ty == "CHARS" and v.pure:
                return V("(length %s)" % v.term, "LEN")
        if dotted == "int" and len(e.args) == 1 and not kw:
            v = self.expr(e.args[0], env)
            if v.ty == "B":
                return v
            if v.ty == "CHARS" and v.pure:       # int() of text: ValueError unless [sign] digits
                return V("(match py_int_simple %s with Some v_ => Ok v_ | None => Err EValue end)" % v.term,
                         "Z", False)
        if dotted == "datetime.datetime" and len(e.args) == 3 and not kw and \
                all(isinstance(a, ast.Constant) and a.value == 1 for a in e.args[1:]):
            y = self.expr(e.args[0], env)
            if y.ty == "Z" and y.pure:
                return V(y.term, "JAN1")
        if dotted == "enfold" and len(e.args) == 1 and list(kw) == ["fold"]:
            d, b = self.expr(e.args[0], env), self.expr(kw["fold"], env)
            if d.ty in ("DT", "DTF") and b.ty == "B":
                return self.bind([d, b], lambda t: V(t[0], "DTF", True, t[1]))
        if dotted == "_datetime_to_timestamp" and len(e.args) == 1 and not kw:
            v = self.expr(e.args[0], env)
            if v.ty in ("DT", "DTF"):
                return V(v.term, "Z", v.pure)
        if dotted == "time.localtime" and len(e.args) == 1 and not kw and self.kind == "local":
            v = self.expr(e.args[0], env)
            if v.ty == "Z" and v.pure:
                return V("(libc %s)" % v.term, "TM")
        if dotted == "getattr" and len(e.args) == 3 and isinstance(e.args[1], ast.Constant) \
                and e.args[1].value == "fold":
            v = self.expr(e.args[0], env)
            if v.ty == "DTF":
                return V(v.fold, "SOMEB")              # every datetime has a fold attribute: never None
        if dotted == "relativedelta.weekday" and len(e.args) == 2 and not kw:
            a, b = self.expr(e.args[0], env), self.expr(e.args[1], env)
            if a.ty == "Z" and b.ty == "OZ":
                return V("(Some (%s, some_or %s 0))" % (a.term, b.term), "OWD")
        if dotted in ("relativedelta.SU",) and len(e.args) == 1 and not kw:
            n = self.expr(e.args[0], env)
            if n.ty == "Z" and n.pure:
                return V("(Some (6, %s))" % n.term, "OWD")
        if dotted == "relativedelta.relativedelta" and not e.args and len(e.keywords) == 1 and e.keywords[0].arg is None:
            d = self.expr(e.keywords[0].value, env)
            if d.ty == "KWARGS":
                g = lambda k, dflt: ("kw_" + k) if k in self.kw_seen else dflt
                return V("(rd_mk (mkArgs 0 0 0 %s %s %s %s %s %s))" % (
                    g("seconds", "0"), g("month", "None"), g("day", "None"), g("weekday", "None"),
                    g("yearday", "None"), g("nlyearday", "None")), "RD", False)
        raise TranslateError("call %s" % dotted)

    def compare(self, e, env):
        ops, vals = e.ops, [self.expr(e.left, env)] + [self.expr(c, env) for c in e.comparators]
        if len(ops) == 1 and isinstance(ops[0], (ast.Is, ast.IsNot)):
            a, b = vals
            if b.ty != "NONE":
                raise TranslateError("is / is not with a non-None operand")
            neg = isinstance(ops[0], ast.IsNot)
            if a.ty in ("DT", "DTF", "B", "SOMEB", "Z"):      # typed as never None
                return V("true" if neg else "false", "B")
            if a.ty == "DARG":
                return V("(negb (darg_is_none %s))" % a.term if neg else "(darg_is_none %s)" % a.term, "B")
            if a.ty in ("OZ", "OTR", "ONAME", "OWD", "OTZRES"):
                t = "(is_none %s)" % a.term
                return self.bind([a], lambda ts: V("(negb (is_none %s))" % ts[0] if neg else "(is_none %s)" % ts[0], "B"))
            raise TranslateError("is None on %s" % a.ty)
        if len(ops) == 1 and isinstance(ops[0], (ast.In, ast.Eq)) and vals[0].ty == "CH":
            a, b = vals
            opts = b.term if b.ty == "TUP_CHARS" else [b.term] if b.ty == "CHARS" else None
            if opts is None or (isinstance(ops[0], ast.Eq) and b.ty != "CHARS"):
                raise TranslateError("character comparison with %s" % b.ty)
            codes = []
            for o_ in opts:
                inner = o_.strip("[]")
                if ";" in inner or not inner:
                    raise TranslateError("character compared with a string of length != 1")
                codes.append(inner)
            return V("(" + " || ".join("(%s =? %s)" % (a.term, c_) for c_ in codes) + ")", "B")
        if len(ops) == 1 and isinstance(ops[0], ast.In) and vals[0].ty == "ONAME" and vals[1].ty == "TUP_CHARS":
            a, b = vals
            return V("(match %s with Some a_ => %s | None => false end)" % (
                a.term, " || ".join("list_eqb a_ %s" % o_ for o_ in b.term)), "B")
        if len(ops) == 1 and isinstance(ops[0], ast.Eq) and vals[0].ty == "LEN" and vals[1].ty == "Z":
            return V("(Nat.eqb %s %s)" % (vals[0].term, vals[1].term), "B")
        sym = {ast.Lt: "<?", ast.LtE: "<=?", ast.Eq: "=?"}
        parts = []

        def one(op, a, b):
            if a.ty == "OZ" and b.ty == "Z":
                a = V("(some_or %s 0)" % a.term, "Z", a.pure)
            if a.ty == "B" and b.ty == "B" and isinstance(op, (ast.NotEq, ast.Eq)):
                t = "(Bool.eqb %s %s)" % (a.term, b.term)
                return "(negb %s)" % t if isinstance(op, ast.NotEq) else t
            if not (a.ty in ("Z", "DT", "DTF") and b.ty in ("Z", "DT", "DTF")):
                raise TranslateError("comparison of %s and %s" % (a.ty, b.ty))
            if isinstance(op, ast.Gt):
                return "(%s <? %s)" % (b.term, a.term)
            if isinstance(op, ast.GtE):
                return "(%s <=? %s)" % (b.term, a.term)
            if isinstance(op, ast.NotEq):
                return "(negb (%s =? %s))" % (a.term, b.term)
            if type(op) in sym:
                return "(%s %s %s)" % (a.term, sym[type(op)], b.term)
            raise TranslateError("comparison operator %s" % type(op).__name__)
        if not all(v.pure for v in vals):
            def build(ts):
                vv = [V(t, v.ty, True, v.fold) for t, v in zip(ts, vals)]
                return V("(" + " && ".join(one(op, vv[i], vv[i + 1]) for i, op in enumerate(ops)) + ")", "B")
            return self.bind(vals, build)
        return V("(" + " && ".join(one(op, vals[i], vals[i + 1]) for i, op in enumerate(ops)) + ")", "B")

    # ---------------------------------------------------------------- statements
    def assigned(self, stmts):
        out = []

        def add(n):
            if n not in out:
                out.append(n)
        for s in stmts:
            if isinstance(s, ast.Assign):
                for t in s.targets:
                    if isinstance(t, ast.Name):
                        add(t.id)
                    elif isinstance(t, ast.Tuple):
                        for x in t.elts:
                            add(x.id)
                    elif isinstance(t, ast.Subscript) and isinstance(t.value, ast.Name):
                        add("kw_" + t.slice.value)
                    elif isinstance(t, ast.Attribute):
                        add("@" + ast.unparse(t))
            elif isinstance(s, ast.AugAssign):
                if isinstance(s.target, ast.Name):
                    add(s.target.id)
                elif isinstance(s.target, ast.Attribute):
                    add("@" + ast.unparse(s.target))
                elif isinstance(s.target, ast.Subscript):
                    add("kw_" + s.target.slice.value)
            elif isinstance(s, (ast.If, ast.For)):
                for n in self.assigned(s.body) + self.assigned(s.orelse):
                    add(n)
        return out

    def returns(self, stmts):
        """does every path through stmts end in return / raise?"""
        for s in stmts:
            if isinstance(s, (ast.Return, ast.Raise)):
                return True
            if isinstance(s, ast.If) and s.orelse and self.returns(s.body) and self.returns(s.orelse):
                return True
        return False

    def ret(self, v):
        """coerce a returned value to the declared return type; result (term, pure)"""
        rt = self.ret_ty
        if rt == "OTR":
            if v.ty == "NONE":
                return V("None", rt)
            if v.ty == "TR":
                return self.bind([v], lambda t: V("(Some %s)" % t[0], rt))
        if rt == "DTF" and v.ty in ("DT", "DTF"):
            fold = v.fold if v.fold is not None else "false"
            return self.bind([v], lambda t: V("(%s, %s)" % (t[0], fold), rt))
        if rt == "B" and v.ty in ("B", "TM"):
            return V(v.term, "B", v.pure)
        if rt == "Z" and v.ty in ("Z", "DT"):
            return V(v.term, "Z", v.pure)
        if rt == v.ty:
            return v
        if rt == "COMP" and v.ty == "OCOMP" and v.pure:
            return V("(match %s with Some c_ => Ok c_ | None => Err EType end)" % v.term, "COMP", False)
        raise TranslateError("return of %s where %s is declared" % (v.ty, rt))

    def block(self, stmts, env, k):
        """translate stmts; k(env) gives the value when the block falls through. -> V"""
        if not stmts:
            return k(env)
        s, rest = stmts[0], stmts[1:]
        if isinstance(s, ast.Expr) and isinstance(s.value, ast.Constant) and isinstance(s.value.value, str):
            return self.block(rest, env, k)
        if isinstance(s, (ast.Global, ast.ImportFrom, ast.Import)):
            return self.block(rest, env, k)
        if isinstance(s, ast.Try):
            # try: x = x.total_seconds() / except (TypeError, AttributeError): pass   -- offsets are ints or None
            ok = (len(s.body) == 1 and isinstance(s.body[0], ast.Assign) and len(s.handlers) == 1
                  and not s.orelse and not s.finalbody
                  and len(s.handlers[0].body) == 1 and isinstance(s.handlers[0].body[0], ast.Pass))
            if ok:
                a = s.body[0]
                ok = (isinstance(a.targets[0], ast.Name) and
                      ast.unparse(a.value) == a.targets[0].id + ".total_seconds()")
            if not ok:
                raise TranslateError("try statement")
            return self.block(rest, env, k)
        if isinstance(s, ast.Expr) and isinstance(s.value, ast.Call) and ast.unparse(s.value.func) == "tzrange.__init__":
            c = s.value
            kws = {x.arg: x.value for x in c.keywords}
            if len(c.args) != 5 or ast.unparse(c.args[0]) != "self" or set(kws) != {"start", "end"} or \
                    any(not (isinstance(v, ast.Constant) and v.value is False) for v in kws.values()):
                raise TranslateError("tzrange.__init__ call")
            vals = [self.expr(a, env) for a in c.args[1:]]
            if [v.ty for v in vals] != ["ONAME", "OZ", "ONAME", "OZ"] or not all(v.pure for v in vals):
                raise TranslateError("tzrange.__init__ arguments %r" % [v.ty for v in vals])
            env2 = dict(env)
            for fld in ZONE_FIELDS:
                env2["@self." + fld] = V("(%s z0_)" % ZONE_GET[fld], SLOTS[fld])
            inner = self.block(rest, env2, k)
            return V("(rbind (gen_tzrange_init %s AFalse AFalse) (fun z0_ => %s))" % (
                " ".join(v.term for v in vals), self.lift(inner)), inner.ty, False)
        if isinstance(s, ast.Return):
            return self.ret(self.expr(s.value, env))
        if isinstance(s, ast.Raise):
            exc = s.exc.func.id if isinstance(s.exc, ast.Call) and isinstance(s.exc.func, ast.Name) else None
            code = {"ValueError": "EValue", "TypeError": "EType"}.get(exc)
            if code is None:
                raise TranslateError("raise of %s" % ast.unparse(s))
            return V("(Err %s)" % code, self.ret_ty, False)
        if isinstance(s, ast.Assign) and len(s.targets) == 1:
            return self.assign(s.targets[0], s.value, rest, env, k)
        if isinstance(s, ast.AugAssign) and isinstance(s.op, (ast.Sub, ast.Add, ast.Mult)):
            op = {ast.Sub: ast.Sub, ast.Add: ast.Add, ast.Mult: ast.Mult}[type(s.op)]()
            load = ast.parse(ast.unparse(s.target), mode="eval").body
            return self.assign(s.target, ast.BinOp(left=load, op=op, right=s.value), rest, env, k)
        if isinstance(s, ast.If):
            return self.if_(s, rest, env, k)
        if isinstance(s, ast.For):
            return self.for_(s, rest, env, k)
        raise TranslateError("statement %s" % type(s).__name__)

    def for_(self, s, rest, env, k):
        if not (isinstance(s.target, ast.Name) and ast.unparse(s.iter) == "self._comps" and self.kind == "ical"):
            raise TranslateError("for loop over %s" % ast.unparse(s.iter))
        x = cn(s.target.id)
        envb = dict(env)
        envb[s.target.id] = V(x, "COMP")
        # (1) search loop:  for x in xs: if C(x): v = x; break   else: v = e
        if len(s.body) == 1 and isinstance(s.body[0], ast.If) and not s.body[0].orelse and len(s.body[0].body) == 2 \
                and isinstance(s.body[0].body[1], ast.Break) and isinstance(s.body[0].body[0], ast.Assign) \
                and isinstance(s.body[0].body[0].targets[0], ast.Name) and ast.unparse(s.body[0].body[0].value) == s.target.id \
                and len(s.orelse) == 1 and isinstance(s.orelse[0], ast.Assign) \
                and ast.unparse(s.orelse[0].targets[0]) == s.body[0].body[0].targets[0].id:
            var = s.body[0].body[0].targets[0].id
            c = self.truth(self.expr(s.body[0].test, envb))
            if not c.pure:
                raise TranslateError("impure loop condition")
            other = self.expr(s.orelse[0].value, env)
            if other.ty != "COMP" or env.get(var, V("", "")).ty != "OCOMP":
                raise TranslateError("search loop types")
            env2 = dict(env)
            env2[var] = V(cn(var), "OCOMP")
            inner = self.block(rest, env2, k)
            found = "(match find (fun %s => %s) cs with Some f_ => Ok (Some f_) | None => %s end)" % (
                x, c.term, "(rbind %s (fun o_ => Ok (Some o_)))" % self.lift(other))
            return V("(rbind %s (fun %s => %s))" % (found, cn(var), self.lift(inner)), inner.ty, False)
        # (2) accumulation loop: no break / else; variables defined before the loop are carried
        if s.orelse or any(isinstance(n, (ast.Break, ast.Continue, ast.Return)) for n in ast.walk(s)):
            raise TranslateError("loop shape")
        carried = [n for n in self.assigned(s.body) if n in env]
        if not carried:
            raise TranslateError("loop without carried variables")

        def tup(env_):
            return V("(" + ", ".join(env_[n].term for n in carried) + ")" if len(carried) > 1 else env_[carried[0]].term, "JOIN")
        for n in carried:
            envb[n] = V(cn(n), env[n].ty)
        body = self.block(s.body, envb, tup)
        if not body.pure:
            raise TranslateError("impure loop body")
        pat = "'(" + ", ".join(cn(n) for n in carried) + ")" if len(carried) > 1 else cn(carried[0])
        init = "(" + ", ".join(env[n].term for n in carried) + ")" if len(carried) > 1 else env[carried[0]].term
        env2 = dict(env)
        for n in carried:
            env2[n] = V(cn(n), env[n].ty)
        inner = self.block(rest, env2, k)
        return V("(let %s := fold_left (fun %s %s => %s) cs %s in %s)" % (pat, pat, x, body.term, init, inner.term),
                 inner.ty, inner.pure)

    def let(self, name, v, body):
        """let name := v in body(V for name)"""
        inner = body()
        if v.pure:
            return V("(let %s := %s in %s)" % (name, v.term, inner.term), inner.ty, inner.pure, inner.fold)
        return V("(rbind %s (fun %s => %s))" % (v.term, name, self.lift(inner)), inner.ty, False, inner.fold)

    def assign(self, target, value, rest, env, k):
        if isinstance(target, ast.Subscript) and isinstance(target.value, ast.Name) and \
                env.get(target.value.id, V("", "")).ty == "KWARGS" and isinstance(target.slice, ast.Constant):
            key = target.slice.value
            if key not in KW_TY:
                raise TranslateError("keyword %r" % key)
            v = self.expr(value, env) if not (isinstance(value, ast.BinOp) and isinstance(value.left, ast.Subscript)) \
                else self.expr(ast.BinOp(left=ast.Name(id="kw_" + key), op=value.op, right=value.right), env)
            want = KW_TY[key]
            if want == "OZ" and v.ty == "Z":
                v = V("(Some %s)" % v.term, "OZ", v.pure)
            if v.ty != want:
                raise TranslateError("kwargs[%r] = %s" % (key, v.ty))
            if key not in self.kw_seen:
                self.kw_seen.append(key)
            env2 = dict(env)
            env2["kw_" + key] = V("kw_" + key, want)
            return self.let("kw_" + key, v, lambda: self.block(rest, env2, k))
        if isinstance(value, ast.Dict) and not value.keys and isinstance(target, ast.Name):
            env2 = dict(env)
            env2[target.id] = V(target.id, "KWARGS")
            for key in KW_KEYS:
                if KW_TY[key] != "Z":
                    env2["kw_" + key] = V("kw_" + key, KW_TY[key])
            term = self.block(rest, env2, k)
            pre = "".join("let kw_%s := None in " % key for key in KW_KEYS if KW_TY[key] != "Z")
            return V("(%s%s)" % (pre, term.term), term.ty, term.pure, term.fold)
        if isinstance(target, ast.Attribute) and isinstance(target.value, ast.Name):
            key = "@" + ast.unparse(target)
            if target.value.id == "self" and self.kind == "init" and target.attr in SLOTS:
                want = SLOTS[target.attr]
            elif env.get(target.value.id, V("", "")).ty == "TZRES" and target.attr in RES_ATTRS:
                want = RES_ATTRS[target.attr][1]
            else:
                raise TranslateError("assignment to %s" % ast.unparse(target))
            v = self.expr(value, env)
            if v.ty == "NONE" and want == "DELTA":
                v = V("DNone", "DELTA")
            elif v.ty == "DARG" and want == "DELTA":
                v = V("(delta_of_darg %s)" % v.term, "DELTA", False)
            elif v.ty == "Z" and want == "OZ":
                v = V("(Some %s)" % v.term, "OZ", v.pure)
            elif v.ty == "DT" and want == "Z":
                v = V(v.term, "Z", v.pure)
            if v.ty != want:
                raise TranslateError("%s = %s" % (ast.unparse(target), v.ty))
            env2 = dict(env)
            env2[key] = V(cn(key), want)
            if target.attr in ("_s", "_dst_base_offset_") and target.value.id == "self":
                # stored but not part of the zone record of the model (checked: a pure expression)
                if not v.pure:
                    raise TranslateError("impure value for %s" % key)
                return self.let(cn(key), v, lambda: self.block(rest, env2, k))
            return self.let(cn(key), v, lambda: self.block(rest, env2, k))
        v = self.expr(value, env)
        if isinstance(target, ast.Name) and target.id in LOCAL_HINTS:
            want = LOCAL_HINTS[target.id]
            if v.ty == "NONE":
                v = V("None", want)
            elif (want, v.ty) in (("ODT", "DT"), ("ODT", "DTF"), ("OCOMP", "COMP")):
                v = V("(Some %s)" % v.term, want, v.pure)
            elif v.ty != want:
                raise TranslateError("%s = %s" % (target.id, v.ty))
        if isinstance(target, ast.Tuple) and len(target.elts) == 2 and all(isinstance(x, ast.Name) for x in target.elts):
            a, b = cn(target.elts[0].id), cn(target.elts[1].id)
            env2 = dict(env)
            env2[target.elts[0].id] = V(a, "Z")
            env2[target.elts[1].id] = V(b, "Z")
            if v.ty == "TR":
                inner = self.block(rest, env2, k)
                if v.pure:
                    return V("(let '(%s, %s) := %s in %s)" % (a, b, v.term, inner.term), inner.ty, inner.pure, inner.fold)
                return V("(rbind %s (fun '(%s, %s) => %s))" % (v.term, a, b, self.lift(inner)), inner.ty, False)
            if v.ty == "OTR":        # unpacking None raises TypeError
                inner = self.block(rest, env2, k)
                m = "match %s with Some (%s, %s) => %s | None => Err EType end"
                if v.pure:
                    return V("(" + m % (v.term, a, b, self.lift(inner)) + ")", inner.ty, False)
                return V("(rbind %s (fun t_ => %s))" % (v.term, m % ("t_", a, b, self.lift(inner))), inner.ty, False)
            raise TranslateError("unpacking of %s" % v.ty)
        if isinstance(target, ast.Name):
            name = cn(target.id)
            env2 = dict(env)
            if v.ty == "DTF" or v.ty == "DT":
                env2[target.id] = V(name, v.ty, True, v.fold)
            elif v.ty in ("TUP_Z", "TUP_CHARS", "NAMES", "JAN1", "KWARGS"):
                env2[target.id] = v                       # not materialised
                return self.block(rest, env2, k)
            else:
                env2[target.id] = V(name, v.ty)
            return self.let(name, v, lambda: self.block(rest, env2, k))
        raise TranslateError("assignment target %s" % ast.unparse(target))

    def if_(self, s, rest, env, k):
        # argument guards
        src = ast.unparse(s.test)
        if src in ("not isinstance(dt, datetime)", "dt.tzinfo is not self") and len(s.body) == 1 \
                and isinstance(s.body[0], ast.Raise) and not s.orelse:
            return self.block(rest, env, k)
        env_t, env_f = env, env
        opt = None                    # (scrutinee term, bound name, some_is_then)
        t = s.test
        # `if X is None or C: <raise>`  ==  `if X is None: <raise>` ; `if C: <raise>`  (X is not None in C)
        if isinstance(t, ast.BoolOp) and isinstance(t.op, ast.Or) and not s.orelse and self.returns(s.body) \
                and isinstance(t.values[0], ast.Compare) and isinstance(t.values[0].ops[0], ast.Is):
            first = ast.If(test=t.values[0], body=s.body, orelse=[])
            others = t.values[1] if len(t.values) == 2 else ast.BoolOp(op=ast.Or(), values=t.values[1:])
            second = ast.If(test=others, body=s.body, orelse=[])
            return self.block([first, second] + rest, env, k)
        # `if A and X is not None [and B]: body`  with X optional: X is narrowed inside body
        if isinstance(t, ast.BoolOp) and isinstance(t.op, ast.And) and not s.orelse:
            for i_, cj in enumerate(t.values):
                if isinstance(cj, ast.Compare) and len(cj.ops) == 1 and isinstance(cj.ops[0], ast.IsNot) \
                        and isinstance(cj.comparators[0], ast.Constant) and cj.comparators[0].value is None \
                        and self.expr(cj.left, env).ty == "OZ":
                    others = t.values[:i_] + t.values[i_ + 1:]
                    inner_test = others[0] if len(others) == 1 else ast.BoolOp(op=ast.And(), values=others)
                    inner = ast.If(test=inner_test, body=s.body, orelse=[])
                    outer = ast.If(test=cj, body=[inner], orelse=[])
                    return self.if_(outer, rest, env, k)
        if isinstance(t, ast.Compare) and len(t.ops) == 1 and isinstance(t.ops[0], (ast.Is, ast.IsNot)) \
                and isinstance(t.comparators[0], ast.Constant) and t.comparators[0].value is None:
            subj = self.expr(t.left, env)
            if subj.ty in ("OZ", "OTR", "OTZRES") and subj.pure:
                nm = "n%d_" % len(self.tmp) if subj.ty == "OZ" else cn(ast.unparse(t.left))
                self.tmp.append(nm)
                some_then = isinstance(t.ops[0], ast.IsNot)
                narrowed_env = dict(env)
                k_ = t.left.id if isinstance(t.left, ast.Name) else "@" + ast.unparse(t.left)
                narrowed_env[k_] = V(nm, {"OZ": "Z", "OTR": "TR", "OTZRES": "TZRES"}[subj.ty])
                if some_then:
                    env_t = narrowed_env
                else:
                    env_f = narrowed_env
                opt = (subj.term, nm, some_then)
        if opt is None:
            c = self.truth(self.expr(s.test, env))
            if c.pure and c.term in ("true", "false"):
                chosen = s.body if c.term == "true" else s.orelse
                return self.block(chosen + rest, env, k)

        def split(a, b):
            """conditional of the two translated arms"""
            if opt is not None:
                pure = a.pure and b.pure
                at, bt = (a.term, b.term) if pure else (self.lift(a), self.lift(b))
                some, none = (at, bt) if opt[2] else (bt, at)
                return V("(match %s with Some %s => %s | None => %s end)" % (opt[0], opt[1], some, none),
                         a.ty, pure)
            return self.ite(c, a, b)
        if self.returns(s.body):
            a = self.block(s.body, env_t, k)
            b = self.block(s.orelse + rest, env_f, k)
            return split(a, b)
        if s.orelse and self.returns(s.orelse):
            a = self.block(s.body + rest, env_t, k)
            b = self.block(s.orelse, env_f, k)
            return split(a, b)
        # join: both arms fall through
        # an attribute of a known object that is assigned in an arm has its current value before the `if`
        for n in self.assigned(s.body + s.orelse):
            if n.startswith("@") and n not in env and not n.startswith("@self."):
                try:
                    cur = self.attribute(ast.parse(n[1:], mode="eval").body, env)
                except TranslateError:
                    continue
                env, env_t, env_f = dict(env), dict(env_t), dict(env_f)
                for e_ in (env, env_t, env_f):
                    e_.setdefault(n, cur)
        # variables assigned in one arm only and not defined before are local to that arm (dropped)
        names = [n for n in self.assigned(s.body + s.orelse)
                 if n in env or (n in self.assigned(s.body) and n in self.assigned(s.orelse))]
        if not names:
            raise TranslateError("if statement without effect")

        def tup(env_):
            vals = []
            for n in names:
                v = env_[n]
                want = env[n].ty if n in env else None
                if n.startswith("@") and n.split(".")[-1] in RES_ATTRS and not n.startswith("@self."):
                    want = RES_ATTRS[n.split(".")[-1]][1]
                if want == "OZ" and v.ty == "Z":          # a narrowed optional falls through unchanged
                    v = V("(Some %s)" % v.term, "OZ")
                vals.append(v)
            return V(vals[0].term if len(vals) == 1 else "(" + ", ".join(v.term for v in vals) + ")", "JOIN")
        kw_before = list(self.kw_seen)
        a = self.block(s.body, env_t, tup)
        kw_a = list(self.kw_seen)
        self.kw_seen = list(kw_before)
        b = self.block(s.orelse, env_f, tup)
        for key in kw_a:
            if key not in self.kw_seen:
                self.kw_seen.append(key)
        joined = split(a, b)
        env2 = dict(env)
        for n in names:
            old = env.get(n)
            ty = old.ty if old is not None else self.join_type(n, s, env)
            if n.startswith("@") and n.split(".")[-1] in RES_ATTRS and not n.startswith("@self."):
                ty = RES_ATTRS[n.split(".")[-1]][1]
            env2[n] = V(cn(n), ty, True, "false" if ty in ("DT", "DTF") else None)
        pat = cn(names[0]) if len(names) == 1 else "'(" + ", ".join(cn(n) for n in names) + ")"
        inner = self.block(rest, env2, k)
        if joined.pure:
            return V("(let %s := %s in %s)" % (pat, joined.term, inner.term), inner.ty, inner.pure, inner.fold)
        return V("(rbind %s (fun %s => %s))" % (joined.term, pat, self.lift(inner)), inner.ty, False, inner.fold)

    def join_type(self, n, s, env):
        """type of a variable first assigned in both arms of an if"""
        for st in s.body:
            if isinstance(st, ast.Assign) and isinstance(st.targets[0], ast.Name) and st.targets[0].id == n:
                return self.expr(st.value, env).ty
            if isinstance(st, ast.Assign) and isinstance(st.targets[0], ast.Subscript) and n.startswith("kw_"):
                return KW_TY[n[3:]]
        if n.startswith("kw_"):
            return KW_TY[n[3:]]
        if n.startswith("@self.") and n[6:] in SLOTS:
            return SLOTS[n[6:]]
        raise TranslateError("type of joined variable %s" % n)

    def ite(self, c, a, b):
        pure = c.pure and a.pure and b.pure
        if pure:
            return V("(if %s then %s else %s)" % (c.term, a.term, b.term), a.ty, True)
        body = lambda t: "(if %s then %s else %s)" % (t, self.lift(a), self.lift(b))
        if c.pure:
            return V(body(c.term), a.ty, False)
        return V("(rbind %s (fun c_ => %s))" % (c.term, body("c_")), a.ty, False)

    def select_slice(self, fn):
        """_find_comp = [single-component shortcut] dt = ...; try: with lock: return <hit>; except ValueError: pass;
        <SELECTION>; with lock: <insert>; return lastcomp.  Only <SELECTION> (+ the return) is translated here."""
        b = [x for x in fn.body if not (isinstance(x, ast.Expr) and isinstance(x.value, ast.Constant))]
        ok = (len(b) >= 6 and isinstance(b[0], ast.If) and ast.unparse(b[0].test) == "len(self._comps) == 1"
              and isinstance(b[1], ast.Assign) and ast.unparse(b[1]) == "dt = dt.replace(tzinfo=None)"
              and isinstance(b[2], ast.Try) and len(b[2].body) == 1 and isinstance(b[2].body[0], ast.With)
              and isinstance(b[-2], ast.With) and isinstance(b[-1], ast.Return) and ast.unparse(b[-1].value) == "lastcomp")
        if not ok:
            raise TranslateError("_find_comp no longer has the shape shortcut / hit / selection / insert / return")
        return [b[1]] + b[3:-2] + [b[-1]]

    # ---------------------------------------------------------------- a method
    def translate(self, fn):
        self.tmp = []
        self.ret_ty = self.ret_spec
        env = {}
        binders = []
        if self.kind:
            binders.append(SELF[self.kind]["binder"])
        want = [a.arg for a in fn.args.args if a.arg != "self"]
        declared = [p for p, _ in self.params]
        if want[:len(declared)] != declared:
            raise TranslateError("parameters %r, expected %r" % (want, declared))
        for p, ty in self.params:
            if ty == "DT":
                env[p] = V(cn(p), "DT", True, None)
                binders.append("(%s : Z)" % cn(p))
            elif ty == "DTF":
                env[p] = V(cn(p), "DTF", True, cn(p) + "_fold")
                binders.append("(%s : Z) (%s_fold : bool)" % (cn(p), cn(p)))
            elif ty == "DTU":                       # a UTC reading: fold is 0
                env[p] = V(cn(p), "DTF", True, "false")
                binders.append("(%s : Z)" % cn(p))
            else:
                env[p] = V(cn(p), ty)
                binders.append("(%s : %s)" % (cn(p), COQTY[ty]))

        def fall(env_):
            if self.kind == "init":
                missing = [f_ for f_ in ZONE_FIELDS if "@self." + f_ not in env_]
                if missing:
                    raise TranslateError("__init__ does not set %r" % missing)
                return V("(mkZone %s)" % " ".join(env_["@self." + f_].term for f_ in ZONE_FIELDS), "ZONE")
            raise TranslateError("a path falls off the end of the method (implicit return None)")
        stmts = fn.body
        if self.name == "_find_comp":
            stmts = self.select_slice(fn)
        body = self.block(stmts, env, fall)
        rty = COQTY[self.ret_ty]
        return "Definition %s %s : %s :=\n  %s." % (self.coq, " ".join(binders),
                                                   rty if body.pure else "res (%s)" % rty, body.term), body.pure


# ------------------------------------------------------------------------------------------------
# _tzparser.parse: the offset reader (sign + hh[mm] / hh:mm) of the abbreviation loop, translated in the
# option monad (every IndexError / ValueError inside parse() makes it return None)

class OptTr(object):
    """straight-line token code -> Gallina in the option monad.  State: i (nat), used (list nat),
    signal (Z), value (Z, what setattr(res, offattr, ...) stores), len_li (nat)."""

    ATTRS = ["month", "week", "weekday", "yday", "jyday", "day", "time"]

    def __init__(self, attr_mode=False):
        self.n = 0
        self.attr_mode = attr_mode      # x.<attr> assignments build a tzattr record (whole rule body)

    def fresh(self, p):
        self.n += 1
        return "%s%d_" % (p, self.n)

    def wrap(self, binds, term):
        for (v, e) in reversed(binds):
            term = "(obind %s (fun %s => %s))" % (e, v, term)
        return term

    def expr(self, e, st, want=None):
        """-> (binds, term, kind)  kind in tok / Z / nat / B"""
        if isinstance(e, ast.Name):
            if e.id == "i":
                return [], st["i"], "nat"
            if e.id == "len_l":
                return [], "(length l)", "nat"
            if e.id in ("len_li", "signal", "value") and st.get(e.id) is not None:
                return [], st[e.id], "nat" if e.id == "len_li" else "Z"
            raise TranslateError("name %s" % e.id)
        if isinstance(e, ast.Constant) and isinstance(e.value, int):
            return [], ("%d%%nat" % e.value if want == "nat" else lit(e.value)), want or "Z"
        if isinstance(e, ast.Constant) and isinstance(e.value, str) and len(e.value) == 1:
            return [], "[%d]" % ord(e.value), "tok"
        if isinstance(e, ast.UnaryOp) and isinstance(e.op, ast.USub) and isinstance(e.operand, ast.Constant):
            return [], "(-%d)" % e.operand.value, "Z"
        if isinstance(e, ast.Subscript) and isinstance(e.value, ast.Name) and e.value.id == "l":
            b, idx, k = self.expr(e.slice, st, "nat")
            if k != "nat":
                raise TranslateError("token index")
            t = self.fresh("t")
            return b + [(t, "(tk l %s)" % idx)], t, "tok"
        if isinstance(e, ast.Subscript) and isinstance(e.slice, ast.Slice):
            b, t, k = self.expr(e.value, st)
            lo, hi = e.slice.lower, e.slice.upper
            if k != "tok" or e.slice.step is not None:
                raise TranslateError("slice")
            if lo is None and isinstance(hi, ast.Constant):
                return b, "(firstn %d %s)" % (hi.value, t), "tok"
            if hi is None and isinstance(lo, ast.Constant):
                return b, "(skipn %d %s)" % (lo.value, t), "tok"
            raise TranslateError("slice bounds")
        if isinstance(e, ast.Subscript) and isinstance(e.value, ast.Tuple) and len(e.value.elts) == 2:
            b0, a0, k0 = self.expr(e.value.elts[0], st)
            b1, a1, k1 = self.expr(e.value.elts[1], st)
            bc, c, kc = self.expr(e.slice, st)
            if b0 or b1 or kc != "B" or k0 != "Z" or k1 != "Z":
                raise TranslateError("tuple index")
            return bc, "(if %s then %s else %s)" % (c, a1, a0), "Z"
        if isinstance(e, ast.Call) and isinstance(e.func, ast.Name) and len(e.args) == 1 and not e.keywords:
            b, t, k = self.expr(e.args[0], st)
            if e.func.id == "len" and k == "tok":
                return b, "(length %s)" % t, "nat"
            if e.func.id == "int" and k == "tok":
                v = self.fresh("v")
                return b + [(v, "(int_tok %s)" % t)], v, "Z"
            raise TranslateError("call %s" % e.func.id)
        if isinstance(e, ast.Attribute) and isinstance(e.value, ast.Name) and e.value.id == "x" and self.attr_mode:
            raw = st.get("raw_" + e.attr)
            if raw is None:
                raise TranslateError("x.%s read where its value is not statically an int" % e.attr)
            return [], raw, "Z"
        if isinstance(e, ast.BinOp) and isinstance(e.op, (ast.Sub, ast.Mod)):
            bl, a, ka = self.expr(e.left, st, "Z")
            br, b_, kb = self.expr(e.right, st, "Z")
            if ka != "Z" or kb != "Z":
                raise TranslateError("int arithmetic expected in %s" % ast.unparse(e))
            if isinstance(e.op, ast.Mod):
                if not (isinstance(e.right, ast.Constant) and isinstance(e.right.value, int) and e.right.value > 0):
                    raise TranslateError("% by a positive literal only")
                return bl + br, "(%s mod %s)" % (a, b_), "Z"
            return bl + br, "(%s - %s)" % (a, b_), "Z"
        if isinstance(e, ast.BoolOp) and isinstance(e.op, ast.Or) and len(e.values) == 2:
            bl, a, ka = self.expr(e.values[0], st)
            br, b_, kb = self.expr(e.values[1], st)
            if ka != "B" or kb != "B":
                raise TranslateError("or of non-booleans")
            if not br:
                return bl, "(%s || %s)" % (a, b_), "B"
            c = self.fresh("c")        # the right operand is only evaluated when the left one fails
            return bl + [(c, "(if %s then Some true else %s)" % (a, self.wrap(br, "(Some %s)" % b_)))], c, "B"
        if isinstance(e, ast.BinOp) and isinstance(e.op, (ast.Add, ast.Mult)):
            bl, a, ka = self.expr(e.left, st, want)
            br, b_, kb = self.expr(e.right, st, ka)
            if ka != kb or ka not in ("Z", "nat"):
                raise TranslateError("arithmetic on %s, %s" % (ka, kb))
            op = "+" if isinstance(e.op, ast.Add) else "*"
            return bl + br, ("(%s %s %s)%%nat" if ka == "nat" else "(%s %s %s)") % (a, op, b_), ka
        if isinstance(e, ast.Compare) and len(e.ops) == 1:
            bl, a, ka = self.expr(e.left, st)
            op = e.ops[0]
            if ka == "tok" and isinstance(op, ast.In) and isinstance(e.comparators[0], ast.Tuple):
                alts = []
                for x in e.comparators[0].elts:
                    if not (isinstance(x, ast.Constant) and isinstance(x.value, str) and len(x.value) == 1):
                        raise TranslateError("membership in a tuple of single characters expected")
                    alts.append("list_eqb %s [%d]" % (a, ord(x.value)))
                return bl, "(" + " || ".join(alts) + ")", "B"
            br, b_, kb = self.expr(e.comparators[0], st, ka)
            if ka == "tok" and kb == "tok" and isinstance(op, ast.Eq):
                return bl + br, "(list_eqb %s %s)" % (a, b_), "B"
            if ka == "nat" and kb == "nat":
                sym = {ast.Eq: "=?", ast.LtE: "<=?", ast.Lt: "<?"}.get(type(op))
                if sym:
                    return bl + br, "(%s %s %s)%%nat" % (a, sym, b_), "B"
            if ka == "Z" and kb == "Z" and isinstance(op, ast.Eq):
                return bl + br, "(%s =? %s)" % (a, b_), "B"
            raise TranslateError("comparison %s" % ast.unparse(e))
        if isinstance(e, ast.BoolOp) and isinstance(e.op, ast.And) and len(e.values) == 2:
            bl, a, ka = self.expr(e.values[0], st)
            br, b_, kb = self.expr(e.values[1], st)
            if ka != "B" or kb != "B":
                raise TranslateError("and of non-booleans")
            if not br:
                return bl, "(%s && %s)" % (a, b_), "B"
            c = self.fresh("c")        # the right operand is only evaluated when the left one holds
            return bl + [(c, "(if %s then %s else Some false)" % (a, self.wrap(br, "(Some %s)" % b_)))], c, "B"
        raise TranslateError("token expression %s" % ast.unparse(e))

    STATE = ["signal", "value", "i", "used", "len_li"]

    def block(self, stmts, st, k):
        if not stmts:
            return k(st)
        s, rest = stmts[0], stmts[1:]
        if isinstance(s, ast.Return) and isinstance(s.value, ast.Constant) and s.value.value is None:
            return "None"
        if isinstance(s, ast.Assign) and len(s.targets) == 1 and isinstance(s.targets[0], ast.Name) \
                and (s.targets[0].id in ("signal", "len_li") or (self.attr_mode and s.targets[0].id == "value")):
            name = s.targets[0].id
            b, t, kind = self.expr(s.value, st)
            if kind != ("nat" if name == "len_li" else "Z"):
                raise TranslateError("%s = %s" % (name, kind))
            st2 = dict(st)
            st2[name] = name
            return self.wrap(b, "(let %s := %s in %s)" % (name, t, self.block(rest, st2, k)))
        if self.attr_mode and isinstance(s, (ast.Assign, ast.AugAssign)):
            tg = s.targets[0] if isinstance(s, ast.Assign) else s.target
            if isinstance(tg, ast.Attribute) and isinstance(tg.value, ast.Name) and tg.value.id == "x":
                if tg.attr not in self.ATTRS or (isinstance(s, ast.Assign) and len(s.targets) != 1):
                    raise TranslateError("assignment to x.%s" % tg.attr)
                b, t, kind = self.expr(s.value, st, "Z")
                if kind != "Z":
                    raise TranslateError("x.%s is not an int" % tg.attr)
                if isinstance(s, ast.AugAssign):
                    if not isinstance(s.op, ast.Add) or st.get("raw_" + tg.attr) is None:
                        raise TranslateError("augmented assignment %s" % ast.unparse(s))
                    t = "(%s + %s)" % (st["raw_" + tg.attr], t)
                a = self.fresh("a")
                st2 = dict(st)
                st2[tg.attr] = "(Some %s)" % a
                st2["raw_" + tg.attr] = a
                return self.wrap(b, "(let %s := %s in %s)" % (a, t, self.block(rest, st2, k)))
        if isinstance(s, ast.Assert) and s.msg is None:
            b, c, kind = self.expr(s.test, st)
            if kind != "B":
                raise TranslateError("assert condition")
            return self.wrap(b, "(if %s then %s else None)" % (c, self.block(rest, st, k)))
        if isinstance(s, ast.Assign) and len(s.targets) == 1 and ast.unparse(s.targets[0]) == "x.time":
            b, t, kind = self.expr(s.value, st)
            if kind != "Z":
                raise TranslateError("x.time is not an int")
            st2 = dict(st)
            st2["value"] = "value"
            return self.wrap(b, "(let value := %s in %s)" % (t, self.block(rest, st2, k)))
        if isinstance(s, ast.AugAssign) and isinstance(s.op, ast.Add) and ast.unparse(s.target) == "x.time" \
                and st.get("value") is not None:
            b, t, kind = self.expr(s.value, st)
            if kind != "Z":
                raise TranslateError("x.time += non-int")
            st2 = dict(st)
            st2["value"] = "value"
            return self.wrap(b, "(let value := (%s + %s) in %s)" % (st["value"], t, self.block(rest, st2, k)))
        if isinstance(s, ast.Expr) and isinstance(s.value, ast.Call):
            c = s.value
            if ast.unparse(c.func) == "setattr" and len(c.args) == 3 and ast.unparse(c.args[0]) == "res" \
                    and ast.unparse(c.args[1]) == "offattr":
                b, t, kind = self.expr(c.args[2], st)
                if kind != "Z":
                    raise TranslateError("stored offset is not an int")
                st2 = dict(st)
                st2["value"] = "value"
                return self.wrap(b, "(let value := %s in %s)" % (t, self.block(rest, st2, k)))
            if ast.unparse(c.func) == "used_idxs.append" and len(c.args) == 1:
                b, t, kind = self.expr(c.args[0], st, "nat")
                if b or kind != "nat":
                    raise TranslateError("used_idxs.append argument")
                st2 = dict(st)
                st2["used"] = "used"
                return "(let used := (%s ++ [%s]) in %s)" % (st["used"], t, self.block(rest, st2, k))
        if isinstance(s, ast.AugAssign) and isinstance(s.op, ast.Add) and ast.unparse(s.target) == "i" \
                and isinstance(s.value, ast.Constant) and isinstance(s.value.value, int) and s.value.value >= 0:
            st2 = dict(st)
            st2["i"] = "i"
            return "(let i := (%s + %d)%%nat in %s)" % (st["i"], s.value.value, self.block(rest, st2, k))
        if isinstance(s, ast.If):
            b, c, kind = self.expr(s.test, st)
            if kind == "Z":             # truthiness of an int
                c, kind = "(negb (%s =? 0))" % c, "B"
            if kind != "B":
                raise TranslateError("condition")
            live = [n for n in self.STATE if st.get(n) is not None or self.assigns([s], n)]
            if self.attr_mode:
                live += self.ATTRS

            def join(st_):
                return "(Some (%s))" % ", ".join(st_[n] for n in live) if len(live) > 1 else "(Some %s)" % st_[live[0]]
            a = self.block(s.body, st, join)
            o = self.block(s.orelse, st, join)
            st2 = dict(st)
            for n in live:
                st2[n] = ("x_" + n) if n in self.ATTRS else n
                st2["raw_" + n] = None
            names = [st2[n] for n in live]
            pat = "'(%s)" % ", ".join(names) if len(names) > 1 else names[0]
            return self.wrap(b, "(obind (if %s then %s else %s) (fun %s => %s))" % (c, a, o, pat, self.block(rest, st2, k)))
        raise TranslateError("token statement %s" % ast.unparse(s).split("\n")[0])

    def assigns(self, stmts, n):
        for s in stmts:
            if isinstance(s, ast.Assign) and ast.unparse(s.targets[0]) == n:
                return True
            if n == "value" and isinstance(s, ast.Expr) and ast.unparse(s.value).startswith("setattr(res, offattr"):
                return True
            if n == "value" and not self.attr_mode and isinstance(s, ast.Assign) and ast.unparse(s.targets[0]) == "x.time":
                return True
            if isinstance(s, ast.If) and self.assigns(s.body, n) and (self.assigns(s.orelse, n) or self.returns_none(s.orelse)):
                return True
        return False

    def returns_none(self, stmts):
        return any(isinstance(s, ast.Return) for s in stmts) or \
            any(isinstance(s, ast.If) and self.returns_none(s.body) and self.returns_none(s.orelse) for s in stmts)


def offset_reader(tree):
    """locate, in _tzparser.parse, the body of `if i < len_l and (l[i] in ('+','-') or l[i][0] in digits):`"""
    fn = find_method(tree, "_tzparser", "parse")
    if fn is None:
        raise TranslateError("_tzparser.parse not found")
    hits = [n for n in ast.walk(fn) if isinstance(n, ast.If) and n.body and isinstance(n.body[0], ast.If)
            and ast.unparse(n.body[0].test) == "l[i] in ('+', '-')"
            and ast.unparse(n.test).replace("\n", "") == "i < len_l and (l[i] in ('+', '-') or l[i][0] in '0123456789')"]
    if len(hits) != 1:
        raise TranslateError("offset reader of the abbreviation loop not found (%d candidates)" % len(hits))
    tr = OptTr()
    st = {"i": "i", "used": "[]", "signal": None, "value": None, "len_li": None}
    body = tr.block(hits[0].body, st, lambda st_: "(Some (%s, %s, %s))" % (st_["value"], st_["i"], st_["used"]))
    out = ("(* _tzparser.parse: the offset after an abbreviation (sign, then hhmm / hh:mm / hh), line %d *)\n"
           "Definition gen_read_offset (l : list (list Z)) (i : nat) : option (Z * nat * list nat) :=\n  %s.\n\n"
           % (hits[0].lineno, body))
    # the time of a rule: the body of `if i < len_l and l[i] == '/':` that assigns x.time
    hits = [n for n in ast.walk(fn) if isinstance(n, ast.If)
            and ast.unparse(n.test) == "i < len_l and l[i] == '/'"
            and any(isinstance(m, ast.Assign) and ast.unparse(m.targets[0]) == "x.time" for m in ast.walk(n))]
    if len(hits) != 1:
        raise TranslateError("rule-time reader (x.time) not found (%d candidates)" % len(hits))
    tr = OptTr()
    st = {"i": "i", "used": "[]", "signal": None, "value": None, "len_li": None}
    body = tr.block(hits[0].body, st, lambda st_: "(Some (%s, %s, %s))" % (st_["value"], st_["i"], st_["used"]))
    out += ("(* _tzparser.parse: the time of a rule after '/' (hhmm / hh:mm[:ss] / hh), line %d *)\n"
            "Definition gen_read_rule_time (l : list (list Z)) (i : nat) : option (Z * nat * list nat) :=\n  %s."
            % (hits[0].lineno, body))
    # one pass of `for x in (res.start, res.end):` in the ",start[/time],end[/time]" branch
    hits = [n for n in ast.walk(fn) if isinstance(n, ast.For) and ast.unparse(n.target) == "x"
            and ast.unparse(n.iter) == "(res.start, res.end)" and not n.orelse
            and n.body and isinstance(n.body[0], ast.If) and ast.unparse(n.body[0].test) == "l[i] == 'J'"]
    if len(hits) != 1:
        raise TranslateError("POSIX rule loop not found (%d candidates)" % len(hits))
    tr = OptTr(attr_mode=True)
    st = {"i": "i", "used": "[]", "signal": None, "value": None, "len_li": None}
    for a in OptTr.ATTRS:
        st[a] = "(@None Z)"
    body = tr.block(hits[0].body, st, lambda st_: "(Some (mkAttr %s, %s, %s))"
                    % (" ".join(st_[a] for a in OptTr.ATTRS), st_["i"], st_["used"]))
    out += ("\n\n(* _tzparser.parse: one pass of `for x in (res.start, res.end)` over a POSIX rule\n"
            "   (Jn | Mm.w.d | n) [/time] then ',' or the end, line %d.  x starts as a fresh _attr *)\n"
            "Definition gen_posix_rule (l : list (list Z)) (i : nat) : option (tzattr * nat * list nat) :=\n  %s."
            % (hits[0].lineno, body))
    # the abbreviation span: `while j < len_l and not [x for x in l[j] if x in "<chars>"]: j += 1`
    hits = [n for n in ast.walk(fn) if isinstance(n, ast.While) and not n.orelse
            and len(n.body) == 1 and ast.unparse(n.body[0]) == "j += 1"]
    if len(hits) != 1:
        raise TranslateError("abbreviation span loop not found (%d candidates)" % len(hits))
    w = hits[0]
    t = w.test
    ok = (isinstance(t, ast.BoolOp) and isinstance(t.op, ast.And) and len(t.values) == 2
          and ast.unparse(t.values[0]) == "j < len_l"
          and isinstance(t.values[1], ast.UnaryOp) and isinstance(t.values[1].op, ast.Not)
          and isinstance(t.values[1].operand, ast.ListComp))
    if ok:
        lc = t.values[1].operand
        g = lc.generators
        ok = (ast.unparse(lc.elt) == "x" and len(g) == 1 and ast.unparse(g[0].target) == "x"
              and ast.unparse(g[0].iter) == "l[j]" and len(g[0].ifs) == 1 and not g[0].is_async
              and isinstance(g[0].ifs[0], ast.Compare) and len(g[0].ifs[0].ops) == 1
              and isinstance(g[0].ifs[0].ops[0], ast.In) and ast.unparse(g[0].ifs[0].left) == "x"
              and isinstance(g[0].ifs[0].comparators[0], ast.Constant)
              and isinstance(g[0].ifs[0].comparators[0].value, str))
    if not ok:
        raise TranslateError("abbreviation span loop has an unexpected shape: %s" % ast.unparse(t))
    chars = g[0].ifs[0].comparators[0].value
    if any(ord(c) > 127 for c in chars):
        raise TranslateError("non-ASCII character class")
    out += ("\n\n(* _tzparser.parse: the abbreviation span, line %d:\n"
            "     while j < len_l and not [x for x in l[j] if x in %r]: j += 1\n"
            "   a token belongs to the name when none of its characters is in the class; the loop is the\n"
            "   count of leading such tokens of l[j:] (structural recursion on the suffix) *)\n"
            "Definition gen_name_tok (t : list Z) : bool :=\n"
            "  match filter (fun x => existsb (Z.eqb x) [%s]) t with [] => true | _ => false end.\n"
            "Fixpoint gen_span_name (suffix : list (list Z)) (j : nat) : nat :=\n"
            "  match suffix with\n"
            "  | t :: rest => if gen_name_tok t then gen_span_name rest (j + 1)%%nat else j\n"
            "  | [] => j\n"
            "  end."
            % (w.lineno, chars, "; ".join(str(ord(c)) for c in chars)))
    # one pass of `for x in (res.start, res.end):` in the deprecated 8/9-comma branch
    hits = [n for n in ast.walk(fn) if isinstance(n, ast.For) and ast.unparse(n.target) == "x"
            and ast.unparse(n.iter) == "(res.start, res.end)" and not n.orelse
            and n.body and ast.unparse(n.body[0]) == "x.month = int(l[i])"]
    if len(hits) != 1:
        raise TranslateError("deprecated-format rule loop not found (%d candidates)" % len(hits))
    tr = OptTr(attr_mode=True)
    st = {"i": "i", "used": "[]", "signal": None, "value": None, "len_li": None}
    for a in OptTr.ATTRS:
        st[a] = "(@None Z)"
    body = tr.block(hits[0].body, st, lambda st_: "(Some (mkAttr %s, %s, %s))"
                    % (" ".join(st_[a] for a in OptTr.ATTRS), st_["i"], st_["used"]))
    out += ("\n\n(* _tzparser.parse: one pass of `for x in (res.start, res.end)` of the deprecated format\n"
            "   month,[-]week,weekday-or-day,seconds, line %d.  x starts as a fresh _attr *)\n"
            "Definition gen_dep_rule (l : list (list Z)) (i : nat) : option (tzattr * nat * list nat) :=\n  %s."
            % (hits[0].lineno, body))
    return out


def find_method(tree, cls, name):
    for node in tree.body:
        if isinstance(node, ast.ClassDef) and node.name == cls:
            found = [n for n in node.body if isinstance(n, ast.FunctionDef) and n.name == name]
            if found:
                return found[-1]
    return None


def lock_discipline(tree):
    """_tzicalvtz._find_comp: is every read / write of _cachedate / _cachecomp inside `with self._cache_lock`?"""
    fn = find_method(tree, "_tzicalvtz", "_find_comp")
    if fn is None:
        raise TranslateError("_tzicalvtz._find_comp not found")
    bad = []

    def visit(node, locked):
        if isinstance(node, ast.With):
            held = locked or any(ast.unparse(i.context_expr) == "self._cache_lock" for i in node.items)
            for c in node.body:
                visit(c, held)
            return
        if isinstance(node, ast.Attribute) and node.attr in ("_cachedate", "_cachecomp") and not locked:
            bad.append(node.lineno)
        for c in ast.iter_child_nodes(node):
            visit(c, locked)
    # a cache index computed under the lock must also be USED under the same lock: a subscript of
    # _cachecomp outside any `with` is caught above
    visit(fn, False)
    return not bad


HEADER = ["(* GENERATED by harness/gen_posix.py from /repo/src/dateutil -- do not edit. *)",
          "From Coq Require Import ZArith List Bool.",
          "From V Require Import base.Cal posix.PTime posix.RDelta posix.TzParseModel posix.TzRangeModel",
          "     posix.PosixSpec posix.TzLocalModel posix.IcalModel posix.IcalConcModel posix.PosixGenBase.",
          "Import ListNotations.", "Open Scope Z_scope.", ""]


def main():
    trees = {}
    outs = {False: list(HEADER), True: list(HEADER)}       # keyed by "belongs to the iCalendar file"
    failed = []
    for spec in METHODS:
        ical = spec[1] in ("_tzicalvtz", "tzical")
        out = outs[ical]
        path = os.path.join(REPO, "src", "dateutil", spec[0])
        t = Tr(spec)
        try:
            if path not in trees:
                trees[path] = ast.parse(open(path).read())
            fn = find_method(trees[path], spec[1], spec[2])
            if fn is None:
                raise TranslateError("method not found")
            if fn.decorator_list and [ast.unparse(d) for d in fn.decorator_list] not in (["property"], ["tzname_in_python2"]):
                raise TranslateError("decorators %r" % [ast.unparse(d) for d in fn.decorator_list])
            text, pure = t.translate(fn)
            out.append("(* %s.%s  (%s, line %d) *)" % (spec[1], spec[2], spec[0], fn.lineno))
            out.append(text)
            out.append("")
        except (TranslateError, SyntaxError, OSError) as ex:
            failed.append("%s.%s: %s" % (spec[1], spec[2], ex))
            out.append("(* TRANSLATE-ERROR %s.%s: %s *)" % (spec[1], spec[2], str(ex).replace("*)", "* )")))
            out.append("")
    try:
        ppath = os.path.join(REPO, "src", "dateutil", "parser/_parser.py")
        outs[False].append(offset_reader(ast.parse(open(ppath).read())))
        outs[False].append("")
    except (TranslateError, SyntaxError, OSError) as ex:
        failed.append("_tzparser.parse offset reader: %s" % ex)
        outs[False].append("(* TRANSLATE-ERROR _tzparser.parse offset reader: %s *)" % str(ex).replace("*)", "* )"))
        outs[False].append("")
    out = outs[True]
    try:
        ok = lock_discipline(trees[os.path.join(REPO, "src", "dateutil", "tz/tz.py")])
        out.append("(* _tzicalvtz._find_comp: every access to _cachedate / _cachecomp happens inside")
        out.append("   `with self._cache_lock` (the hit path reads _cachecomp[idx] under the lock) *)")
        out.append("Definition gen_cache_access_under_lock : bool := %s." % ("true" if ok else "false"))
        out.append("")
    except (TranslateError, KeyError) as ex:
        failed.append("lock discipline: %s" % ex)
        out.append("(* TRANSLATE-ERROR lock discipline: %s *)" % ex)
    # _find_comp: the cache hit expression and the insert block, over the two parallel lists
    try:
        fn = find_method(trees[os.path.join(REPO, "src", "dateutil", "tz/tz.py")], "_tzicalvtz", "_find_comp")
        b = [x for x in fn.body if not (isinstance(x, ast.Expr) and isinstance(x.value, ast.Constant))]
        tryst = [x for x in b if isinstance(x, ast.Try)]
        if len(tryst) != 1 or len(tryst[0].handlers) != 1 or ast.unparse(tryst[0].handlers[0].type) != "ValueError" \
                or not (len(tryst[0].handlers[0].body) == 1 and isinstance(tryst[0].handlers[0].body[0], ast.Pass)):
            raise TranslateError("try/except ValueError: pass expected around the cache hit")
        w = tryst[0].body[0]
        hit = w.body[0] if isinstance(w, ast.With) and len(w.body) == 1 else w
        want_hit = "return self._cachecomp[self._cachedate.index((dt, self._fold(dt)))]"
        if ast.unparse(hit) != want_hit:
            raise TranslateError("cache hit is not `%s`" % want_hit)
        out.append("(* _find_comp, hit path: %s  (ValueError of list.index -> miss) *)" % want_hit[7:])
        out.append("Definition gen_cache_hit (dates : list (Z * bool)) (comps : list comp) (dt : Z) (dt_fold : bool)"
                   " : option comp :=\n  match index_of dates (dt, dt_fold) 0 with Some i_ => nth_error comps i_ | None => None end.")
        out.append("")
        ins = b[-2]
        if not isinstance(ins, ast.With):
            raise TranslateError("insert block")
        names = {"self._cachedate": "dates", "self._cachecomp": "comps"}
        lines = []

        def listop(st):
            if isinstance(st, ast.Expr) and isinstance(st.value, ast.Call) and isinstance(st.value.func, ast.Attribute):
                tgt = ast.unparse(st.value.func.value)
                if tgt in names and st.value.func.attr == "insert" and len(st.value.args) == 2 and \
                        isinstance(st.value.args[0], ast.Constant) and st.value.args[0].value == 0:
                    arg = ast.unparse(st.value.args[1])
                    val = {"(dt, self._fold(dt))": "(dt, dt_fold)", "lastcomp": "lastcomp"}.get(arg)
                    if val is None:
                        raise TranslateError("inserted value %s" % arg)
                    return "let %s := %s :: %s in " % (names[tgt], val, names[tgt])
                if tgt in names and st.value.func.attr == "pop" and not st.value.args:
                    return "let %s := removelast %s in " % (names[tgt], names[tgt])
            raise TranslateError("cache statement %s" % ast.unparse(st))
        text = ""
        for st in ins.body:
            if isinstance(st, ast.If) and not st.orelse:
                t = st.test
                if not (isinstance(t, ast.Compare) and len(t.ops) == 1 and isinstance(t.ops[0], ast.Gt)
                        and ast.unparse(t.left) == "len(self._cachedate)" and isinstance(t.comparators[0], ast.Constant)
                        and isinstance(t.comparators[0].value, int)):
                    raise TranslateError("cache size test %s" % ast.unparse(t))
                inner = "".join(listop(x) for x in st.body)
                text += "let '(dates, comps) := if (%d <? length dates)%%nat then (%s(dates, comps)) else (dates, comps) in " % (
                    t.comparators[0].value, inner)
            else:
                text += listop(st)
        out.append("(* _find_comp, insert block under the lock *)")
        out.append("Definition gen_cache_insert (dates : list (Z * bool)) (comps : list comp) (dt : Z) (dt_fold : bool)"
                   " (lastcomp : comp) : list (Z * bool) * list comp :=\n  %s(dates, comps)." % text)
        out.append("")
    except (TranslateError, KeyError, AttributeError, IndexError) as ex:
        failed.append("cache of _find_comp: %s" % ex)
        out.append("(* TRANSLATE-ERROR cache of _find_comp: %s *)" % ex)
    # tzical._parse_rfc builds each component's recurrence set with rrulestr(..., compatible=True, ...):
    # compatible=True is what makes DTSTART itself an onset (the first onset of comp_daylight /
    # comp_standard in the C17 theorems)
    try:
        fn = find_method(trees[os.path.join(REPO, "src", "dateutil", "tz/tz.py")], "tzical", "_parse_rfc")
        calls = [n for n in ast.walk(fn) if isinstance(n, ast.Call) and ast.unparse(n.func) == "rrule.rrulestr"]
        if len(calls) != 1:
            raise TranslateError("expected exactly one rrule.rrulestr call in tzical._parse_rfc")
        kws = {k.arg: k.value for k in calls[0].keywords}
        flag = (isinstance(kws.get("compatible"), ast.Constant) and kws["compatible"].value is True and
                isinstance(kws.get("ignoretz"), ast.Constant) and kws["ignoretz"].value is True)
        out.append("(* tzical._parse_rfc: rrule.rrulestr(..., compatible=True, ignoretz=True, ...) *)")
        out.append("Definition gen_rrulestr_dtstart_is_onset : bool := %s." % ("true" if flag else "false"))
        out.append("")
    except (TranslateError, KeyError, AttributeError) as ex:
        failed.append("rrulestr call: %s" % ex)
        out.append("(* TRANSLATE-ERROR rrulestr call: %s *)" % ex)
    for ical, default in ((False, OUT), (True, OUT2)):
        txt = "\n".join(outs[ical]) + "\n"
        outp = os.environ.get("POSIXGEN_OUT2" if ical else "POSIXGEN_OUT", default)
        os.makedirs(os.path.dirname(outp), exist_ok=True)
        if not os.path.exists(outp) or open(outp).read() != txt:
            open(outp, "w").write(txt)
    for f in failed:
        print("gen_posix: TRANSLATE-ERROR", f)
    return 0


if __name__ == "__main__":
    sys.exit(main())
