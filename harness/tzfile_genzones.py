"""Generated non-tzfile zones for C04 / C05: tzical zones built from multi-era component lists,
tzlocal under POSIX TZ strings, tzstr / tzrange (both hemispheres).  The EXPECTED values do not
come from the library: every zone description carries an independent piecewise-constant offset
function (UTC transition instants + offset in force), derived here from the rule definitions with
the calendar module only; it is rendered as a TZif stream by the model's render_tzif and the
extracted SPEC (off / local / fold_spec / preimages / utc_of_spec / resolve_spec, entries 3 and 4)
is evaluated on it.  Only positive-saving rules are generated (negative saving in tzrange / tzical
/ tzlocal is the open findings F-C08-3, F-C08-4, F-C17-1 of the posix area).
extra_descs(): iCalendar zones with 6-digit +-HHMMSS offsets (non-zero seconds, both signs) and zones built
from POSIX day-of-year rules in both forms (Jn: 1..365, Feb 29 never counted; n: zero-based, Feb 29 counted),
probed in leap and common years; expected values from yday_date (calendar module only)."""
import calendar
import datetime as D
import io
import os
import sys
import time as _time

sys.path.insert(0, os.path.dirname(os.path.abspath(__file__)))
import common as C
import tzfile_common as T

EPOCH = D.datetime(1970, 1, 1)
Y0, Y1 = 1980, 2030          # years covered by the reference functions


def secs(dt):
    td = dt - EPOCH
    return td.days * 86400 + td.seconds


def rule_date(year, month, week, wday):
    """POSIX Mm.w.d: week 1..4 = w-th <wday> of the month, 5 = last; wday 0 = Sunday."""
    cal_w = (wday - 1) % 7                      # calendar: Monday = 0
    days = [d for d in range(1, calendar.monthrange(year, month)[1] + 1)
            if calendar.weekday(year, month, d) == cal_w]
    return D.date(year, month, days[-1] if week == 5 else days[week - 1])


def hhmm(off):
    s = "+" if off >= 0 else "-"
    a = abs(off)
    return "%s%02d%02d" % (s, a // 3600, a % 3600 // 60) + ("%02d" % (a % 60) if a % 60 else "")


BYDAY = ["SU", "MO", "TU", "WE", "TH", "FR", "SA"]


class Desc(object):
    """name, kind, make() -> zone object (tzlocal: sets TZ first), ref = (init, [(utc, off)]),
    avoid = [(lo, hi)] UTC windows where the class has no defined / agreed behaviour."""

    def __init__(self, name, kind, make, init, trans, avoid, tight):
        self.name, self.kind, self.make = name, kind, make
        self.init, self.trans, self.avoid, self.tight = init, sorted(trans), avoid, tight

    def raw(self):
        offs = [self.init] + [o for _t, o in self.trans]
        types = []
        for o in offs:
            if o not in types:
                types.append(o)
        return {"leapcnt": 0, "times": [t for t, _o in self.trans],
                "idx": [types.index(o) for _t, o in self.trans],
                "types": [(o, 0, 0) for o in types], "abbr": [88, 0], "isstd": [], "isgmt": []}

    def avoided(self, u):
        return any(lo <= u <= hi for lo, hi in self.avoid)


def posix_onsets(std, dst, on, off, years):
    """[(utc, offset_after, wall_onset_naive, from, to, isdst)] of a yearly two-rule zone.
    on / off = (month, week, wday, seconds local wall time before the change)."""
    out = []
    for y in years:
        d = rule_date(y, on[0], on[1], on[2])
        w = D.datetime(d.year, d.month, d.day) + D.timedelta(seconds=on[3])
        out.append((secs(w) - std, dst, w, std, dst, True))
        d = rule_date(y, off[0], off[1], off[2])
        w = D.datetime(d.year, d.month, d.day) + D.timedelta(seconds=off[3])
        out.append((secs(w) - dst, std, w, dst, std, False))
    return sorted(out)


def vtimezone(tzid, comps, order):
    """comps: [(kind, dtstart_naive, from, to, name, rrule or None)]."""
    lines = ["BEGIN:VCALENDAR", "BEGIN:VTIMEZONE", "TZID:" + tzid]
    for k in order:
        kind, start, fr, to, name, rr = comps[k]
        lines += ["BEGIN:" + kind, "DTSTART:" + start.strftime("%Y%m%dT%H%M%S")]
        if rr:
            lines.append("RRULE:" + rr)
        lines += ["TZOFFSETFROM:" + hhmm(fr), "TZOFFSETTO:" + hhmm(to), "TZNAME:" + name, "END:" + kind]
    lines += ["END:VTIMEZONE", "END:VCALENDAR", ""]
    return "\r\n".join(lines)


def rrule_text(rule, until):
    month, week, wday, _s = rule
    return "FREQ=YEARLY;BYMONTH=%d;BYDAY=%s%s;UNTIL=%s" % (
        month, "-1" if week == 5 else "+%d" % week, BYDAY[wday], until.strftime("%Y%m%dT%H%M%S"))


# ------------------------------------------------------------------------------ POSIX-rule zones
POSIX = [
    # name, std, dst, on (m, w, d, secs), off (m, w, d, secs), TZ string for libc, tzstr string or None
    ("us-eastern", -18000, -14400, (3, 2, 0, 7200), (11, 1, 0, 7200), "EST5EDT,M3.2.0,M11.1.0", "EST5EDT,M3.2.0,M11.1.0"),
    ("azores", -3600, 0, (3, 5, 0, 0), (10, 5, 0, 3600), "<-01>1<+00>,M3.5.0/0,M10.5.0/1", "AZOT1AZOST,M3.5.0/0,M10.5.0/1"),
    ("london", 0, 3600, (3, 5, 0, 3600), (10, 5, 0, 7200), "GMT0BST,M3.5.0/1,M10.5.0", "GMT0BST,M3.5.0/1,M10.5.0"),
    ("sydney", 36000, 39600, (10, 1, 0, 7200), (4, 1, 0, 10800), "AEST-10AEDT,M10.1.0,M4.1.0/3", "AEST-10AEDT,M10.1.0,M4.1.0/3"),
    ("auckland", 43200, 46800, (9, 5, 0, 7200), (4, 1, 0, 10800), "NZST-12NZDT,M9.5.0,M4.1.0/3", "NZST-12NZDT,M9.5.0,M4.1.0/3"),
    ("lord-howe-like", 37800, 39600, (10, 1, 0, 7200), (4, 1, 0, 7200), "<+1030>-10:30<+11>-11,M10.1.0,M4.1.0",
     "LHST-10:30LHDT-11,M10.1.0,M4.1.0"),
    ("santiago-like", -14400, -10800, (9, 1, 6, 86400), (4, 1, 6, 86400), "<-04>4<-03>,M9.1.6/24,M4.1.6/24", None),
    ("scoresbysund-like", -3600, 0, (3, 5, 6, 79200), (10, 5, 6, 82800), "<-01>1<+00>,M3.5.6/22,M10.5.6/23", None),
    ("kolkata", 19800, None, None, None, "IST-5:30", "IST-5:30"),
    ("utc", 0, None, None, None, "UTC0", "UTC0"),
]


def posix_descs(kinds, table=None):
    from dateutil import tz
    from dateutil.relativedelta import relativedelta
    out = []
    years = list(range(Y0, Y1 + 1))
    for name, std, dst, on, off, tzs, tzstr_s in (POSIX if table is None else table):
        if dst is None:
            ons, init = [], std
        else:
            ons = posix_onsets(std, dst, on, off, years)
            init = ons[0][3]
        trans = [(u, o) for (u, o, _w, _f, _t, _d) in ons]
        # rules with no beginning: everything before the first listed year is outside the reference
        avoid = [(-10 ** 12, secs(D.datetime(Y0, 1, 1)) + 400 * 86400), (secs(D.datetime(Y1, 1, 1)) - 40 * 86400, 10 ** 12)]
        if "tzlocal" in kinds:
            def mk_local(tzs=tzs):
                os.environ["TZ"] = tzs
                _time.tzset()
                return tz.tzlocal()
            out.append(Desc("tzlocal:" + tzs, "tzlocal", mk_local, init, trans, avoid, ons))
        if "tzstr" in kinds and tzstr_s:
            out.append(Desc("tzstr:" + tzstr_s, "tzstr", lambda s=tzstr_s: tz.tzstr(s), init, trans, avoid, ons))
        if "tzrange" in kinds and dst is not None and on[3] % 3600 == 0 and off[3] < 86400 and on[3] < 86400:
            def mk_range(std=std, dst=dst, on=on, off=off):
                def rd(rule, secs_std):
                    m, w, d, _s = rule
                    wd = (d - 1) % 7
                    from dateutil.relativedelta import weekday
                    if w == 5:
                        return relativedelta(seconds=secs_std, month=m, day=31, weekday=weekday(wd)(-1))
                    return relativedelta(seconds=secs_std, month=m, day=1, weekday=weekday(wd)(+w))
                # tzrange takes both rules in STANDARD time
                return tz.tzrange("STD", std, "DST", dst, rd(on, on[3]), rd(off, off[3] - (dst - std)))
            if off[3] - (dst - std) >= 0:
                out.append(Desc("tzrange:" + name, "tzrange", mk_range, init, trans, avoid, ons))
        if "tzical" in kinds and dst is not None and on[3] < 86400 and off[3] < 86400:
            d_on = [x for x in ons if x[5]]
            d_off = [x for x in ons if not x[5]]
            comps = [("DAYLIGHT", d_on[0][2], std, dst, "DST", rrule_text(on, d_on[-1][2] + D.timedelta(days=1))),
                     ("STANDARD", d_off[0][2], dst, std, "STD", rrule_text(off, d_off[-1][2] + D.timedelta(days=1)))]
            for order in ([0, 1], [1, 0]):
                text = vtimezone(name, comps, order)
                out.append(Desc("tzical:%s/%s" % (name, "".join(map(str, order))), "tzical",
                                lambda text=text: tz.tzical(io.StringIO(text)).get(), init, trans,
                                avoid + [(-10 ** 12, ons[1][0] + 3 * 86400)], ons))
    return out


# ------------------------------------------------------------------------------ multi-era iCalendar zones
STD_OFFS = [-43200, -34200, -18000, -12600, -3600, -1800, 0, 1800, 3600, 12600, 16200, 19800, 20700, 28800, 34200, 37800, 45900]
SAVINGS = [3600, 3600, 3600, 1800, 7200]
N_RULES = [((3, 2, 0, 7200), (11, 1, 0, 7200)), ((3, 5, 0, 3600), (10, 5, 0, 7200)), ((4, 1, 0, 0), (10, 5, 0, 3600)),
           ((3, 5, 0, 0), (10, 5, 0, 3600)), ((5, 1, 1, 7200), (9, 5, 5, 10800))]
S_RULES = [((10, 1, 0, 7200), (4, 1, 0, 10800)), ((9, 5, 0, 7200), (4, 1, 0, 10800)), ((11, 1, 6, 0), (2, 5, 6, 3600))]


def multi_era_desc(r, k):
    """A tzical zone with 2-4 eras: per era a standard offset and optionally a (positive) DST rule;
    era boundaries lie where the previous era is on standard time."""
    from dateutil import tz
    nera = r.choice([2, 2, 3, 4])
    cuts = sorted(r.sample(range(1986, 2026), nera - 1))
    bounds = [1981] + cuts + [2030]
    comps, ons = [], []
    prev_std, prev_hemi = None, "N"
    era_boundaries = []
    for e in range(nera):
        y_lo, y_hi = bounds[e], bounds[e + 1]
        std = r.choice(STD_OFFS) if (prev_std is None or r.random() < 0.8) else prev_std
        if r.random() < 0.35:
            std = 0 - r.choice([0, 3600, 1800])     # eras around offset zero
        has_dst = r.random() < 0.75
        hemi = r.choice(["N", "S"])
        saving = r.choice(SAVINGS)
        if r.random() < 0.3 and std < 0 and std >= -7200:
            saving = -std                            # DST at offset exactly 0
        # boundary date: the previous era must be on standard time
        if e > 0:
            bd = D.datetime(y_lo, 1, 25, 3, 0) if prev_hemi == "N" else D.datetime(y_lo, 6, 25, 3, 0)
            if std != prev_std:
                comps.append(("STANDARD", bd, prev_std, std, "S%d" % e, None))
                ons.append((secs(bd) - prev_std, std, bd, prev_std, std, False))
                era_boundaries.append(secs(bd) - prev_std)
            start_after = bd
        else:
            start_after = D.datetime(y_lo, 1, 1)
        end_before = D.datetime(y_hi, 1, 20) if hemi == "N" else D.datetime(y_hi, 6, 20)
        if has_dst:
            on, off = r.choice(N_RULES if hemi == "N" else S_RULES)
            dst = std + saving
            era_ons = posix_onsets(std, dst, on, off, range(y_lo, y_hi + 1))
            era_ons = [x for x in era_ons if start_after + D.timedelta(days=2) < x[2] < end_before - D.timedelta(days=2)]
            while era_ons and not era_ons[0][5]:
                era_ons.pop(0)                      # start with a transition into DST
            while era_ons and era_ons[-1][5]:
                era_ons.pop()                       # end on standard time
            if era_ons:
                d_on = [x for x in era_ons if x[5]]
                d_off = [x for x in era_ons if not x[5]]
                comps.append(("DAYLIGHT", d_on[0][2], std, dst, "D%d" % e, rrule_text(on, d_on[-1][2])))
                comps.append(("STANDARD", d_off[0][2], dst, std, "S%d" % e, rrule_text(off, d_off[-1][2])))
                ons += era_ons
        else:
            hemi = "N"
        prev_std, prev_hemi = std, hemi
    ons.sort()
    if len(comps) < 2 or not ons:
        return None
    order = list(range(len(comps)))
    if k % 2:
        r.shuffle(order)
    text = vtimezone("gen-%d" % k, comps, order)
    trans = [(u, o) for (u, o, _w, _f, _t, _d) in ons]
    first = ons[0][0]
    avoid = [(-10 ** 12, first + 3 * 86400), (secs(D.datetime(2030, 6, 1)), 10 ** 12)]
    d = Desc("tzical:multi-era-%d" % k, "tzical-multi", lambda text=text: tz.tzical(io.StringIO(text)).get(),
             ons[0][3], trans, avoid, ons)
    d.era_boundaries = era_boundaries
    d.text = text
    return d



# ------------------------------------------------------------------------------ +-HHMMSS offsets, day-of-year rules
# iCalendar zones whose TZOFFSETFROM / TZOFFSETTO use the 6-digit form with non-zero seconds, both signs
# (Monrovia -004430, Caracas -042740, a positive LMT-like +055328, a DST that crosses zero)
SEC_POSIX = [
    ("caracas-sec", -16060, -12460, (3, 2, 0, 7200), (11, 1, 0, 7200), None, None),
    ("monrovia-sec", -2670, 930, (3, 5, 0, 3600), (10, 5, 0, 7200), None, None),
    ("kolkata-lmt-sec", 21208, 24808, (4, 1, 0, 0), (10, 5, 0, 3600), None, None),
    ("south-neg-sec", -11322, -7722, (10, 1, 0, 7200), (4, 1, 0, 10800), None, None),
]
SEC_FIXED = [
    # name, [(wall onset, from, to)]: STANDARD components without a rule
    ("monrovia-fixed", [(D.datetime(1984, 3, 1, 0, 0), -2588, -2670), (D.datetime(2003, 1, 7, 0, 0), -2670, 0)]),
    ("caracas-fixed", [(D.datetime(1985, 2, 12, 0, 0), -16064, -16060), (D.datetime(1999, 1, 1, 0, 0), -16060, -16200),
                       (D.datetime(2012, 5, 1, 2, 0), -16200, 16230)]),
]


def sec_fixed_descs():
    from dateutil import tz
    out = []
    for name, chs in SEC_FIXED:
        comps = [("STANDARD", w, fr, to, "S%d" % k, None) for k, (w, fr, to) in enumerate(chs)]
        ons = [(secs(w) - fr, to, w, fr, to, False) for (w, fr, to) in chs]
        for order in (list(range(len(comps))), list(range(len(comps)))[::-1]):
            text = vtimezone(name, comps, order)
            # named multi-era-*: several eras of standard offsets, same class as multi_era_desc (the sub-stream next to
            # the changes of the standard offset belongs to finding F-C04/C05-tzical-std-change)
            d = Desc("tzical:multi-era-sec-%s/%s" % (name, "".join(map(str, order))), "tzical",
                     lambda text=text: tz.tzical(io.StringIO(text)).get(), chs[0][1],
                     [(u, o) for (u, o, _w, _f, _t, _d) in ons],
                     [(-10 ** 12, ons[0][0] + 3 * 86400), (secs(D.datetime(2030, 6, 1)), 10 ** 12)], ons)
            d.era_boundaries = [x[0] for x in ons[1:]]
            d.text = text
            d.all_years = True
            out.append(d)
    return out


def yday_date(year, form, n):
    """POSIX day-of-year rules.  'J': n = 1..365, February 29 is never counted (so the month and day are the
    same in every year); 'n': zero-based 0..365, February 29 IS counted."""
    if form == "J":
        month = 1
        while n > calendar.monthrange(2001, month)[1]:
            n -= calendar.monthrange(2001, month)[1]
            month += 1
        return D.date(year, month, n)
    month = 1
    n += 1
    while n > calendar.monthrange(year, month)[1]:
        n -= calendar.monthrange(year, month)[1]
        month += 1
    return D.date(year, month, n)


def yday_onsets(std, dst, on, off, years):
    out = []
    for y in years:
        d = yday_date(y, on[0], on[1])
        w = D.datetime(d.year, d.month, d.day) + D.timedelta(seconds=on[2])
        out.append((secs(w) - std, dst, w, std, dst, True))
        d = yday_date(y, off[0], off[1])
        w = D.datetime(d.year, d.month, d.day) + D.timedelta(seconds=off[2])
        out.append((secs(w) - dst, std, w, dst, std, False))
    return sorted(out)


YDAY = [
    # name, std, dst, on (form, n, secs), off (form, n, secs), TZ string (libc and tzstr)
    ("J95-J298", -18000, -14400, ("J", 95, 7200), ("J", 298, 7200), "EST5EDT,J95/2,J298/2"),
    ("n94-n297", -18000, -14400, ("n", 94, 7200), ("n", 297, 7200), "EST5EDT,94/2,297/2"),
    ("n95-n298-long", -18000, -14400, ("n", 95, 7200), ("n", 298, 7200), "EST5EDT4,95/02:00:00,298/02:00"),
    ("n59-n300", 3600, 7200, ("n", 59, 7200), ("n", 300, 10800), "CET-1CEST,59/2,300/3"),
    ("J60-J300", 3600, 7200, ("J", 60, 7200), ("J", 300, 10800), "CET-1CEST,J60/2,J300/3"),
    ("n40-n330", 0, 3600, ("n", 40, 3600), ("n", 330, 7200), "GMT0BST,40/1,330/2"),
    ("south-n280-n70", 36000, 39600, ("n", 280, 7200), ("n", 70, 10800), "AEST-10AEDT,280/2,70/3"),
    ("south-J274-J91", 43200, 46800, ("J", 274, 7200), ("J", 91, 10800), "NZST-12NZDT,J274/2,J91/3"),
    ("n120-n364", -10800, -7200, ("n", 120, 0), ("n", 364, 7200), "<-03>3<-02>,120/0,364/2"),
]


def yday_descs(kinds=("tzlocal", "tzstr", "tzrange", "tzical")):
    from dateutil import tz
    from dateutil.relativedelta import relativedelta
    out = []
    years = list(range(Y0, Y1 + 1))
    avoid = [(-10 ** 12, secs(D.datetime(Y0, 1, 1)) + 400 * 86400), (secs(D.datetime(Y1, 1, 1)) - 40 * 86400, 10 ** 12)]
    for name, std, dst, on, off, tzs in YDAY:
        ons = yday_onsets(std, dst, on, off, years)
        init = ons[0][3]
        trans = [(u, o) for (u, o, _w, _f, _t, _d) in ons]
        ds = []
        if "tzlocal" in kinds:
            def mk_local(tzs=tzs):
                os.environ["TZ"] = tzs
                _time.tzset()
                return tz.tzlocal()
            ds.append(Desc("tzlocal:" + tzs, "tzlocal", mk_local, init, trans, avoid, ons))
        if "tzstr" in kinds:
            s = tzs.replace("<-03>3<-02>", "BRT3BRST")
            ds.append(Desc("tzstr:" + s, "tzstr", lambda s=s: tz.tzstr(s), init, trans, avoid, ons))
        if "tzrange" in kinds and off[2] - (dst - std) >= 0:
            def mk_range(std=std, dst=dst, on=on, off=off):
                def rd(rule, secs_std):
                    if rule[0] == "J":
                        return relativedelta(seconds=secs_std, nlyearday=rule[1])
                    return relativedelta(seconds=secs_std, yearday=rule[1] + 1)
                return tz.tzrange("STD", std, "DST", dst, rd(on, on[2]), rd(off, off[2] - (dst - std)))
            ds.append(Desc("tzrange:yday-" + name, "tzrange", mk_range, init, trans, avoid, ons))
        if "tzical" in kinds:
            def rr(rule, until):
                if rule[0] == "J":
                    dd = yday_date(2001, "J", rule[1])
                    return "FREQ=YEARLY;BYMONTH=%d;BYMONTHDAY=%d;UNTIL=%s" % (dd.month, dd.day, until.strftime("%Y%m%dT%H%M%S"))
                return "FREQ=YEARLY;BYYEARDAY=%d;UNTIL=%s" % (rule[1] + 1, until.strftime("%Y%m%dT%H%M%S"))
            d_on = [x for x in ons if x[5]]
            d_off = [x for x in ons if not x[5]]
            comps = [("DAYLIGHT", d_on[0][2], std, dst, "DST", rr(on, d_on[-1][2] + D.timedelta(days=1))),
                     ("STANDARD", d_off[0][2], dst, std, "STD", rr(off, d_off[-1][2] + D.timedelta(days=1)))]
            text = vtimezone("yday-" + name, comps, [0, 1])
            ds.append(Desc("tzical:yday-%s" % name, "tzical", lambda text=text: tz.tzical(io.StringIO(text)).get(),
                           init, trans, avoid + [(-10 ** 12, ons[1][0] + 3 * 86400)], ons))
        for d in ds:
            d.leap_and_common = True
        out += ds
    return out


def extra_descs():
    """deterministic descriptions (no random choices): sub-minute iCalendar offsets, day-of-year rules"""
    return posix_descs(("tzical",), SEC_POSIX) + sec_fixed_descs() + yday_descs()


# ------------------------------------------------------------------------------ the stream
def instants_for(desc, r, years, nrand):
    us = set()
    for (u, o, _w, fr, to, _d) in desc.tight:
        y = (EPOCH + D.timedelta(seconds=u)).year
        if y not in years:
            continue
        d = to - fr
        for k in (0, 1, -1, d, -d, d - 1, -d - 1, -d + 1, d + 1, 1800, -1800, 3600, -3600, 7200, -7200, fr, -fr, to, -to, 86400, -86400):
            us.add(u + k)
    lo = desc.trans[0][0] if desc.trans else 0
    hi = desc.trans[-1][0] if desc.trans else 10 ** 9
    for _ in range(nrand):
        us.add(r.randint(min(lo, 3 * 10 ** 8), max(hi, 16 * 10 ** 8)))
    return [u for u in us if not desc.avoided(u)]


def run(cid, o, tier):
    """Returns (n, bad, stats).  bad = [{zone, u | w, why, impl, expected}]."""
    from dateutil import tz
    r = C.rng("genzones/" + cid)
    descs = posix_descs(("tzlocal", "tzstr", "tzrange", "tzical")) + extra_descs()
    nmulti = 14 if tier == "quick" else 120
    k = 0
    while sum(1 for d in descs if d.kind == "tzical-multi") < nmulti and k < 10 * nmulti:
        d = multi_era_desc(r, k)
        k += 1
        if d is not None:
            descs.append(d)
    n, bad, stats = 0, [], {}
    old_tz = os.environ.get("TZ")
    for desc in descs:
        ys = sorted(set(r.sample(range(Y0 + 2, Y1 - 1), 3 if tier == "quick" else 12)))
        if desc.kind == "tzical-multi":
            ys = sorted(set(ys) | set(r.sample(range(Y0 + 2, Y1 - 1), 3)))
        if getattr(desc, "leap_and_common", False):   # day-of-year rules: leap AND common years, always
            leap = [y for y in range(Y0 + 2, Y1 - 1) if calendar.isleap(y)]
            comm = [y for y in range(Y0 + 2, Y1 - 1) if not calendar.isleap(y)]
            ys = sorted(r.sample(leap, 2) + r.sample(comm, 2))
        if getattr(desc, "all_years", False):
            ys = list(range(Y0, Y1 + 1))
        us = instants_for(desc, r, ys, 14 if tier == "quick" else 60)
        # era boundaries of multi-era zones: the generic layer assumes a constant standard offset;
        # instants closer than 3 days to a change of the standard offset are kept out of this stream
        # changes of the STANDARD offset of a multi-era iCalendar zone (finding F-C04/C05-tzical-std-change): only
        # instants within |change| of such a change are taken out of the main comparison (they are probed by the
        # sub-stream below and routed to the finding); everything further away is graded normally
        prev_off = dict(desc.trans)
        changes = []
        for b in getattr(desc, "era_boundaries", []):
            before_b = [o2 for (t2, o2) in [(-10 ** 12, desc.init)] + desc.trans if t2 < b][-1]
            # the generic layer reads the UTC fields as wall time: it misjudges the era up to the size of the
            # offsets involved (measured: no failure beyond max(|old|, |new|, |change|))
            changes.append((b, max(abs(before_b), abs(prev_off[b]), abs(prev_off[b] - before_b)), before_b, prev_off[b]))

        def near_change(u):
            for (b, ch, _old, _new) in changes:
                if abs(u - b) <= ch:
                    return (b, ch, _old, _new)
            return None
        for (b, ch, _o1, _o2) in changes:          # the band just outside the window is part of the main stream
            for x in (-abs(ch) - 1, -abs(ch) - 1800, -abs(ch) - 3600, -2 * abs(ch) - 60, abs(ch) + 1, abs(ch) + 1800,
                      abs(ch) + 3600, 2 * abs(ch) + 60, 86400, -86400, 2 * 86400, -2 * 86400):
                if not desc.avoided(b + x):
                    us.append(b + x)
        us = sorted(set(u for u in us if near_change(u) is None))
        if not us:
            continue
        raw = desc.raw()
        rep = o.call(6, T.raw_args(raw))
        ref_bytes = bytes(rep[1:])
        inf = T.info(o, ref_bytes)
        if rep[0] != 1 or inf.get("err") or not inf.get("wf_zone") or not inf.get("good"):
            bad.append({"zone": desc.name, "why": "reference zone is not well formed (harness)", "info": inf})
            continue
        r.shuffle(us)                               # one zone OBJECT, many instants, shuffled order
        z = desc.make()
        sp = T.spec_utc(o, ref_bytes, us)
        first = {}
        cnt0 = n
        for k2, u in enumerate(us):
            n += 1
            im = T.impl_obs_utc(z, u, 0)
            first[u] = im
            off, loc, fold = sp[k2]
            why = None
            if not T.is_ok(im) or not (T.is_ok(im[2]) and T.is_ok(im[5])):
                why = "exception"
            elif im[0] != loc:
                why = "wall reading is not the instant plus the offset in force"
            elif im[2] != off:
                why = "utcoffset is not the offset in force"
            elif im[2] != im[0] - u:
                why = "utcoffset != wall - utc"
            elif im[5] != u:
                why = "return trip does not give the instant back"
            elif im[1] != fold and cid == "C05":
                why = "fold is not 'an earlier instant has the same wall reading'"
            if why and (cid == "C04" or "fold" in why or cid == "C05"):
                bad.append({"zone": desc.name, "u": u, "why": why, "impl": im, "expected": [off, loc, fold]})
        # instants next to a change of the STANDARD offset (multi-era iCalendar zones, C04 only): the
        # generic layer assumes utcoffset - dst constant; failures there are the class of finding
        # F-C04-tzical-std-change and are reported with near_std_change = True
        eb = []
        for (b, ch, _o1, _o2) in changes:
            d_ = abs(ch)
            for x in (-d_, -d_ // 2, -1800, -1, 0, 1, 1800, d_ // 2, d_ - 1, d_):
                if not desc.avoided(b + x) and near_change(b + x) is not None:
                    eb.append(b + x)
        eb = sorted(set(eb))
        if eb:
            spb = T.spec_utc(o, ref_bytes, eb)
            reported = 0
            for k2, u in enumerate(eb):
                n += 1
                im = T.impl_obs_utc(z, u, 0)
                off, loc, fold = spb[k2]
                impl_ok = bool(T.is_ok(im) and T.is_ok(im[2]) and T.is_ok(im[5]))
                wrong = (not impl_ok) or im[0] != loc or im[2] != off or im[5] != u or (cid == "C05" and im[1] != fold)
                if wrong and reported < 1:
                    reported += 1
                    b_, ch_, old_, new_ = near_change(u)
                    bad.append({"zone": desc.name, "u": u, "near_std_change": True, "distance": u - b_,
                                "old_offset": old_, "new_offset": new_, "impl_ok": impl_ok,
                                "why": "next to a change of the zone's standard offset: wall reading / utcoffset / fold "
                                       "are not those in force at the instant",
                                "impl": im, "expected": [off, loc, fold], "vtimezone": desc.text})
        # second pass in another order through the SAME object: answers must not depend on history
        for u in sorted(us)[:: max(1, len(us) // 40)]:
            n += 1
            im = T.impl_obs_utc(z, u, 0)
            if im != first[u]:
                bad.append({"zone": desc.name, "u": u, "why": "answer depends on which instants were converted before",
                            "impl": im, "expected": first[u]})
        if cid == "C05":
            ws = set()
            for (u, o_, _w, fr, to, _d) in desc.tight:
                y = (EPOCH + D.timedelta(seconds=u)).year
                if y not in ys or desc.avoided(u) or near_change(u) is not None:
                    continue
                a, b = u + min(fr, to), u + max(fr, to)
                for x in (a, b):
                    for k3 in (-2, -1, 0, 1, 2):
                        ws.add(x + k3)
                ws.add((a + b) // 2)
                ws.update(r.randint(a, b) for _ in range(3))
                ws.add(a - 3600)
                ws.add(b + 3600)
            ws = sorted(ws)
            r.shuffle(ws)
            spw = T.spec_wall(o, ref_bytes, ws)
            # the PEP-495 wall lookup A_utcoffset (= the tzfile model on the reference stream): an
            # iCalendar zone's _find_comp must compute the same offset for EVERY (wall, fold), imaginary
            # times included (that is the assumption under which C04_generic_on_piecewise_zone applies)
            mow = T.model_obs_wall(o, ref_bytes, [(w, f) for w in ws for f in (0, 1)]) \
                if desc.kind.startswith("tzical") else None
            for k3, w in enumerate(ws):
                s = spw[k3]
                npre = len(s["pre"])
                for f in (0, 1):
                    n += 1
                    im = T.impl_obs_wall(z, w, f)
                    offw, dstw, nm, amb, ex, rs = im
                    why = None
                    if not all(T.is_ok(x) for x in (offw, amb, ex, rs)):
                        why = "exception"
                    elif mow is not None and offw != mow[2 * k3 + f][0]:
                        why = "utcoffset of a (wall, fold) pair is not the PEP-495 wall lookup of the zone's definition"
                    elif ex != int(npre >= 1):
                        why = "datetime_exists disagrees with the number of UTC pre-images"
                    elif amb != int(npre == 2):
                        why = "datetime_ambiguous disagrees with the number of UTC pre-images"
                    elif npre >= 1 and w - offw != (s["utc1"] if f else s["utc0"]):
                        why = "fold does not select the earlier/later instant"
                    elif npre >= 1 and rs != (w, f):
                        why = "resolve_imaginary changed an existing wall time"
                    elif npre == 0 and rs[0] != s["resolve"]:
                        why = "resolve_imaginary does not move forward by the width of the gap"
                    if why:
                        bad.append({"zone": desc.name, "w": w, "fold": f, "why": why, "impl": im, "expected": s})
        stats[desc.name] = n - cnt0
    if old_tz is None:
        os.environ.pop("TZ", None)
    else:
        os.environ["TZ"] = old_tz
    _time.tzset()
    return n, bad, stats


# ------------------------------------------------------------------------------ two threads, one zone object
def thread_stress(seconds=1.5, nthreads=4):
    """Several threads convert summer / winter / repeated-hour instants through ONE iCalendar zone
    object (its component cache holds 10 entries, so hits and updates interleave); every answer is
    compared with the single-threaded one.  Returns (conversions, mismatches)."""
    import sys as _sys
    import threading
    from dateutil import tz
    d = [x for x in posix_descs(("tzical",)) if x.name.startswith("tzical:us-eastern")][0]
    z0 = d.make()
    base = [t for (t, _o) in d.trans if secs(D.datetime(2015, 1, 1)) < t < secs(D.datetime(2022, 1, 1))]
    us = []
    for t in base:
        us += [t - 5400, t - 1800, t + 1800, t + 5400, t + 40 * 86400, t - 40 * 86400]
    expected = dict((u, T.impl_obs_utc(z0, u, 0)) for u in us)
    z = d.make()
    bad, count = [], [0]
    stop = _time.time() + seconds
    old = _sys.getswitchinterval()
    _sys.setswitchinterval(1e-6)

    def work(seed):
        rr = C.rng("stress/%d" % seed)
        while _time.time() < stop and len(bad) < 5:
            u = rr.choice(us)
            got = T.impl_obs_utc(z, u, 0)
            count[0] += 1
            if got != expected[u]:
                bad.append({"zone": d.name, "u": u, "why": "two threads on one zone object: answer differs from the "
                            "single-threaded one", "impl": got, "expected": expected[u]})
    try:
        th = [threading.Thread(target=work, args=(i,)) for i in range(nthreads)]
        for t in th:
            t.start()
        for t in th:
            t.join()
    finally:
        _sys.setswitchinterval(old)
    return count[0], bad


# ------------------------------------------------------------------------------ zones WITHOUT is_ambiguous()
class RefTz(D.tzinfo):
    """A hand-written PEP 495 tzinfo over a piecewise-constant offset function (no is_ambiguous
    method, dst() always zero: repeated intervals caused by changes of the STANDARD offset)."""

    def __init__(self, init, trans):
        self.init, self.trans = init, list(trans)
        self.ts = [t for t, _o in self.trans]
        self.offs = [init] + [o for _t, o in self.trans]

    def _off_utc(self, u):
        import bisect
        return self.offs[bisect.bisect_right(self.ts, u)]

    def _pre(self, w):
        return sorted(set(w - o for o in set(self.offs) if self._off_utc(w - o) == o))

    def utcoffset(self, dt):
        w = secs(dt.replace(tzinfo=None))
        pre = self._pre(w)
        if pre:
            return D.timedelta(seconds=self._off_utc(pre[-1] if dt.fold else pre[0]))
        for k, (t, o) in enumerate(self.trans):          # imaginary: PEP 495
            p = self.offs[k]
            if t + p <= w < t + o:
                return D.timedelta(seconds=o if dt.fold else p)
        raise AssertionError("reference zone: wall time neither existing nor in a gap")

    def dst(self, dt):
        return D.timedelta(0)

    def tzname(self, dt):
        return "REF"

    def fromutc(self, dt):
        u = secs(dt.replace(tzinfo=None))
        w = u + self._off_utc(u)
        pre = self._pre(w)
        return (EPOCH + D.timedelta(seconds=w, microseconds=dt.microsecond)).replace(tzinfo=self, fold=int(pre[0] < u))


FOREIGN_ZONES = ["America/Caracas", "Europe/Moscow", "Asia/Pyongyang", "Europe/Dublin", "America/New_York",
                 "Pacific/Apia", "Africa/Monrovia", "Australia/Lord_Howe", "America/Adak", "Asia/Kathmandu"]


def run_foreign(o, tier):
    """tz.datetime_ambiguous / datetime_exists / resolve_imaginary on zones that have NO is_ambiguous()
    (module-level fallback paths): the stdlib zoneinfo.ZoneInfo read from corpus TZif bytes and a
    hand-written PEP 495 tzinfo over the same transitions; expected values from the extracted SPEC."""
    import zoneinfo
    from dateutil import tz
    r = C.rng("foreign")
    run_foreign.gap_reported_ambiguous = 0
    names = T.unpack_corpus()
    zl = [z for z in FOREIGN_ZONES if z in names]
    if tier != "quick":
        rest = sorted(set(names.values()) - set(names[z] for z in zl))
        zl += r.sample(rest, 60)
    n, bad = 0, []
    for zn in zl:
        b = T.zone_bytes(zn, names)
        inf = T.info(o, b)
        if inf.get("err") or not inf.get("wf_zone") or len(inf["trans"]) < 3:
            continue
        tr = inf["trans"]
        zones = [("RefTz:" + zn, RefTz(inf["init"], tr))]
        try:
            zones.append(("ZoneInfo:" + zn, zoneinfo.ZoneInfo.from_file(io.BytesIO(b))))
        except Exception:
            pass
        # wall times around the transitions strictly inside the version-1 range
        idx = list(range(1, len(tr) - 2))
        if len(idx) > (25 if tier == "quick" else 80):
            keep = [i for i in idx if tr[i][1] != tr[i - 1][1]]
            idx = sorted(set(r.sample(keep, min(len(keep), 25 if tier == "quick" else 80))))
        ws = set()
        for i in idx:
            t, oo = tr[i]
            p = tr[i - 1][1]
            a, bb = t + min(p, oo), t + max(p, oo)
            for x in (a - 1, a, (a + bb) // 2, bb - 1, bb, a - 3600, bb + 3600):
                if tr[1][0] + 2 * 86400 < x < tr[-2][0] - 2 * 86400:
                    ws.add(x)
        ws = sorted(ws)
        if not ws:
            continue
        sp = T.spec_wall(o, b, ws)
        for zname, z in zones:
            for k, w in enumerate(ws):
                s = sp[k]
                npre = len(s["pre"])
                for f in (0, 1):
                    n += 1
                    naive = (EPOCH + D.timedelta(seconds=w)).replace(fold=f)
                    aware = naive.replace(tzinfo=z)
                    got = T.guard(lambda: (int(bool(tz.datetime_ambiguous(naive, z))), int(bool(tz.datetime_ambiguous(aware))),
                                           int(bool(tz.datetime_exists(naive, z))),
                                           T.naive_s(tz.resolve_imaginary(aware))[0]))
                    why = None
                    if not T.is_ok(got):
                        why = "exception"
                    elif npre == 0 and (got[0] or got[1]):
                        # observation, not graded: for a PEP 495 zone the fold changes utcoffset() inside a gap as
                        # well, so the fallback calls imaginary times ambiguous (foreign tzinfo objects are outside
                        # the zone set of C05; see notes/tzfile.md)
                        run_foreign.gap_reported_ambiguous += 1
                    elif npre >= 1 and (got[0] != int(npre == 2) or got[1] != int(npre == 2)):
                        why = "datetime_ambiguous (zone without is_ambiguous) disagrees with the number of UTC pre-images"
                    elif got[2] != int(npre >= 1):
                        why = "datetime_exists (zone without is_ambiguous) disagrees with the number of UTC pre-images"
                    elif npre >= 1 and got[3] != w:
                        why = "resolve_imaginary changed an existing wall time"
                    elif npre == 0 and got[3] != s["resolve"]:
                        why = "resolve_imaginary does not move forward by the width of the gap"
                    if why:
                        bad.append({"zone": zname, "w": w, "fold": f, "why": why, "impl": got, "expected": s})
    return n, bad
