#!/usr/bin/env python3
"""MANIFEST.setup_cmd: regenerate gen files from /repo, full .vo build, extract + link all oracles."""
import glob
import os
import sys
sys.path.insert(0, os.path.dirname(os.path.abspath(__file__)))
import common as C

areas = []
for p in sorted(glob.glob(os.path.join(C.COQ, "extract", "Extract*.v"))):
    n = os.path.basename(p)[len("Extract"):-2]
    areas.append(n[0].lower() + n[1:])
try:
    ok, log = C.ensure_built(areas)
except C.BuildError as ex:
    print(ex.what)
    print(ex.log[-5000:])
    sys.exit(1)
print(log[-3000:])
print("setup: coq build %s; oracles: %s" % ("ok" if ok else "FAILED", ", ".join(areas)))
# a proof broken by a regenerated file is reported by the check that owns it, not by setup
sys.exit(0)
