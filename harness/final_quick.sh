#!/bin/bash
# lead's final pass: every registered quick check once on /repo (refreshes evidence/), summary table
cd /verif
for i in 01 02 03 04 05 06 07 08 09 10 11 12 13 14 15 16 17 18 19 20; do
  c=C$i; t0=$(date +%s)
  VERIF_SEED=${VERIF_SEED:-0} timeout 2400 ./check $c quick > /tmp/final_$c.log 2>&1; rc=$?
  echo "$c rc=$rc $(( $(date +%s)-t0 ))s viol=$(grep -c ^VIOLATION /tmp/final_$c.log) known=$(grep -c ^KNOWN /tmp/final_$c.log) | $(grep -v '^KNOWN\|^VIOLATION' /tmp/final_$c.log | tail -1 | cut -c1-110)"
done
