#!/usr/bin/env python3
"""Fail-closed translator: /repo/src/dateutil/parser/isoparser.py  ->  coq/gen/IsoGen.v

Every method of the ISO parser is translated from its Python AST into a Gallina definition
`gen_<name>` written in the vocabulary of coq/iso/IsoBase.v, IsoModel.v and IsoGenLib.v;
coq/iso/IsoGenThm.v proves `gen_<name> = <hand model>` for all inputs, so a change of the source
either aborts this translator or breaks one of those obligations.

ACCEPTED SUBSET (anything else raises TranslateError = broken proof obligation):
  functions  : module-level _parse_digits; isoparser methods _parse_tzstr, _calculate_weekdate,
               _parse_isodate_common, _parse_isodate_uncommon, _parse_isodate, _parse_isotime, isoparse,
               parse_isodate, parse_isotime, parse_tzstr, with exactly the parameter names of SIGS;
               the decorator _takes_ascii itself (-> gen_takes_ascii over the input kinds str / bytes / stream of
               either, see translate_takes_ascii); class constants _DATE_SEP, _TIME_SEP (bytes
               literals) and _FRACTION_REGEX = re.compile(b'[\\\\.,]([0-9]+)') (-> frac_match).
               isoparser.__init__ and the module tail are NOT translated: they are pinned by
               the hash of their AST (any edit aborts) and stay hand-modelled (init_sep).
  module     : also pinned by hash: the import statements (so date / datetime / time / timedelta / calendar / tz /
               re / six / wraps are the names the translator takes them for) and the argument expressions of every
               `raise ValueError(...)` (they are not evaluated by the model).  Module-level statements other than
               the docstring, imports, the pinned tail assignments, _takes_ascii, _parse_digits and
               `class isoparser(object)` (no decorators, no keywords) abort; so does any binding (assignment,
               parameter, loop / except / comprehension variable) of a name the translator gives a fixed meaning
               (len int any date datetime time timedelta calendar tz re six ValueError OverflowError ...).
  statements : docstring; x = e; x op= e (+=, -=); lst[i] = e; a, b = call; lst += call;
               if / elif / else (continuations are duplicated into the branches); return e;
               raise ValueError(...) and six.raise_from(ValueError(...), e) (arguments ignored);
               try: <one assignment or return> except <ValueError|OverflowError> [as e]: <return e | raise ValueError>;
               while <pure cond>: ... with break / continue (-> Fixpoint on explicit fuel, Err OutOfFuel).
  expressions: int / bytes / bool / None constants, names, self._CONST, self._sep, + - * ** on ints
               (int + bool adds b2z), unary -, comparisons (chained; ==, != on bytes are beq; `in` / `not in` an
               int set literal; a one-byte slice `in` a bytes literal; `is None`), and / or / not on PURE operands,
               conditional expressions, len(), int(), byte slices b[lo:hi] b[lo:] b[:hi] (Python clamping),
               b.isdigit(), list literals / static indexing / static slicing of fixed-length lists (lists are
               replaced by one Coq variable per slot; a store with a run-time index is a typed case analysis,
               a store outside the same-typed slots is Err Unmodelled), any(<pure> for v in <static list slice>),
               date(y, m, d), date(*lst), datetime(*lst), time(*lst), d +- timedelta(days=e), dt + timedelta(days=e),
               d.year/.month/.day, d.isocalendar()[k], calendar.isleap(y), tz.UTC, tz.tzoffset(None, e),
               self._FRACTION_REGEX.match(b), m.group(1), m.group(), `if not m:` on a match object,
               calls of the translated functions (keyword / default arguments resolved).
Python ints are Z; every call that can raise is sequenced with `bind` in evaluation order.
"""
import ast
import hashlib
import os
import sys


class TranslateError(Exception):
    pass


def bail(msg, node=None):
    if node is not None:
        msg += " at line %s: %s" % (getattr(node, "lineno", "?"), ast.dump(node)[:160])
    raise TranslateError(msg)


INT, BOOL, BYTES, DATE, TZ, MATCH, MATCHED, OPTBYTES, DATETIME, TIME = (
    "int", "bool", "bytes", "date", "tz", "match", "matched", "optbytes", "datetime", "time")
L3 = ("list", (INT, INT, INT))
L5 = ("list", (INT, INT, INT, INT, TZ))
DPOS = ("tuple", (L3, INT))

# name -> (parameters [(name, type, default text or None)], return type, decorated?, self attributes used)
SIGS = {
    "_parse_digits": ([("field", BYTES, None), ("width", INT, None)], INT, False),
    "_parse_tzstr": ([("tzstr", BYTES, None), ("zero_as_utc", BOOL, "true")], TZ, False),
    "_calculate_weekdate": ([("year", INT, None), ("week", INT, None), ("day", INT, None)], DATE, False),
    "_parse_isodate_common": ([("dt_str", BYTES, None)], DPOS, False),
    "_parse_isodate_uncommon": ([("dt_str", BYTES, None)], DPOS, False),
    "_parse_isodate": ([("dt_str", BYTES, None)], DPOS, False),
    "_parse_isotime": ([("timestr", BYTES, None)], L5, False),
    "isoparse": ([("dt_str", BYTES, None)], DATETIME, True),
    "parse_isodate": ([("datestr", BYTES, None)], DATE, True),
    "parse_isotime": ([("timestr", BYTES, None)], TIME, True),
    "parse_tzstr": ([("tzstr", BYTES, None), ("zero_as_utc", BOOL, "true")], TZ, True),
}
ORDER = ["_parse_digits", "_parse_tzstr", "_calculate_weekdate", "_parse_isodate_common",
         "_parse_isodate_uncommon", "_parse_isodate", "_parse_isotime", "isoparse", "parse_isodate",
         "parse_isotime", "parse_tzstr"]
USES_SEP = {"isoparse"}
LOOP_FUEL = {"_parse_isotime": 6}          # justified by the theorems: OutOfFuel is never returned
FRACTION_PATTERN = b"[\\.,]([0-9]+)"
# sha256 of ast.dump of the untranslated, hand-modelled parts (docstrings removed)
PINNED = {
    "__init__": "c2c4e97ac9781732",
    "tail": "a556a95a63408b0e",
    "imports": "d811d784b5ece1dc",
    "raise_args": "71f1d2acf927b766",
}
# names with a fixed meaning in the translator: they must not be rebound anywhere in the translated code
RESERVED = {"len", "int", "any", "ord", "getattr", "isinstance", "bytearray", "date", "datetime", "time", "timedelta",
            "calendar", "tz", "re", "six", "wraps", "ValueError", "OverflowError", "UnicodeEncodeError", "Exception",
            "True", "False", "None", "_parse_digits", "_takes_ascii", "isoparser", "object", "bytes", "str"}
IN, PAYLOAD, TEXT = "pyin", "payload", "text"

COQTY = {IN: "pyin", INT: "Z", BOOL: "bool", BYTES: "list Z", DATE: "date3", TZ: "tzv", OPTBYTES: "option (list Z)",
         DATETIME: "dt8", TIME: "time5"}


def coqty(t):
    if isinstance(t, tuple):
        return "(" + " * ".join(coqty(x) for x in t[1]) + ")"
    return COQTY[t]


def is_list(t):
    return isinstance(t, tuple) and t[0] == "list"


def lit(n):
    return str(n) if n >= 0 else "(%d)" % n


def bytes_lit(b):
    return "[" + "; ".join(str(x) for x in b) + "]"


def is_int_lit(s):
    s = s.strip("()")
    return s.lstrip("-").isdigit()


def int_of(s):
    return int(s.strip("()"))


class Fn:
    def __init__(self, name, consts):
        self.name = name
        self.consts = consts
        self.n = 0
        self.aux = []
        self.loop = None
        self.ret = SIGS[name][1]

    def tmp(self, base="t"):
        self.n += 1
        return "%s_%d" % (base, self.n)


# ------------------------------------------------------------------------------------ environments

def slots(name, t):
    return ["v_%s_%d" % (name, i) for i in range(len(t[1]))]


def value_text(name, t):
    if is_list(t):
        return "(" + ", ".join(slots(name, t)) + ")"
    return "v_" + name


def flat(env):
    out = []
    for name, t in env.items():
        if is_list(t):
            out += list(zip(slots(name, t), t[1]))
        elif t in (MATCH, MATCHED):
            continue
        else:
            out.append(("v_" + name, t))
    return out


def pattern(t, base, fn):
    """Coq pattern + list of (name, type) for binding a value of (possibly nested) type t"""
    if isinstance(t, tuple):
        parts, names = [], []
        for i, x in enumerate(t[1]):
            p, n = pattern(x, "%s_%d" % (base, i), fn)
            parts.append(p)
            names += n
        return "(" + ", ".join(parts) + ")", names
    return base, [(base, t)]


# ------------------------------------------------------------------------------------ expressions (CPS)

HOLE = "@@HOLE@@"


def pure(fn, e, env):
    got = []

    def k(t, ty):
        got.append((t, ty))
        return HOLE
    code = ex(fn, e, env, k)
    if code != HOLE or len(got) != 1:
        bail("expression must be free of calls that can raise here", e)
    return got[0]


def static_list(fn, e, env):
    """a fixed-length list expression -> [(text, type)]"""
    if isinstance(e, ast.Name) and is_list(env.get(e.id)):
        t = env[e.id]
        return list(zip(slots(e.id, t), t[1]))
    if isinstance(e, ast.List):
        return [pure(fn, x, env) for x in e.elts]
    if isinstance(e, ast.Subscript) and isinstance(e.slice, ast.Slice) and e.slice.step is None:
        base = static_list(fn, e.value, env)

        def bound(b, dflt):
            if b is None:
                return dflt
            if isinstance(b, ast.Constant) and isinstance(b.value, int):
                return b.value
            if (isinstance(b, ast.UnaryOp) and isinstance(b.op, ast.USub) and isinstance(b.operand, ast.Constant)
                    and isinstance(b.operand.value, int)):
                return -b.operand.value
            bail("list slice bounds must be integer constants", e)
        return base[slice(bound(e.slice.lower, None), bound(e.slice.upper, None))]
    bail("not a fixed-length list expression", e)


def timedelta_days(e):
    if (isinstance(e, ast.Call) and isinstance(e.func, ast.Name) and e.func.id == "timedelta" and not e.args
            and len(e.keywords) == 1 and e.keywords[0].arg == "days"):
        return e.keywords[0].value
    return None


def ex(fn, e, env, k):
    if isinstance(e, ast.Constant):
        v = e.value
        if isinstance(v, bool):
            return k("true" if v else "false", BOOL)
        if isinstance(v, int):
            return k(lit(v), INT)
        if isinstance(v, bytes):
            return k(bytes_lit(v), BYTES)
        if v is None:
            return k("TzNone", TZ)
        bail("unsupported constant", e)
    if isinstance(e, ast.Name):
        if e.id not in env:
            bail("unbound name " + e.id, e)
        t = env[e.id]
        if t in (MATCH, MATCHED):
            bail("match object used as a value", e)
        return k(value_text(e.id, t), t)
    if isinstance(e, ast.Attribute):
        if isinstance(e.value, ast.Name) and e.value.id == "self":
            if e.attr in fn.consts:
                return k(bytes_lit(fn.consts[e.attr]), BYTES)
            if e.attr == "_sep" and fn.name in USES_SEP:
                return k("v_self_sep", OPTBYTES)
            bail("unsupported attribute of self", e)
        if isinstance(e.value, ast.Name) and e.value.id == "tz" and e.attr == "UTC":
            return k("TzUTC", TZ)
        if e.attr in ("year", "month", "day"):
            def k1(t, ty):
                if ty != DATE:
                    bail(".%s of a non-date" % e.attr, e)
                return k("(date_%s %s)" % (e.attr, t), INT)
            return ex(fn, e.value, env, k1)
        bail("unsupported attribute", e)
    if isinstance(e, ast.UnaryOp):
        if isinstance(e.op, ast.USub):
            return ex(fn, e.operand, env, lambda t, ty: k("(- %s)" % t, INT) if ty == INT else bail("- on non-int", e))
        if isinstance(e.op, ast.Not):
            t, ty = pure(fn, e.operand, env)
            if ty != BOOL:
                bail("not on a non-bool", e)
            return k("true" if t == "false" else "false" if t == "true" else "(negb %s)" % t, BOOL)
        bail("unsupported unary operator", e)
    if isinstance(e, ast.BinOp):
        days = timedelta_days(e.right)
        if days is not None and isinstance(e.op, (ast.Add, ast.Sub)):
            sign = "" if isinstance(e.op, ast.Add) else "- "

            def kl(lt, lty):
                def kd(dt, dty):
                    if dty != INT:
                        bail("timedelta(days=non-int)", e)
                    r = fn.tmp()
                    amount = dt if not sign else "(- %s)" % dt
                    if lty == DATE:
                        return "bind (date_add_days %s %s) (fun %s =>\n%s)" % (lt, amount, r, k(r, DATE))
                    if lty == DATETIME:
                        return "bind (datetime_add_days %s %s) (fun %s =>\n%s)" % (lt, amount, r, k(r, DATETIME))
                    bail("timedelta added to a non-date", e)
                return ex(fn, days, env, kd)
            return ex(fn, e.left, env, kl)
        ops = {ast.Add: "+", ast.Sub: "-", ast.Mult: "*", ast.Pow: "^"}
        if type(e.op) not in ops:
            bail("unsupported binary operator", e)

        def kl(lt, lty):
            def kr(rt, rty):
                a, b = lt, rt
                if lty == BOOL:
                    a = "(b2z %s)" % lt
                elif lty != INT:
                    bail("arithmetic on non-int", e)
                if rty == BOOL:
                    b = "(b2z %s)" % rt
                elif rty != INT:
                    bail("arithmetic on non-int", e)
                return k("(%s %s %s)" % (a, ops[type(e.op)], b), INT)
            return ex(fn, e.right, env, kr)
        return ex(fn, e.left, env, kl)
    if isinstance(e, ast.BoolOp):
        isand = isinstance(e.op, ast.And)
        parts = []
        for v in e.values:
            t, ty = pure(fn, v, env) if True else None
            if ty != BOOL:
                bail("and/or on a non-bool", v)
            if isand and t == "false":
                return k("false", BOOL)
            if (not isand) and t == "true":
                return k("true", BOOL)
            if (isand and t == "true") or ((not isand) and t == "false"):
                continue
            parts.append(t)
        if not parts:
            return k("true" if isand else "false", BOOL)
        if len(parts) == 1:
            return k(parts[0], BOOL)
        return k("(" + (" && " if isand else " || ").join(parts) + ")", BOOL)
    if isinstance(e, ast.IfExp):
        c, cty = pure(fn, e.test, env)
        a, aty = pure(fn, e.body, env)
        b, bty = pure(fn, e.orelse, env)
        if cty != BOOL or aty != bty:
            bail("ill-typed conditional expression", e)
        return k("(if %s then %s else %s)" % (c, a, b), aty)
    if isinstance(e, ast.Compare):
        return compare(fn, e, env, k)
    if isinstance(e, ast.Subscript):
        return subscript(fn, e, env, k)
    if isinstance(e, ast.Call):
        return call(fn, e, env, k)
    if isinstance(e, ast.Tuple):
        return sequence(fn, e.elts, env, lambda ts: k("(" + ", ".join(t for t, _ in ts) + ")",
                                                      ("tuple", tuple(ty for _, ty in ts))))
    if isinstance(e, ast.List):
        return sequence(fn, e.elts, env, lambda ts: k("(" + ", ".join(t for t, _ in ts) + ")",
                                                      ("list", tuple(ty for _, ty in ts))))
    bail("unsupported expression", e)


def sequence(fn, es, env, k):
    """evaluate expressions left to right"""
    def go(i, acc):
        if i == len(es):
            return k(acc)
        return ex(fn, es[i], env, lambda t, ty: go(i + 1, acc + [(t, ty)]))
    return go(0, [])


def compare(fn, e, env, k):
    # operands of comparisons must be pure (conditions are duplicated / reordered freely)
    parts = []
    left = e.left
    for op, right in zip(e.ops, e.comparators):
        parts.append(compare1(fn, left, op, right, env, e))
        left = right
    if "false" in parts:
        return k("false", BOOL)
    parts = [p for p in parts if p != "true"]
    if not parts:
        return k("true", BOOL)
    return k(parts[0] if len(parts) == 1 else "(" + " && ".join(parts) + ")", BOOL)


def compare1(fn, left, op, right, env, whole):
    if isinstance(op, (ast.Is, ast.IsNot)):
        if not (isinstance(right, ast.Constant) and right.value is None):
            bail("`is` only against None", whole)
        t, ty = pure(fn, left, env)
        if ty != OPTBYTES:
            bail("`is None` on a value that is never None in the model", whole)
        r = "(is_none %s)" % t
        return r if isinstance(op, ast.Is) else "(negb %s)" % r
    if isinstance(op, (ast.In, ast.NotIn)):
        neg = isinstance(op, ast.NotIn)
        if isinstance(right, ast.Set):
            t, ty = pure(fn, left, env)
            vals = [pure(fn, x, env) for x in right.elts]
            if ty != INT or any(vt != INT for _, vt in vals):
                bail("set membership on non-ints", whole)
            r = "(" + " || ".join("(%s =? %s)" % (t, v) for v, _ in vals) + ")"
        elif isinstance(right, ast.Constant) and isinstance(right.value, bytes):
            # x in b'....' is a substring test; only a slice of width <= 1 is accepted (b[p:p+1])
            s = left
            ok = (isinstance(s, ast.Subscript) and isinstance(s.slice, ast.Slice) and s.slice.step is None
                  and s.slice.lower is not None and s.slice.upper is not None
                  and isinstance(s.slice.upper, ast.BinOp) and isinstance(s.slice.upper.op, ast.Add)
                  and ast.dump(s.slice.upper.left) == ast.dump(s.slice.lower)
                  and isinstance(s.slice.upper.right, ast.Constant) and s.slice.upper.right.value == 1)
            if not ok:
                bail("`in <bytes>` needs a one-byte slice b[p:p+1] on the left", whole)
            t, ty = pure(fn, left, env)
            r = "(bytes_in1 %s %s)" % (t, bytes_lit(right.value))
        else:
            bail("unsupported membership test", whole)
        return "(negb %s)" % r if neg else r
    lt, lty = pure(fn, left, env)
    rt, rty = pure(fn, right, env)
    if lty == BOOL and rty == INT:
        lt, lty = "(b2z %s)" % lt, INT
    if rty == BOOL and lty == INT:
        rt, rty = "(b2z %s)" % rt, INT
    if lty == INT and rty == INT:
        if is_int_lit(lt) and is_int_lit(rt):
            a, b = int_of(lt), int_of(rt)
            val = {ast.Lt: a < b, ast.LtE: a <= b, ast.Gt: a > b, ast.GtE: a >= b, ast.Eq: a == b,
                   ast.NotEq: a != b}.get(type(op))
            if val is None:
                bail("unsupported comparison", whole)
            return "true" if val else "false"
        sym = {ast.Lt: "<?", ast.LtE: "<=?", ast.Gt: ">?", ast.GtE: ">=?", ast.Eq: "=?"}
        if type(op) in sym:
            return "(%s %s %s)" % (lt, sym[type(op)], rt)
        if isinstance(op, ast.NotEq):
            return "(negb (%s =? %s))" % (lt, rt)
        bail("unsupported comparison", whole)
    if isinstance(op, (ast.Eq, ast.NotEq)):
        if lty == BYTES and rty == BYTES:
            r = "(beq %s %s)" % (lt, rt)
        elif lty == BYTES and rty == OPTBYTES:
            r = "(beq_opt %s %s)" % (lt, rt)
        elif lty == BOOL and rty == BOOL:
            r = "(Bool.eqb %s %s)" % (lt, rt)
        else:
            bail("unsupported equality between %s and %s" % (lty, rty), whole)
        return r if isinstance(op, ast.Eq) else "(negb %s)" % r
    bail("unsupported comparison", whole)


def subscript(fn, e, env, k):
    sl = e.slice
    # fixed-length lists
    if isinstance(e.value, ast.Name) and is_list(env.get(e.value.id)):
        if isinstance(sl, ast.Slice):
            items = static_list(fn, e, env)
            return k("(" + ", ".join(t for t, _ in items) + ")", ("list", tuple(ty for _, ty in items)))
        items = static_list(fn, e.value, env)
        i = const_index(sl)
        if i is None:
            bail("reading a list at a run-time index is not supported", e)
        if not -len(items) <= i < len(items):
            bail("static IndexError", e)
        return k(*items[i])
    # d.isocalendar()[k]
    if (isinstance(e.value, ast.Call) and isinstance(e.value.func, ast.Attribute)
            and e.value.func.attr == "isocalendar" and not e.value.args and not e.value.keywords):
        i = const_index(sl)
        if i not in (0, 1, 2):
            bail("isocalendar() index must be 0, 1 or 2", e)

        def kd(t, ty):
            if ty != DATE:
                bail("isocalendar() of a non-date", e)
            return k("(iso_idx %s %d)" % (t, i), INT)
        return ex(fn, e.value.func.value, env, kd)
    # byte slices
    if isinstance(sl, ast.Slice) and sl.step is None:
        def kb(bt, bty):
            if bty != BYTES:
                bail("slice of a non-bytes value", e)
            lo = ("0", INT) if sl.lower is None else pure(fn, sl.lower, env)
            hi = None if sl.upper is None else pure(fn, sl.upper, env)
            if lo[1] != INT or (hi is not None and hi[1] != INT):
                bail("slice bounds must be ints", e)
            return k("(zsl %s %s %s)" % (bt, lo[0], "None" if hi is None else "(Some %s)" % hi[0]), BYTES)
        return ex(fn, e.value, env, kb)
    bail("unsupported subscript", e)


def const_index(n):
    if isinstance(n, ast.Constant) and isinstance(n.value, int) and not isinstance(n.value, bool):
        return n.value
    if (isinstance(n, ast.UnaryOp) and isinstance(n.op, ast.USub) and isinstance(n.operand, ast.Constant)
            and isinstance(n.operand.value, int)):
        return -n.operand.value
    return None


def bind_call(fn, text, rty, k):
    if isinstance(rty, tuple):
        r = fn.tmp("r")
        pat, names = pattern(rty, r + "x", fn)
        # rebuild a value text with the same nesting
        return "bind (%s) (fun %s => let '%s := %s in\n%s)" % (text, r, pat, r, k(pat, rty))
    r = fn.tmp()
    return "bind (%s) (fun %s =>\n%s)" % (text, r, k(r, rty))


def call(fn, e, env, k):
    f = e.func
    # ---- translated functions
    target = None
    if isinstance(f, ast.Name) and f.id in SIGS and not SIGS[f.id][2]:
        target = f.id
    if (isinstance(f, ast.Attribute) and isinstance(f.value, ast.Name) and f.value.id == "self"
            and f.attr in SIGS and f.attr != "_parse_digits"):
        target = f.attr
    if target is not None:
        params, rty, _dec = SIGS[target]
        if SIGS[target][2]:
            bail("call of a decorated entry point", e)
        given = {}
        if len(e.args) > len(params):
            bail("too many arguments", e)
        for (pn, _pt, _pd), a in zip(params, e.args):
            given[pn] = a
        for kw in e.keywords:
            if kw.arg is None or kw.arg in given or kw.arg not in [p[0] for p in params]:
                bail("bad keyword argument", e)
            given[kw.arg] = kw.value
        order = [a for a in e.args] + [kw.value for kw in e.keywords]      # Python evaluation order

        def after(vals):
            byid = {id(a): v for a, v in zip(order, vals)}
            texts = []
            for pn, pt, pd in params:
                if pn in given:
                    t, ty = byid[id(given[pn])]
                    if ty != pt:
                        bail("argument %s of %s has type %s, expected %s" % (pn, target, ty, pt), e)
                    texts.append(t)
                elif pd is not None:
                    texts.append(pd)
                else:
                    bail("missing argument " + pn, e)
            extra = " v_self_sep" if target in USES_SEP else ""
            return bind_call(fn, "gen_%s%s %s" % (target, extra, " ".join(texts)), rty, k)
        return sequence(fn, order, env, after)
    if e.keywords and not (isinstance(f, ast.Name) and f.id == "timedelta"):
        bail("keyword arguments are only supported for the translated functions", e)
    # ---- builtins
    if isinstance(f, ast.Name):
        if f.id == "len" and len(e.args) == 1:
            a = e.args[0]
            if isinstance(a, ast.Name) and is_list(env.get(a.id)):
                return k(lit(len(env[a.id][1])), INT)
            if (isinstance(a, ast.Call) and isinstance(a.func, ast.Attribute) and a.func.attr == "group"
                    and not a.args and isinstance(a.func.value, ast.Name) and env.get(a.func.value.id) == MATCHED):
                return k("(1 + zlen v_%s_ds)" % a.func.value.id, INT)       # [\.,] + group(1)
            return ex(fn, a, env, lambda t, ty: k("(zlen %s)" % t, INT) if ty == BYTES
                      else bail("len of unsupported value", e))
        if f.id == "int" and len(e.args) == 1:
            def ki(t, ty):
                if ty != BYTES:
                    bail("int() of a non-bytes value", e)
                return bind_call(fn, "py_int %s" % t, INT, k)
            return ex(fn, e.args[0], env, ki)
        if f.id == "any" and len(e.args) == 1 and isinstance(e.args[0], ast.GeneratorExp):
            g = e.args[0]
            if len(g.generators) != 1 or g.generators[0].ifs or not isinstance(g.generators[0].target, ast.Name):
                bail("unsupported generator", e)
            var = g.generators[0].target.id
            items = static_list(fn, g.generators[0].iter, env)
            parts = []
            for t, ty in items:
                env2 = dict(env)
                env2[var] = ty
                # substitute by a let: (let v_var := t in cond)
                c, cty = pure(fn, g.elt, env2)
                if cty != BOOL:
                    bail("any() over non-bools", e)
                parts.append("(let v_%s := %s in %s)" % (var, t, c))
            return k("(" + " || ".join(parts) + ")" if parts else "false", BOOL)
        if f.id in ("date", "datetime", "time"):
            if len(e.args) == 1 and isinstance(e.args[0], ast.Starred):
                items = static_list(fn, e.args[0].value, env)
                return construct(fn, f.id, items, e, k)
            return sequence(fn, e.args, env, lambda vals: construct(fn, f.id, vals, e, k))
        bail("unsupported function " + f.id, e)
    if isinstance(f, ast.Attribute):
        v = f.value
        if isinstance(v, ast.Name) and v.id == "calendar" and f.attr == "isleap" and len(e.args) == 1:
            return ex(fn, e.args[0], env, lambda t, ty: k("(is_leap %s)" % t, BOOL) if ty == INT
                      else bail("isleap of non-int", e))
        if isinstance(v, ast.Name) and v.id == "tz" and f.attr == "tzoffset" and len(e.args) == 2:
            if not (isinstance(e.args[0], ast.Constant) and e.args[0].value is None):
                bail("tzoffset name must be None", e)
            return ex(fn, e.args[1], env, lambda t, ty: k("(TzOff %s)" % t, TZ) if ty == INT
                      else bail("tzoffset of non-int", e))
        if f.attr == "isdigit" and not e.args:
            return ex(fn, v, env, lambda t, ty: k("(isdigit %s)" % t, BOOL) if ty == BYTES
                      else bail("isdigit of non-bytes", e))
        if (f.attr == "match" and isinstance(v, ast.Attribute) and isinstance(v.value, ast.Name)
                and v.value.id == "self" and v.attr == "_FRACTION_REGEX" and len(e.args) == 1):
            return ex(fn, e.args[0], env, lambda t, ty: k("(frac_match %s)" % t, MATCH) if ty == BYTES
                      else bail("regex match on non-bytes", e))
        if f.attr == "group" and isinstance(v, ast.Name) and env.get(v.id) == MATCHED:
            if len(e.args) == 1 and isinstance(e.args[0], ast.Constant) and e.args[0].value == 1:
                return k("v_%s_ds" % v.id, BYTES)
            bail("only group(1) (and len(group())) of the fraction match are supported", e)
    bail("unsupported call", e)


def construct(fn, what, vals, e, k):
    tys = tuple(ty for _, ty in vals)
    ts = [t for t, _ in vals]
    if what == "date" and tys == (INT, INT, INT):
        return bind_call(fn, "mk_date %s %s %s" % tuple(ts), DATE, k)
    if what == "datetime" and tys == (INT, INT, INT):
        return bind_call(fn, "mk_datetime %s %s %s 0 0 0 0 TzNone" % tuple(ts), DATETIME, k)
    if what == "datetime" and tys == (INT,) * 7 + (TZ,):
        return bind_call(fn, "mk_datetime " + " ".join(ts), DATETIME, k)
    if what == "time" and tys == (INT,) * 4 + (TZ,):
        return bind_call(fn, "mk_time " + " ".join(ts), TIME, k)
    bail("unsupported %s(...) argument types %r" % (what, tys), e)


# ------------------------------------------------------------------------------------ statements (CPS)

def is_raise_valueerror(s):
    if isinstance(s, ast.Raise) and s.exc is not None and s.cause is None:
        exc = s.exc.func if isinstance(s.exc, ast.Call) else s.exc
        return isinstance(exc, ast.Name) and exc.id == "ValueError"
    if isinstance(s, ast.Expr) and isinstance(s.value, ast.Call):
        c = s.value
        if (isinstance(c.func, ast.Attribute) and isinstance(c.func.value, ast.Name) and c.func.value.id == "six"
                and c.func.attr == "raise_from" and len(c.args) == 2 and isinstance(c.args[0], ast.Call)
                and isinstance(c.args[0].func, ast.Name) and c.args[0].func.id == "ValueError"):
            return True
    return False


def assign_name(fn, name, t, ty, env, cont):
    env2 = dict(env)
    if is_list(ty):
        # t is a tuple text "(a, b, c)": rebind slot by slot
        env2[name] = ty
        return "let '%s := %s in\n%s" % (value_text(name, ty), t, cont(env2))
    if ty in (MATCH,):
        env2[name] = MATCH
        return "let v_%s := %s in\n%s" % (name, t, cont(env2))
    if isinstance(ty, tuple):
        bail("tuple stored in a variable")
    env2[name] = ty
    return "let v_%s := %s in\n%s" % (name, t, cont(env2))


def block(fn, stmts, env, kend):
    if not stmts:
        return kend(env)
    s, rest = stmts[0], stmts[1:]
    cont = lambda env2: block(fn, rest, env2, kend)
    if isinstance(s, ast.Expr) and isinstance(s.value, ast.Constant) and isinstance(s.value.value, str):
        return cont(env)
    if is_raise_valueerror(s):
        return "Err ValueError"
    if isinstance(s, ast.Return):
        if s.value is None:
            bail("bare return", s)

        def kr(t, ty):
            if ty != fn.ret:
                bail("return type %r differs from the declared %r" % (ty, fn.ret), s)
            return "Ok %s" % t
        return ex(fn, s.value, env, kr)
    if isinstance(s, ast.Continue):
        if fn.loop is None:
            bail("continue outside a loop", s)
        return fn.loop["again"](env)
    if isinstance(s, ast.Break):
        if fn.loop is None:
            bail("break outside a loop", s)
        return fn.loop["exit"](env)
    if isinstance(s, ast.Assign):
        if len(s.targets) != 1:
            bail("multiple assignment targets", s)
        tg = s.targets[0]
        if isinstance(tg, ast.Name):
            return ex(fn, s.value, env, lambda t, ty: assign_name(fn, tg.id, t, ty, env, cont))
        if isinstance(tg, ast.Tuple) and all(isinstance(x, ast.Name) for x in tg.elts):
            def kt(t, ty):
                if not (isinstance(ty, tuple) and ty[0] == "tuple" and len(ty[1]) == len(tg.elts)):
                    bail("tuple unpacking of a non-tuple", s)
                env2 = dict(env)
                pats = []
                for x, xt in zip(tg.elts, ty[1]):
                    env2[x.id] = xt
                    pats.append(value_text(x.id, xt))
                return "let '(%s) := %s in\n%s" % (", ".join(pats), t, cont(env2))
            return ex(fn, s.value, env, kt)
        if isinstance(tg, ast.Subscript) and isinstance(tg.value, ast.Name) and is_list(env.get(tg.value.id)):
            return store(fn, tg, s.value, env, cont, s)
        bail("unsupported assignment target", s)
    if isinstance(s, ast.AugAssign):
        if not isinstance(s.target, ast.Name) or s.target.id not in env:
            bail("unsupported augmented assignment", s)
        name = s.target.id
        if is_list(env[name]) and isinstance(s.op, ast.Add):
            def kl(t, ty):
                if not is_list(ty):
                    bail("list += non-list", s)
                old = env[name]
                new = ("list", old[1] + ty[1])
                env2 = dict(env)
                env2[name] = new
                newslots = slots(name, new)[len(old[1]):]
                return "let '(%s) := %s in\n%s" % (", ".join(newslots), t, cont(env2))
            return ex(fn, s.value, env, kl)
        if env[name] != INT or not isinstance(s.op, (ast.Add, ast.Sub)):
            bail("unsupported augmented assignment", s)
        sym = "+" if isinstance(s.op, ast.Add) else "-"

        def ka(t, ty):
            if ty == BOOL:
                t = "(b2z %s)" % t
            elif ty != INT:
                bail("augmented assignment of a non-int", s)
            env2 = dict(env)
            return "let v_%s := (v_%s %s %s) in\n%s" % (name, name, sym, t, cont(env2))
        return ex(fn, s.value, env, ka)
    if isinstance(s, ast.If):
        return if_stmt(fn, s, rest, env, kend)
    if isinstance(s, ast.Try):
        return try_stmt(fn, s, env, cont)
    if isinstance(s, ast.While):
        return while_stmt(fn, s, env, cont)
    bail("unsupported statement", s)


def store(fn, tg, value, env, cont, s):
    name = tg.value.id
    lty = env[name]
    n = len(lty[1])
    sl = slots(name, lty)
    i = const_index(tg.slice)

    def kv(t, ty):
        if i is not None:
            if not -n <= i < n:
                bail("static IndexError", s)
            j = i % n
            newty = ("list", lty[1][:j] + (ty,) + lty[1][j + 1:])
            env2 = dict(env)
            env2[name] = newty
            return "let %s := %s in\n%s" % (sl[j], t, cont(env2))
        it, ity = pure(fn, tg.slice, env)
        if ity != INT:
            bail("list index must be an int", s)
        same = [j for j in range(n) if lty[1][j] == ty]
        if not same:
            bail("no slot of the stored type", s)
        tup = "(" + ", ".join(sl[j] for j in same) + ")"
        jv = fn.tmp("j")
        arms = ""
        for j in range(n):
            if j in same:
                new = "(" + ", ".join(t if q == j else sl[q] for q in same) + ")"
                arms += "if %s =? %d then Ok %s else " % (jv, j, new)
        arms += "Err Unmodelled"       # IndexError, or a store that would change the type of a slot
        pat = tup if len(same) > 1 else sl[same[0]]
        q = "'" if len(same) > 1 else ""
        r = fn.tmp("r")
        return ("let %s := (if %s <? 0 then %s + %d else %s) in\nbind (%s) (fun %s => let %s%s := %s in\n%s)"
                % (jv, it, it, n, it, arms, r, q, pat, r, cont(dict(env))))
    return ex(fn, value, env, kv)


def if_stmt(fn, s, rest, env, kend):
    # `if not m:` / `if m:` on a regex match object
    test = s.test
    neg = False
    if isinstance(test, ast.UnaryOp) and isinstance(test.op, ast.Not):
        inner, neg = test.operand, True
    else:
        inner = test
    if isinstance(inner, ast.Name) and env.get(inner.id) == MATCH:
        m = inner.id
        env_some = dict(env)
        env_some[m] = MATCHED
        none_body, some_body = (s.body, s.orelse) if neg else (s.orelse, s.body)
        none_code = block(fn, list(none_body) + list(rest), env, kend)
        some_code = block(fn, list(some_body) + list(rest), env_some, kend)
        return "match v_%s with\n| None =>\n%s\n| Some v_%s_ds =>\n%s\nend" % (m, none_code, m, some_code)
    c, cty = pure(fn, s.test, env)
    if cty != BOOL:
        bail("if on a non-bool", s)
    if c == "true":
        return block(fn, list(s.body) + list(rest), env, kend)
    if c == "false":
        return block(fn, list(s.orelse) + list(rest), env, kend)
    a = block(fn, list(s.body) + list(rest), env, kend)
    b = block(fn, list(s.orelse) + list(rest), env, kend)
    return "if %s then (\n%s)\nelse (\n%s)" % (c, a, b)


def handler_class(h):
    if h.type is None or not isinstance(h.type, ast.Name) or h.type.id not in ("ValueError", "OverflowError"):
        bail("unsupported exception class in except", h)
    return h.type.id


def try_stmt(fn, s, env, cont):
    if len(s.handlers) != 1 or s.orelse or s.finalbody or len(s.body) != 1 or len(s.handlers[0].body) != 1:
        bail("unsupported try statement", s)
    cls = handler_class(s.handlers[0])
    hb = s.handlers[0].body[0]
    b = s.body[0]
    if isinstance(b, ast.Return):
        body_code = block(fn, [b], env, lambda _e: bail("unreachable"))
        if is_raise_valueerror(hb):
            h_code = "Err ValueError"
        elif isinstance(hb, ast.Return):
            h_code = block(fn, [hb], env, lambda _e: bail("unreachable"))
        else:
            bail("unsupported except body", s)
        return "try_except (%s) %s (%s)" % (body_code, cls, h_code)
    if isinstance(b, ast.Assign) and len(b.targets) == 1 and isinstance(b.targets[0], ast.Name):
        if not is_raise_valueerror(hb):
            bail("unsupported except body", s)
        name = b.targets[0].id
        got = []

        def kv(t, ty):
            got.append(ty)
            return "Ok %s" % t
        body_code = ex(fn, b.value, env, kv)
        if len(got) != 1 or isinstance(got[0], tuple):
            bail("unsupported try body", s)
        env2 = dict(env)
        env2[name] = got[0]
        return "bind (try_except (%s) %s (Err ValueError)) (fun v_%s =>\n%s)" % (body_code, cls, name, cont(env2))
    bail("unsupported try body", s)


def while_stmt(fn, s, env, cont):
    if s.orelse or fn.loop is not None or fn.name not in LOOP_FUEL:
        bail("unsupported while loop", s)
    state = flat(env)
    names = [n for n, _ in state]
    tup = "(" + ", ".join(names) + ")"
    lname = "gen_%s_loop" % fn.name
    c, cty = pure(fn, s.test, env)
    if cty != BOOL:
        bail("while on a non-bool", s)

    def again(env2):
        if [n for n, _ in flat(env2)] != names or [t for _, t in flat(env2)] != [t for _, t in state]:
            # variables first bound inside the body are local to one iteration
            keep = {k: v for k, v in env2.items() if k in env}
            if [x for x in flat(keep)] != state:
                bail("loop changes the shape of the state", s)
        return "%s fuel' %s" % (lname, " ".join(names))

    def exit_(env2):
        return "Ok %s" % tup
    fn.loop = {"again": again, "exit": exit_}
    body = block(fn, list(s.body), env, again)
    fn.loop = None
    params = " ".join("(%s : %s)" % (n, coqty(t)) for n, t in state)
    retty = "(" + " * ".join(coqty(t) for _, t in state) + ")"
    fn.aux.append("Fixpoint %s (fuel : nat) %s : res %s :=\n  if %s then\n    match fuel with\n    | O => Err OutOfFuel\n"
                  "    | S fuel' =>\n%s\n    end\n  else Ok %s." % (lname, params, retty, c, body, tup))
    r = fn.tmp("r")
    return "bind (%s %d %s) (fun %s => let '%s := %s in\n%s)" % (lname, LOOP_FUEL[fn.name], " ".join(names), r, tup, r,
                                                                cont(dict(env)))


# ------------------------------------------------------------------------------------ driver

def strip_doc(node):
    node = ast.parse(ast.unparse(node)) if False else node
    for n in ast.walk(node):
        if isinstance(n, (ast.FunctionDef, ast.ClassDef, ast.Module)) and n.body:
            b0 = n.body[0]
            if isinstance(b0, ast.Expr) and isinstance(b0.value, ast.Constant) and isinstance(b0.value.value, str):
                n.body = n.body[1:] or [ast.Pass()]
    return node


def ahash(nodes):
    import copy
    txt = "\n".join(ast.dump(strip_doc(copy.deepcopy(n))) for n in nodes)
    return hashlib.sha256(txt.encode()).hexdigest()[:16]


def translate_fn(name, node, consts):
    params, rty, decorated = SIGS[name]
    args = node.args
    if args.vararg or args.kwarg or args.kwonlyargs or args.posonlyargs:
        bail("unsupported signature of " + name)
    anames = [a.arg for a in args.args]
    want = ([] if name == "_parse_digits" else ["self"]) + [p[0] for p in params]
    if anames != want:
        bail("unexpected parameters of %s: %r" % (name, anames))
    ndef = len([p for p in params if p[2] is not None])
    if len(args.defaults) != ndef:
        bail("unexpected defaults of " + name)
    for p, d in zip([p for p in params if p[2] is not None], args.defaults):
        if not (isinstance(d, ast.Constant) and d.value is True and p[2] == "true"):
            bail("unexpected default value in " + name)
    decs = [ast.dump(d) for d in node.decorator_list]
    if decorated:
        if len(node.decorator_list) != 1 or not (isinstance(node.decorator_list[0], ast.Name)
                                                 and node.decorator_list[0].id == "_takes_ascii"):
            bail("entry point %s must be decorated with @_takes_ascii only" % name)
    elif decs:
        bail("unexpected decorator on " + name)
    fn = Fn(name, consts)
    env = {}
    for pn, pt, _pd in params:
        env[pn] = pt

    def fell(_env):
        bail("control falls off the end of " + name)
    body = block(fn, list(node.body), env, fell)
    sep = "(v_self_sep : option (list Z)) " if name in USES_SEP else ""
    ps = list(params)
    if decorated:
        first = ps[0][0]
        plist = " ".join("(v_%s%s : %s)" % (pn, "0" if pn == first else "", coqty(pt)) for pn, pt, _ in ps)
        plist = " ".join("(v_%s%s : %s)" % (pn, "0" if pn == first else "", coqty(IN if pn == first else pt))
                         for pn, pt, _ in ps)
        body = "gen_takes_ascii v_%s0 (fun v_%s =>\n%s)" % (first, first, body)
    else:
        plist = " ".join("(v_%s : %s)" % (pn, coqty(pt)) for pn, pt, _ in ps)
    out = list(fn.aux)
    out.append("Definition gen_%s %s%s : res %s :=\n%s." % (name, sep, plist, coqty(rty), body))
    return out


def _same(node, template):
    """structural equality of an expression with a template given as source text"""
    return ast.dump(node) == ast.dump(ast.parse(template, mode="eval").body)


def translate_takes_ascii(node):
    """def _takes_ascii(f): @wraps(f) def func(self, str_in, *args, **kwargs): <body>; return func
    The body is translated statement by statement over the typed variable str_in:
      pyin     --  str_in = getattr(str_in, 'read', lambda: str_in)()            --> payload   (read_in)
      payload  --  if isinstance(str_in, six.text_type): A else: B                --> match: text in A, bytes in B
      text     --  try: str_in = str_in.encode('ascii')
                   except UnicodeEncodeError as e: <raise ValueError>             --> bytes     (encode_ascii)
      bytes    --  if any(b >= N for b in bytearray(str_in)): A else: B           --> existsb
      raise ValueError(...) / six.raise_from(ValueError(...), e); msg = '<constant>'
      bytes    --  return f(self, str_in, *args, **kwargs)                        --> v_f v_str_in"""
    a = node.args
    if ([x.arg for x in a.args] != ["f"] or a.vararg or a.kwarg or a.kwonlyargs or a.posonlyargs or a.defaults
            or node.decorator_list):
        bail("unexpected signature of _takes_ascii", node)
    body = [n for n in node.body if not (isinstance(n, ast.Expr) and isinstance(n.value, ast.Constant))]
    if (len(body) != 2 or not isinstance(body[0], ast.FunctionDef) or not isinstance(body[1], ast.Return)
            or not isinstance(body[1].value, ast.Name) or body[1].value.id != body[0].name):
        bail("_takes_ascii must define one wrapper and return it", node)
    w = body[0]
    wa = w.args
    if ([x.arg for x in wa.args] != ["self", "str_in"] or wa.vararg is None or wa.vararg.arg != "args"
            or wa.kwarg is None or wa.kwarg.arg != "kwargs" or wa.kwonlyargs or wa.posonlyargs or wa.defaults):
        bail("unexpected signature of the _takes_ascii wrapper", w)
    if len(w.decorator_list) != 1 or not _same(w.decorator_list[0], "wraps(f)"):
        bail("the _takes_ascii wrapper must be decorated with @wraps(f) only", w)
    check_reserved(w, extra_ok=())
    V = "str_in"

    def raise_ve(s):
        return is_raise_valueerror(s)

    def blk(stmts, ty, k_end):
        """CPS over a statement list; ty = current type of str_in; k_end(ty) = what follows the list"""
        if not stmts:
            return k_end(ty)
        st, rest = stmts[0], stmts[1:]
        cont = lambda ty2: blk(rest, ty2, k_end)
        if isinstance(st, ast.Expr) and isinstance(st.value, ast.Constant) and isinstance(st.value.value, str):
            return cont(ty)
        if raise_ve(st):
            return "Err ValueError"
        if isinstance(st, ast.Assign) and len(st.targets) == 1 and isinstance(st.targets[0], ast.Name):
            tg = st.targets[0].id
            if tg == V and _same(st.value, "getattr(str_in, 'read', lambda: str_in)()"):
                if ty != IN:
                    bail("read() of something that is not the raw argument", st)
                return "let v_str_in := read_in v_str_in0 in\n" + cont(PAYLOAD)
            if tg != V and isinstance(st.value, ast.Constant) and isinstance(st.value.value, str):
                return cont(ty)                 # msg = '...'
            bail("unsupported assignment in _takes_ascii", st)
        if isinstance(st, ast.If):
            t = st.test
            if _same(t, "isinstance(str_in, six.text_type)"):
                if ty != PAYLOAD:
                    bail("isinstance test on a value whose kind is already known", st)
                return ("match v_str_in with\n| PText v_str_in =>\n%s\n| PBytes v_str_in =>\n%s\nend"
                        % (blk(st.body, TEXT, cont), blk(st.orelse, BYTES, cont)))
            if (isinstance(t, ast.Call) and isinstance(t.func, ast.Name) and t.func.id == "any" and len(t.args) == 1
                    and not t.keywords and isinstance(t.args[0], ast.GeneratorExp)):
                g = t.args[0]
                if (len(g.generators) == 1 and not g.generators[0].ifs and not g.generators[0].is_async
                        and isinstance(g.generators[0].target, ast.Name)
                        and _same(g.generators[0].iter, "bytearray(str_in)")
                        and isinstance(g.elt, ast.Compare) and len(g.elt.ops) == 1
                        and isinstance(g.elt.left, ast.Name) and g.elt.left.id == g.generators[0].target.id
                        and isinstance(g.elt.comparators[0], ast.Constant)
                        and type(g.elt.comparators[0].value) is int):
                    if ty != BYTES:
                        bail("bytearray() of a value that is not known to be bytes", st)
                    nconst = lit(g.elt.comparators[0].value)
                    b = "v_" + g.generators[0].target.id
                    op = g.elt.ops[0]
                    cmp_ = {ast.GtE: "(%s <=? %s)" % (nconst, b), ast.Gt: "(%s <? %s)" % (nconst, b),
                            ast.LtE: "(%s <=? %s)" % (b, nconst), ast.Lt: "(%s <? %s)" % (b, nconst),
                            ast.Eq: "(%s =? %s)" % (b, nconst), ast.NotEq: "negb (%s =? %s)" % (b, nconst)}.get(type(op))
                    if cmp_ is None:
                        bail("unsupported comparison in any()", st)
                    return ("if existsb (fun %s => %s) v_str_in then\n%s\nelse\n%s"
                            % (b, cmp_, blk(st.body, ty, cont), blk(st.orelse, ty, cont)))
            bail("unsupported test in _takes_ascii", st)
        if isinstance(st, ast.Try):
            if (st.orelse or st.finalbody or len(st.handlers) != 1 or len(st.body) != 1
                    or not isinstance(st.body[0], ast.Assign) or len(st.body[0].targets) != 1
                    or not isinstance(st.body[0].targets[0], ast.Name) or st.body[0].targets[0].id != V
                    or not _same(st.body[0].value, "str_in.encode('ascii')")):
                bail("unsupported try statement in _takes_ascii", st)
            h = st.handlers[0]
            if not (isinstance(h.type, ast.Name) and h.type.id == "UnicodeEncodeError"):
                bail("the handler must catch UnicodeEncodeError", st)
            if ty != TEXT:
                bail(".encode('ascii') of a value that is not known to be text", st)

            def nofall(_ty):
                bail("the UnicodeEncodeError handler must end in raise ValueError", st)
            return ("match encode_ascii v_str_in with\n| Some v_str_in =>\n%s\n| None =>\n%s\nend"
                    % (cont(BYTES), blk(h.body, ty, nofall)))
        if isinstance(st, ast.Return):
            if not _same(st.value, "f(self, str_in, *args, **kwargs)"):
                bail("unsupported return in _takes_ascii", st)
            if ty != BYTES:
                bail("the wrapped method is called with a value that is not known to be bytes", st)
            return "v_f v_str_in"
        bail("unsupported statement in _takes_ascii", st)

    def fell(_ty):
        bail("control falls off the end of the _takes_ascii wrapper", w)
    text = blk(list(w.body), IN, fell)
    return ["Definition gen_takes_ascii {A : Type} (v_str_in0 : pyin) (v_f : list Z -> res A) : res A :=\n%s." % text]


def check_reserved(fnode, extra_ok=()):
    """no binding of a name the translator gives a fixed meaning"""
    bound = []
    for n in ast.walk(fnode):
        if isinstance(n, ast.Name) and isinstance(n.ctx, (ast.Store, ast.Del)):
            bound.append((n.id, n))
        elif isinstance(n, ast.arg):
            bound.append((n.arg, n))
        elif isinstance(n, ast.ExceptHandler) and n.name:
            bound.append((n.name, n))
        elif isinstance(n, (ast.FunctionDef, ast.ClassDef, ast.AsyncFunctionDef)) and n is not fnode:
            bound.append((n.name, n))
        elif isinstance(n, (ast.Import, ast.ImportFrom, ast.Global, ast.Nonlocal)):
            bail("import / global / nonlocal inside a function", n)
    for name, n in bound:
        if name in RESERVED and name not in extra_ok:
            bail("the name %r has a fixed meaning in the translator and is rebound" % name, n)


def raise_args(nodes):
    """the (unevaluated) argument expressions of every raise / six.raise_from in the translated code"""
    out = []
    for fnode in nodes:
        for n in ast.walk(fnode):
            if isinstance(n, ast.Raise):
                out.append(n.exc if n.exc is not None else ast.Pass())
                if n.cause is not None:
                    out.append(n.cause)
            elif (isinstance(n, ast.Call) and isinstance(n.func, ast.Attribute) and n.func.attr == "raise_from"):
                out.append(n)
    return out


def translate(src):
    tree = ast.parse(src)
    top = {n.name: n for n in tree.body if isinstance(n, (ast.FunctionDef, ast.ClassDef))}
    if "isoparser" not in top or not isinstance(top["isoparser"], ast.ClassDef):
        bail("class isoparser not found")
    cls = top["isoparser"]
    if (cls.decorator_list or cls.keywords or len(cls.bases) != 1 or not isinstance(cls.bases[0], ast.Name)
            or cls.bases[0].id != "object"):
        bail("class header must be `class isoparser(object):` without decorators / keywords", cls)
    names = [n.name for n in tree.body if isinstance(n, (ast.FunctionDef, ast.ClassDef, ast.AsyncFunctionDef))]
    if sorted(names) != sorted(set(names)):
        bail("a module-level name is defined twice")
    mnames = [n.name for n in cls.body if isinstance(n, (ast.FunctionDef, ast.ClassDef, ast.AsyncFunctionDef))]
    if sorted(mnames) != sorted(set(mnames)):
        bail("a method is defined twice")
    for i, n in enumerate(tree.body):
        if isinstance(n, ast.Expr):
            if not (i == 0 and isinstance(n.value, ast.Constant) and isinstance(n.value.value, str)):
                bail("module-level expression statement (only the docstring is accepted)", n)
    methods = {n.name: n for n in cls.body if isinstance(n, ast.FunctionDef)}
    consts = {}
    regex_ok = False
    for n in cls.body:
        if isinstance(n, ast.FunctionDef):
            continue
        if isinstance(n, ast.Expr) and isinstance(n.value, ast.Constant) and isinstance(n.value.value, str):
            continue
        if isinstance(n, ast.Assign) and len(n.targets) == 1 and isinstance(n.targets[0], ast.Name):
            nm = n.targets[0].id
            if nm in ("_DATE_SEP", "_TIME_SEP") and isinstance(n.value, ast.Constant) and isinstance(n.value.value, bytes):
                consts[nm] = n.value.value
                continue
            if nm == "_FRACTION_REGEX":
                v = n.value
                if (isinstance(v, ast.Call) and isinstance(v.func, ast.Attribute) and v.func.attr == "compile"
                        and isinstance(v.func.value, ast.Name) and v.func.value.id == "re" and len(v.args) == 1
                        and not v.keywords and isinstance(v.args[0], ast.Constant)
                        and v.args[0].value == FRACTION_PATTERN):
                    regex_ok = True
                    continue
                bail("_FRACTION_REGEX is not the modelled pattern", n)
        bail("unexpected class-level statement", n)
    if set(consts) != {"_DATE_SEP", "_TIME_SEP"} or not regex_ok:
        bail("class constants _DATE_SEP / _TIME_SEP / _FRACTION_REGEX not found")
    expected_methods = set(ORDER) - {"_parse_digits"} | {"__init__"}
    if set(methods) != expected_methods:
        bail("unexpected set of methods: %r" % sorted(set(methods) ^ expected_methods))
    # pinned, hand-modelled parts
    tail = [n for n in tree.body if isinstance(n, ast.Assign)]
    ta = top.get("_takes_ascii")
    if ta is None or not isinstance(ta, ast.FunctionDef):
        bail("_takes_ascii not found")
    translated = [ta] + [top.get(nm) if nm == "_parse_digits" else methods.get(nm) for nm in ORDER]
    if any(t is None for t in translated):
        bail("a translated function is missing")
    for t in translated[1:]:
        check_reserved(t)
    pins = {"__init__": ahash([methods["__init__"]]),
            "tail": ahash(tail),
            "imports": ahash([n for n in tree.body if isinstance(n, (ast.Import, ast.ImportFrom))]),
            "raise_args": ahash(raise_args(translated))}
    if os.environ.get("GEN_ISO_SHOW_PINS"):
        print(pins)
    for kname, h in pins.items():
        if PINNED[kname] != h:
            bail("the hand-modelled part %r changed (AST hash %s, pinned %s)" % (kname, h, PINNED[kname]))
    others = [n for n in tree.body if not isinstance(n, (ast.Import, ast.ImportFrom, ast.Assign, ast.Expr))
              and getattr(n, "name", None) not in ("_takes_ascii", "_parse_digits", "isoparser")]
    if others:
        bail("unexpected module-level definition", others[0])
    out = ["(* GENERATED by harness/gen_iso.py from /repo/src/dateutil/parser/isoparser.py -- do not edit *)",
           "From Coq Require Import ZArith List Bool.",
           "From V Require Import base.Cal iso.IsoBase iso.IsoModel iso.IsoGenLib.",
           "Import ListNotations.", "Open Scope Z_scope.", ""]
    out += translate_takes_ascii(ta)
    out.append("")
    for name in ORDER:
        node = top.get(name) if name == "_parse_digits" else methods.get(name)
        if node is None or not isinstance(node, ast.FunctionDef):
            bail("function %s not found" % name)
        out += translate_fn(name, node, consts)
        out.append("")
    return "\n".join(out)


if __name__ == "__main__":
    here = os.path.dirname(os.path.dirname(os.path.abspath(__file__)))
    repo = os.environ.get("VERIF_REPO", "/repo")
    src_path = sys.argv[1] if len(sys.argv) > 1 else os.path.join(repo, "src/dateutil/parser/isoparser.py")
    out_path = sys.argv[2] if len(sys.argv) > 2 else os.path.join(here, "coq/gen/IsoGen.v")
    try:
        txt = translate(open(src_path).read())
    except TranslateError as ex:
        print("TRANSLATE-ERROR (gen_iso): %s" % ex)
        sys.exit(2)
    try:
        old = open(out_path).read()
    except OSError:
        old = None
    if old != txt:
        open(out_path, "w").write(txt)
        print("regenerated", out_path)
