"""Shared machinery of the tzfile checks (C04, C05, C06): corpus access, synthetic TZif
generation, observation of the real implementation in the canonical projection used by
coq/extract/ExtractTzfile.v, decoding of the oracle's replies, instant generators."""
import datetime as D
import io
import json
import os
import struct
import sys
import tarfile

sys.path.insert(0, os.path.dirname(os.path.abspath(__file__)))
import common as C

AREA = "tzfile"
VO_BASE = ["tzfile/TzModel.vo", "tzfile/TzSpec.vo", "tzfile/TzData.vo", "tzfile/TzExamples.vo"]
CORPUS = os.path.join(C.VERIF, "corpus", "tz")
ZI = os.path.join(C.BUILD, "tzfile", "zi")          # unpacked corpus (never /tmp)
EPOCH = D.datetime(1970, 1, 1)
TRICKY = ["Europe/Dublin", "Pacific/Norfolk", "Africa/Algiers", "Africa/Casablanca",
          "America/St_Johns", "Asia/Kathmandu", "Australia/Lord_Howe", "Pacific/Apia",
          "Antarctica/Troll", "Africa/Monrovia", "America/Adak"]
E_VALUE, E_STRUCT, E_INDEX, E_ATTR, E_OTHER, E_FUEL = 1, 2, 3, 4, 5, 6
JOBS = int(os.environ.get("VERIF_JOBS", "8"))


# ------------------------------------------------------------------------------ corpus
def corpus_index():
    return json.load(open(os.path.join(CORPUS, "index.json")))


def unpack_corpus():
    """Unpack corpus/tz/tzif.tar.gz under build/tzfile/zi, aliases materialised as copies, so
    that tz.TZPATHS can point at it.  Returns {name: canonical name} for every name + alias."""
    idx = corpus_index()
    stamp = os.path.join(ZI, ".stamp")
    tarp = os.path.join(CORPUS, "tzif.tar.gz")
    want = "%d %d" % (os.path.getsize(tarp), int(os.path.getmtime(tarp)))
    names = {}
    for e in idx:
        names[e["name"]] = e["name"]
        for a in e["aliases"]:
            names[a] = e["name"]
    if os.path.exists(stamp) and open(stamp).read() == want:
        return names
    import fcntl
    os.makedirs(ZI, exist_ok=True)
    lk = open(os.path.join(C.BUILD, "tzfile", ".unpack.lock"), "w")
    fcntl.flock(lk, fcntl.LOCK_EX)          # two checks starting together must not interleave
    if not (os.path.exists(stamp) and open(stamp).read() == want):
        with tarfile.open(tarp) as tf:
            tf.extractall(ZI)
        for a, n in names.items():
            if a != n:
                p = os.path.join(ZI, a)
                os.makedirs(os.path.dirname(p), exist_ok=True)
                with open(os.path.join(ZI, n), "rb") as f:
                    data = f.read()
                with open(p, "wb") as f:
                    f.write(data)
        open(stamp, "w").write(want)
    lk.close()
    return names


def zone_bytes(name, names):
    with open(os.path.join(ZI, names[name]), "rb") as f:
        return f.read()


def select_zones(tier, names, tag, nquick):
    """quick: the fixed tricky list + a VERIF_SEED-chosen subset of the distinct files;
    thorough: every distinct file."""
    idx = corpus_index()
    canon = [e["name"] for e in idx]
    tricky = []
    for t in TRICKY:
        if t in names and names[t] not in tricky:
            tricky.append(names[t])
    if tier == "thorough":
        rest = [n for n in canon if n not in tricky]
        return tricky + rest
    r = C.rng("zones/" + tag)
    rest = [n for n in canon if n not in tricky]
    r.shuffle(rest)
    return tricky + sorted(rest[:nquick])


# ------------------------------------------------------------------------------ synthetic zones
OFFS = [0, 3600, -3600, 7200, -18000, -14400, 19800, 20700, 45900, 50400, -43200, 1521, -1521,
        -2670, 86399, -86399, 1800, 900, 37800, 41400, 34200, 1, -1, 59, 3599, 3601]


def synth_raw(r, shape):
    """A random raw version-1 block (dict).  shape selects the feature under test."""
    abbrs = [b"LMT", b"STD", b"DST", b"WAR", b"+0530", b"-03", b"XDT", b"A"]
    r.shuffle(abbrs)
    tab = b"\0".join(abbrs) + b"\0"
    abbr_idx = []
    p = 0
    for a in abbrs:
        abbr_idx.append(p)
        if len(a) > 2:
            abbr_idx.append(p + 1)     # suffix of an abbreviation
        p += len(a) + 1
    ntypes = {"single": 1, "notrans": r.choice([1, 2, 3])}.get(shape, r.randint(2, 6))
    base = r.choice(OFFS[:14])
    types = []
    for k in range(ntypes):
        if shape == "sameoff":
            g = base
        elif shape == "negdst":
            g = base - 3600 * (k % 2)
        elif shape in ("dstdst", "plain", "firstjump", "tight", "nonwf", "lastdst"):
            g = r.choice([base, base + 3600, base + 7200, base - 3600, r.choice(OFFS)])
            g = max(-86399, min(86399, g))
        else:
            g = r.choice(OFFS)
        if shape == "negdst":
            isdst = k % 2
        elif shape == "dstdst":
            isdst = 1 if k else 0
        elif shape == "alldst":
            isdst = r.choice([1, 1, 2, -1])
        else:
            isdst = r.choice([0, 0, 1, 1, 1, 2, -1]) if k else r.choice([0, 0, 0, 1])
        types.append((g, isdst, r.choice(abbr_idx)))
    if shape == "firstjump" and ntypes >= 2:
        types[0] = (r.choice([-86399, 86399, -50000, 45296]), 0, types[0][2])
    n = 0 if shape in ("notrans",) else r.choice([1, 1, 2, 3, 4, 6, 9, 14, 25])
    if shape == "single":
        n = r.choice([0, 1, 3])
    idx = [r.randrange(ntypes) for _ in range(n)]
    if shape == "lastdst" and n:
        dk = [k for k in range(ntypes) if types[k][1]]
        if dk:
            idx[-1] = r.choice(dk)
    # spacing
    t = r.choice([-2147483648, -2000000000, -1000000000, 0, 100000, 1500000000])
    times = []
    prev_off = None
    offs = [types[k][0] for k in idx]
    for i in range(n):
        if i == 0:
            times.append(t)
            continue
        # the two offset changes adjacent to the interval (i-1, i), using raw type offsets
        before = offs[i - 2] if i >= 2 else types[0][0]
        d1 = abs(offs[i - 1] - before)
        d2 = abs(offs[i] - offs[i - 1])
        if shape == "tight":
            gap = max(1, d1 + d2 + r.choice([0, 0, 1, 2]))
        elif shape == "nonwf":
            gap = max(1, r.choice([1, 2, 60, 1800, 3600, max(1, d1 + d2 - 1), max(1, (d1 + d2) // 2)]))
        else:
            gap = 2 * 86400 + 172800 + r.choice([0, 1, 3600, 86400 * 30, 86400 * 180, 86400 * 400])
            gap = max(gap, d1 + d2 + 1)
        t = t + gap
        times.append(t)
    if times and times[-1] > 2147483647:
        shift = times[-1] - 2147483647
        times = [x - shift for x in times]
        if times[0] < -2147483648:
            times = [max(-2147483648 + i, x) for i, x in enumerate(times)]
            times = sorted(set(times))
            idx = idx[:len(times)]
    cnt = r.choice([0, ntypes, ntypes, max(0, ntypes - 1)])
    isstd = [r.choice([0, 1]) for _ in range(cnt)]
    cnt = r.choice([0, ntypes, ntypes, max(0, ntypes - 1)])
    isgmt = [r.choice([0, 1]) for _ in range(cnt)]
    return {"leapcnt": r.choice([0, 0, 0, 1, 3]), "times": times, "idx": idx, "types": types,
            "abbr": list(tab), "isstd": isstd, "isgmt": isgmt, "shape": shape}


SHAPES = ["plain", "sameoff", "dstdst", "negdst", "firstjump", "single", "notrans", "alldst",
          "tight", "nonwf", "lastdst", "wild"]


def raw_args(raw):
    a = [raw["leapcnt"], len(raw["times"])] + list(raw["times"]) + list(raw["idx"])
    a += [len(raw["types"])] + [x for t in raw["types"] for x in t]
    a += [len(raw["abbr"])] + list(raw["abbr"])
    a += [len(raw["isstd"])] + list(raw["isstd"])
    a += [len(raw["isgmt"])] + list(raw["isgmt"])
    return a


def py_render(raw):
    """Independent rendering with struct.pack (cross-check of the model's render_tzif)."""
    out = b"TZif" + b"\0" * 16
    out += struct.pack(">6l", len(raw["isgmt"]), len(raw["isstd"]), raw["leapcnt"],
                       len(raw["times"]), len(raw["types"]), len(raw["abbr"]))
    out += struct.pack(">%dl" % len(raw["times"]), *raw["times"])
    out += struct.pack(">%dB" % len(raw["idx"]), *raw["idx"])
    for (g, d, a) in raw["types"]:
        out += struct.pack(">lbb", g, d, a)
    out += bytes(raw["abbr"]) + b"\0" * (8 * raw["leapcnt"])
    out += struct.pack(">%db" % len(raw["isstd"]), *raw["isstd"])
    out += struct.pack(">%db" % len(raw["isgmt"]), *raw["isgmt"])
    return out


def synth_zones(oracle, tag, count):
    """[(name, bytes, raw)] rendered by the MODEL's render_tzif (entry 6); the struct.pack
    rendering must be identical.  Some streams get a trailing version-2-like block."""
    r = C.rng("synth/" + tag)
    out, bad = [], []
    for i in range(count):
        shape = SHAPES[i % len(SHAPES)]
        raw = synth_raw(r, shape)
        rep = oracle.call(6, raw_args(raw))
        b = bytes(rep[1:])
        if rep[0] != 1 or b != py_render(raw):
            bad.append({"raw": raw, "model_render": list(rep[:80])})
        if i % 3 == 0:
            b += b"TZif2" + b"\0" * 15 + bytes(r.randrange(256) for _ in range(r.randint(0, 60)))
        out.append(("synthetic/%s/%d" % (shape, i), b, raw))
    return out, bad


# ------------------------------------------------------------------------------ implementation side
def exc_code(ex):
    if isinstance(ex, struct.error):
        return ("E", E_STRUCT)
    if isinstance(ex, ValueError):
        return ("E", E_VALUE)
    if isinstance(ex, IndexError):
        return ("E", E_INDEX)
    if isinstance(ex, AttributeError):
        return ("E", E_ATTR)
    return ("X", type(ex).__name__)


def guard(f):
    try:
        return f()
    except Exception as ex:  # exception CLASS is the observable
        return exc_code(ex)


def load_impl(b):
    from dateutil import tz
    return guard(lambda: tz.tzfile(io.BytesIO(b)))


def td_s(td):
    if td is None:
        return None
    if td.microseconds:
        return ("FRAC", td.days, td.seconds, td.microseconds)
    return td.days * 86400 + td.seconds


def naive_s(dt):
    td = dt.replace(tzinfo=None) - EPOCH
    return td.days * 86400 + td.seconds, td.microseconds


def name_pts(s):
    return None if s is None else tuple(ord(c) for c in s)


def impl_obs_utc(z, u, us=0):
    """Same projection as ExtractTzfile.obs_utc: (w, fold, off, dst, name, back) or an error."""
    from dateutil import tz
    dt = D.datetime(1970, 1, 1, tzinfo=tz.UTC) + D.timedelta(seconds=u, microseconds=us)

    def conv():
        loc = dt.astimezone(z)
        w, wus = naive_s(loc)
        if wus != us:
            return ("X", "microsecond changed")
        back = guard(lambda: naive_s(loc.astimezone(tz.UTC)))
        if isinstance(back, tuple) and len(back) == 2 and back[0] not in ("E", "X"):
            back = back[0] if back[1] == us else ("X", "microsecond changed on the way back")
        return (w, loc.fold, guard(lambda: td_s(loc.utcoffset())), guard(lambda: td_s(loc.dst())),
                guard(lambda: name_pts(loc.tzname())), back)
    return guard(conv)


def impl_obs_wall(z, w, f):
    """Same projection as ExtractTzfile.obs_wall: (off, dst, name, ambiguous, exists, resolved)."""
    from dateutil import tz
    dt = (EPOCH + D.timedelta(seconds=w)).replace(tzinfo=z, fold=f)

    def res():
        o = tz.resolve_imaginary(dt)
        return (naive_s(o)[0], o.fold)
    amb = guard(lambda: int(bool(tz.datetime_ambiguous(dt))))
    amb2 = guard(lambda: int(bool(tz.datetime_ambiguous(dt.replace(tzinfo=None), z))))
    if amb != amb2:
        amb = ("X", "datetime_ambiguous(dt) != datetime_ambiguous(naive, tz)")
    ex = guard(lambda: int(bool(tz.datetime_exists(dt))))
    ex2 = guard(lambda: int(bool(tz.datetime_exists(dt.replace(tzinfo=None, fold=f), z))))
    if ex != ex2:
        ex = ("X", "datetime_exists(dt) != datetime_exists(naive, tz)")
    return (guard(lambda: td_s(dt.utcoffset())), guard(lambda: td_s(dt.dst())),
            guard(lambda: name_pts(dt.tzname())), amb, ex, guard(res))


# ------------------------------------------------------------------------------ oracle replies
class Cur:
    def __init__(self, l):
        self.l, self.i = l, 0

    def get(self):
        v = self.l[self.i]
        self.i += 1
        return v

    def res(self, f):
        st = self.get()
        if st != 0:
            return ("E", st)
        return f()

    def ostr(self):
        n = self.get()
        if n < 0:
            return None
        return tuple(self.get() for _ in range(n))

    def oz(self):
        a, b = self.get(), self.get()
        return b if a else None

    def done(self):
        return self.i >= len(self.l)


def bytes_args(b):
    return [len(b)] + list(b)


def model_obs_utc(o, b, us):
    """Entry 1 for a list of instants -> list of projections (or the load error)."""
    rep = o.call(1, bytes_args(b) + list(us))
    if isinstance(rep, str):
        raise RuntimeError("oracle: " + rep)
    if rep[0] != 0:
        return ("E", rep[0])
    c = Cur(rep[1:])
    out = []
    for _ in us:
        st = c.get()
        if st != 0:
            out.append(("E", st))
            continue
        w, f = c.get(), c.get()
        off = c.res(c.get)
        dst = c.res(c.get)
        name = c.res(c.ostr)
        back = c.res(c.get)
        out.append((w, f, off, dst, name, back))
    assert c.done()
    return out


def model_obs_wall(o, b, wfs):
    rep = o.call(2, bytes_args(b) + [x for wf in wfs for x in wf])
    if isinstance(rep, str):
        raise RuntimeError("oracle: " + rep)
    if rep[0] != 0:
        return ("E", rep[0])
    c = Cur(rep[1:])
    out = []
    for _ in wfs:
        off = c.res(c.get)
        dst = c.res(c.get)
        name = c.res(c.ostr)
        amb = c.res(c.get)
        ex = c.res(c.get)
        rs = c.res(lambda: (c.get(), c.get()))
        out.append((off, dst, name, amb, ex, rs))
    assert c.done()
    return out


def spec_utc(o, b, us):
    rep = o.call(3, bytes_args(b) + list(us))
    if rep[0] != 0:
        return ("E", rep[0])
    l = rep[1:]
    return [tuple(l[3 * i:3 * i + 3]) for i in range(len(us))]      # (off, local, fold)


def spec_wall(o, b, ws):
    rep = o.call(4, bytes_args(b) + list(ws))
    if rep[0] != 0:
        return ("E", rep[0])
    c = Cur(rep[1:])
    out = []
    for _ in ws:
        n = c.get()
        pre = sorted(c.get() for _ in range(n))
        u0, u1, gw = c.oz(), c.oz(), c.oz()
        rs, iso = c.get(), c.get()
        out.append({"pre": pre, "utc0": u0, "utc1": u1, "gap": gw, "resolve": rs, "isolated": iso})
    assert c.done()
    return out


def spec_data(o, b, us):
    rep = o.call(5, bytes_args(b) + list(us))
    if rep[0] != 0:
        return ("E", rep[0])
    c = Cur(rep[1:])
    out = []
    for _ in us:
        inr = c.get()
        if c.get():
            g, d = c.get(), c.get()
            n = c.get()
            out.append((inr, g, d, tuple(c.get() for _ in range(n))))
        else:
            out.append((inr, None, None, None))
    assert c.done()
    return out


def info(o, b):
    """Entry 0: dict(err) or dict(wf_zone, good, wf_data, wf_raw, init, trans=[(t,o)], wall=[...])."""
    rep = o.call(0, bytes_args(b))
    if rep[0] != 0:
        return {"err": rep[0]}
    n = rep[6]
    tr = [(rep[7 + 2 * i], rep[8 + 2 * i]) for i in range(n)]
    return {"err": 0, "wf_zone": rep[1], "good": rep[2], "wf_data": rep[3], "wf_raw": rep[4],
            "init": rep[5], "trans": tr, "wall": rep[7 + 2 * n:]}


# ------------------------------------------------------------------------------ instants
def utc_instants(inf, r, per_zone_random, max_trans=None):
    """Instants around every transition: +-{0, 1 s, the offset deltas (+-1), 1 h, 1 d}, the
    instants whose wall reading is the transition seen through either offset, plus random ones."""
    tr = inf["trans"]
    if max_trans is not None and len(tr) > max_trans:
        keep = set([0, 1, len(tr) - 1, len(tr) - 2]) | set(r.sample(range(len(tr)), max_trans))
    else:
        keep = None
    us = set()
    prev = inf["init"]
    for i, (t, o) in enumerate(tr):
        d = o - prev
        if keep is None or i in keep:
            for k in (0, 1, -1, d, -d, d + 1, d - 1, -d + 1, -d - 1, 3600, -3600, 86400, -86400,
                      o, -o, prev, -prev, 1800, -1800, 2 * d, -2 * d):
                us.add(t + k)
        prev = o
    lo = tr[0][0] if tr else 0
    hi = tr[-1][0] if tr else 0
    lo, hi = max(lo, -2208988800) - 200000, hi + 200000
    for _ in range(per_zone_random):
        us.add(r.randint(lo, hi))
    for _ in range(max(2, per_zone_random // 8)):
        us.add(r.randint(-5000000000, 8000000000))   # 1811 .. 2223
    return sorted(us)


def wall_instants(inf, r, per_zone_random, max_trans=None, thin=40):
    """Wall times around every transition: the whole interval [t+min(p,o)-2, t+max(p,o)+2]
    thinned to <= thin points (always with both ends +-2), the same +-24 h, plus random ones."""
    tr = inf["trans"]
    if max_trans is not None and len(tr) > max_trans:
        keep = set([0, 1, len(tr) - 1, len(tr) - 2]) | set(r.sample(range(len(tr)), max_trans))
    else:
        keep = None
    ws = set()
    prev = inf["init"]
    for i, (t, o) in enumerate(tr):
        if keep is None or i in keep:
            a, b = t + min(prev, o), t + max(prev, o)
            for x in (a, b):
                for k in (-2, -1, 0, 1, 2):
                    ws.add(x + k)
            if b - a > 4:
                for _ in range(thin):
                    ws.add(r.randint(a, b))
                ws.add((a + b) // 2)
            for k in (86400, -86400, 3600, -3600):
                ws.add(a + k)
                ws.add(b + k - 1)
        prev = o
    lo = (tr[0][0] if tr else 0) - 200000
    hi = (tr[-1][0] if tr else 0) + 200000
    lo = max(lo, -2208988800)
    for _ in range(per_zone_random):
        ws.add(r.randint(lo, hi))
    return sorted(ws)


def proj_json(x):
    return json.loads(json.dumps(x, default=str))


# ------------------------------------------------------------------------------ independent reference decoder
def py_reference(b):
    """The abstract zone of a TZif stream decoded HERE with struct (independent of the model's parse_tzif /
    build): initial offset = first non-DST type (else type 0); per transition the gmtoff of its type; from the
    last transition on the zone's standard type (last non-DST type among the transitions, else the last DST one)
    -- dateutil's documented rule (stated scope: the raw data is compared on [first, last) only).
    Returns (init, [(t, off)], reference_bytes) where reference_bytes is a TZif stream with one standard type per
    distinct offset, so that decoding it involves none of the std / before / dst rules."""
    try:
        if b[:4] != b"TZif":
            return None
        gmtcnt, stdcnt, leapcnt, timecnt, typecnt, charcnt = struct.unpack(">6l", b[20:44])
        if typecnt <= 0 or timecnt < 0:
            return None
        p = 44
        times = list(struct.unpack(">%dl" % timecnt, b[p:p + 4 * timecnt]))
        p += 4 * timecnt
        idx = list(struct.unpack(">%dB" % timecnt, b[p:p + timecnt]))
        p += timecnt
        types = [struct.unpack(">lbb", b[p + 6 * k:p + 6 * k + 6]) for k in range(typecnt)]
    except struct.error:
        return None
    if any(k >= typecnt for k in idx):
        return None
    nondst = [t for t in types if t[1] == 0]
    init = (nondst[0] if nondst else types[0])[0]
    offs = [types[k][0] for k in idx]
    if idx:
        std = None
        for k in reversed(idx):
            if types[k][1] == 0:
                std = types[k]
                break
        if std is None:
            std = types[idx[-1]] if False else [types[k] for k in reversed(idx) if types[k][1] != 0][0]
        offs[-1] = std[0]
    else:
        init = types[0][0]
    trans = list(zip(times, offs))
    distinct = []
    for o_ in [init] + offs:
        if o_ not in distinct:
            distinct.append(o_)
    raw = {"leapcnt": 0, "times": times, "idx": [distinct.index(o_) for o_ in offs],
           "types": [(o_, 0, 0) for o_ in distinct], "abbr": [88, 0], "isstd": [], "isgmt": []}
    try:
        rb = py_render(raw)
    except struct.error:
        return None
    return init, trans, rb


# ------------------------------------------------------------------------------ per-zone examination
def is_ok(x):
    return not (isinstance(x, tuple) and len(x) >= 1 and x[0] in ("E", "X", "FRAC"))


def examine_utc(o, name, b, z, inf, us, usec_of, sb=None):
    """Compare implementation / model / spec on UTC instants of one zone.
    Returns dict(n, model_diff, prop_fail, spec_diff, data_diff, collisions, samples)."""
    out = {"n": len(us), "model_diff": [], "prop_fail": [], "spec_diff": [], "data_diff": [],
           "collisions": [], "samples": [], "folds": 0, "in_range": 0, "after_last": [], "after_last_n": 0}
    mo = model_obs_utc(o, b, us)
    sp = spec_utc(o, sb if sb is not None else b, us)     # spec on the independently decoded reference
    sd = spec_data(o, b, us)
    seen = {}
    import bisect as _bisect
    tlist = [t for t, _o in inf["trans"]]
    out["nontrivial"] = 0
    for k, u in enumerate(us):
        i = _bisect.bisect_right(tlist, u)
        if (i > 0 and u - tlist[i - 1] <= 7200) or (i < len(tlist) and tlist[i] - u <= 7200):
            out["nontrivial"] += 1      # within 2 h of a transition of this zone
        im = impl_obs_utc(z, u, usec_of(u))
        m = mo[k]
        if im != m:
            out["model_diff"].append({"u": u, "impl": im, "model": m})
        if not is_ok(im) or not (is_ok(im[2]) and is_ok(im[5])):
            out["prop_fail"].append({"u": u, "impl": im, "why": "exception"})
            continue
        w, f, off, dst, nm, back = im
        if off != w - u:
            out["prop_fail"].append({"u": u, "impl": im, "why": "utcoffset != wall - utc"})
        elif back != u:
            out["prop_fail"].append({"u": u, "impl": im, "why": "return trip does not give the instant back"})
        key = (w, f)
        if key in seen and seen[key] != u:
            out["collisions"].append({"u": u, "other": seen[key], "wall": w, "fold": f})
        seen[key] = u
        s = sp[k]
        if (off, w, f) != s:
            out["spec_diff"].append({"u": u, "impl": [off, w, f], "spec": list(s)})
        out["folds"] += f
        inr, g, isd, ab = sd[k]
        if not inr and tlist and u < tlist[0]:
            inr = 1        # before the first transition: the data's first standard type (C06)
        if not inr and tlist and u >= tlist[-1] and g is not None:
            # from the last transition on dateutil applies ttinfo_std by design (stated scope): statistic only
            out["after_last_n"] += 1
            if off != g or nm != ab or w - u != g:
                out["after_last"].append({"u": u, "impl": [off, dst, nm], "data": [g, isd, ab],
                                                         "last_transition": tlist[-1], "after_last": True})
        if inr:
            out["in_range"] += 1
            if g is None or off != g or nm != ab or (isd == 0 and dst != 0):
                out["data_diff"].append({"u": u, "impl": [off, dst, nm], "data": [g, isd, ab],
                                         "wall_minus_u": w - u})
            elif w - u != g:
                out["data_diff"].append({"u": u, "impl": [off, dst, nm], "data": [g, isd, ab],
                                         "wall_minus_u": w - u})
        if k % 997 == 0 and len(out["samples"]) < 3:
            out["samples"].append({"zone": name, "u": u, "impl": im, "model": m, "spec": list(s)})
    return out


def examine_wall(o, name, b, z, inf, ws, sb=None):
    """Compare implementation / model / spec on wall times (both folds) of one zone."""
    out = {"n": 2 * len(ws), "model_diff": [], "spec_diff": [], "samples": [],
           "count": {0: 0, 1: 0, 2: 0, "more": 0}, "not_isolated": [], "resolve_checked": 0}
    wfs = [(w, f) for w in ws for f in (0, 1)]
    mo = model_obs_wall(o, b, wfs)
    sp = spec_wall(o, b, ws)
    import bisect as _bisect
    wlist = sorted(inf["wall"])
    out["nontrivial"] = 0
    for k, (w, f) in enumerate(wfs):
        im = impl_obs_wall(z, w, f)
        m = mo[k]
        s = sp[k // 2]
        i = _bisect.bisect_right(wlist, w)
        if len(s["pre"]) != 1 or (i > 0 and w - wlist[i - 1] <= 7200) or (i < len(wlist) and wlist[i] - w <= 7200):
            out["nontrivial"] += 1      # imaginary, ambiguous, or within 2 h of a wall-clock transition
        if im != m:
            out["model_diff"].append({"w": w, "fold": f, "impl": im, "model": m})
        n = len(s["pre"])
        if f == 0:
            out["count"][n if n <= 2 else "more"] += 1
        off, dst, nm, amb, ex, rs = im
        why = None
        if not all(is_ok(x) for x in (off, amb, ex, rs)):
            why = "exception"
        elif ex != int(n >= 1):
            why = "datetime_exists disagrees with the number of UTC pre-images"
        elif amb != int(n == 2):
            why = "datetime_ambiguous disagrees with the number of UTC pre-images"
        elif n >= 1 and w - off != (s["utc1"] if f else s["utc0"]):
            why = "fold does not select the earlier/later instant"
        elif n >= 1 and rs != (w, f):
            why = "resolve_imaginary changed an existing wall time"
        elif n == 0:
            out["resolve_checked"] += 1
            if not s["isolated"] and f == 0:
                out["not_isolated"].append({"w": w, "impl": rs[0], "spec": s["resolve"]})
            if rs != (s["resolve"], 0):
                why = "resolve_imaginary does not move forward by the width of the gap"
        if why:
            out["spec_diff"].append({"w": w, "fold": f, "why": why, "impl": im, "spec": s})
        if k % 1499 == 0 and len(out["samples"]) < 3:
            out["samples"].append({"zone": name, "w": w, "fold": f, "impl": im, "model": m, "spec": s})
    return out
