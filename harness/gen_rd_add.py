#!/usr/bin/env python3
"""Fail-closed translator:  /repo/src/dateutil/relativedelta.py  ->  coq/gen/RdAddGen.v

Companion of harness/gen_rd_methods.py (same style, same `obj` vocabulary of coq/rd/RdGenBase.v).
Translates, from the Python AST of the current source,
  relativedelta.__add__ for a date / datetime operand     -> gen_add_dt
  relativedelta.__radd__, __rsub__                        -> gen_radd_dt, gen_rsub_dt
  the two-datetime branch of __init__ (incl. the `while`) -> gen_init_diff_loop (Fixpoint on fuel), gen_init_diff
  the yearday / nlyearday conversion of __init__          -> gen_init_yearday
into Gallina over coq/rd/RdAddGenBase.v.  coq/rd/RdAddGenThm.v proves, for ALL inputs,
gen_* = the hand model (RdModel.add_dt, rsub, mk_diff, the yearday part of mk).

ACCEPTED SUBSET (anything else raises TranslateError: the definition is replaced by a
`TRANSLATE-ERROR` comment, RdAddGenThm.v stops compiling, check_C03 / check_C09 report it)
 statements
   docstring; `x = e`; `a, b = e1, e2`; `self.f = e`; `x op= e` (op in + - *); `self.f op= e`;
   `d = {"k": e, ...}` and `d[k] = e` for the keyword dictionary of replace() (k a string constant);
   `assert c`; `raise ValueError(...)`; `return e`; `break` (inside an unrolled `for`);
   `self._set_months(e)`, `self._fix()` (the translations of gen_rd_methods.py);
   `if / elif / else` (arms may return / break; variables assigned in one arm only and not defined
   before are dropped after the `if`); `if <attribute holding a weekday or None>:` narrows the
   attribute inside the arm (x.weekday.weekday / x.weekday.n are accepted only there);
   `for x in [<string constants>]:` and `for i, x in enumerate(<local literal list of ints>):
   ... else: ...` -- unrolled, the loop variables are compile-time constants;
   `while c: body` -> a Fixpoint on fuel (fuel = RdModel.diff_fuel, out of fuel = EFuel);
   the guards `if not isinstance(other, datetime.date): return NotImplemented` and
   `if not (isinstance(dt1, datetime.date) and isinstance(dt2, datetime.date)): raise TypeError(..)`
   (dropped: the operands ARE dates).
 expressions
   int literals, None, locals, `self.f`, `x.year/.month/.day` (date), `t.days/.seconds/.microseconds`
   (timedelta), + - * on ints, `e % <nonzero int literal>`, unary -, not, comparisons (chained) on ints,
   `is [not] None`, == / != on bools, and / or (truthiness; value-returning `a or b` on int / int-or-None),
   and the CALL TABLE (anything else is refused):
     abs(a) -> Z.abs                     min(a, b) -> Z.min              int(a) -> a
     calendar.isleap(y) -> Cal.is_leap   calendar.monthrange(y, m)[1] -> py_monthrange_ndays (may raise)
     isinstance(x, datetime.date) -> true (x a date)   isinstance(x, datetime.datetime) -> is_datetime
     datetime.datetime.fromordinal(x.toordinal()) -> promote            x.weekday() -> py_weekday
     x.replace(**d) -> py_replace (may raise)
     datetime.timedelta(days=,hours=,minutes=,seconds=,microseconds=) -> py_timedelta (may raise)
     date + timedelta -> py_dt_add (may raise)       date - date -> py_dt_sub      date < date -> py_dt_lt
     getattr(self, <constant name>) -> the attribute
     operator.gt / operator.lt -> CmpGt / CmpLt;  f(a, b) with f such a value -> py_compare
     self.__add__(x), self.__radd__(x) -> gen_add_dt / gen_radd_dt;  self.__neg__() -> gen_neg
   Calls that may raise are evaluated in source order (hoisted into `bind`s) and are refused in
   conditionally evaluated positions (right of and / or).
"""
import ast
import os
import sys


class TranslateError(Exception):
    pass


TE = TranslateError
INT, BOOL, NONE, WD, DT, TD, CMPT, OBJ, DICT, UNIT = "int", "bool", "none", "wd", "dt", "td", "cmp", "obj", "dict", "unit"


def OPT(t):
    return ("opt", t)


def is_opt(t):
    return isinstance(t, tuple) and t[0] == "opt"


REL = ["years", "months", "days", "leapdays", "hours", "minutes", "seconds", "microseconds"]
ABS = ["year", "month", "day", "hour", "minute", "second", "microsecond"]
RD_FIELDS = {f: INT for f in REL}
RD_FIELDS.update({f: OPT(INT) for f in ABS})
RD_FIELDS["weekday"] = OPT(WD)
RD_FIELDS["_has_time"] = INT
COQT = {INT: "Z", BOOL: "bool", DT: "pydt", TD: "Z", CMPT: "cmpop", OBJ: "obj", DICT: "replv",
        OPT(INT): "option Z", WD: "wdv", OPT(WD): "option wdv"}
REPL_KEYS = ABS
TD_KW = ["days", "hours", "minutes", "seconds", "microseconds"]
EXC = {"ValueError": "EValue", "OverflowError": "EOverflow", "AssertionError": "EAssert"}


def coqf(attr):
    return "o_" + attr.lstrip("_")


def lit(n):
    return str(n) if n >= 0 else "(%d)" % n


def unify(a, b):
    if a == b:
        return a
    for x, y in ((a, b), (b, a)):
        if x == NONE and is_opt(y):
            return y
        if x == NONE:
            return OPT(y)
        if is_opt(x) and x[1] == y:
            return x
    raise TE("cannot unify types %r and %r" % (a, b))


def coerce(term, t, to):
    if t == to:
        return term
    if is_opt(to):
        if t == NONE:
            return "None"
        if t == to[1]:
            return "(Some %s)" % term
    raise TE("cannot coerce %r to %r" % (t, to))


def dumpeq(node, src, mode="eval"):
    want = ast.parse(src, mode=mode)
    want = want.body if mode == "eval" else want.body[0]
    return ast.dump(node) == ast.dump(want)


class Cx:
    def __init__(self):
        self.types = {}        # local name -> type  (self: OBJ)
        self.consts = {}       # loop variable -> python int / str constant
        self.lists = {}        # local name -> python list of ints (literal)
        self.narrow = {}       # "self.weekday" -> coq variable holding the weekday object
        self.assigned = None   # None: every attribute exists; else the set of attributes assigned so far
        self.defs = set()      # gen_* already defined
        self.ntmp = [0]
        self.in_loop = None    # continuation for `break`

    def copy(self):
        c = Cx()
        c.types, c.consts, c.lists, c.narrow = dict(self.types), dict(self.consts), dict(self.lists), dict(self.narrow)
        c.assigned = None if self.assigned is None else set(self.assigned)
        c.defs, c.ntmp, c.in_loop = self.defs, self.ntmp, self.in_loop
        return c

    def tmp(self, tag):
        self.ntmp[0] += 1
        return "t%d_%s" % (self.ntmp[0], tag)


# ---------------------------------------------------------------- expressions
def const_eval(e, cx):
    """compile-time integer value of e (loop constants only) or None"""
    if isinstance(e, ast.Constant) and isinstance(e.value, int) and not isinstance(e.value, bool):
        return e.value
    if isinstance(e, ast.Name) and isinstance(cx.consts.get(e.id), int):
        return cx.consts[e.id]
    if isinstance(e, ast.BinOp) and type(e.op) in (ast.Add, ast.Sub):
        a, b = const_eval(e.left, cx), const_eval(e.right, cx)
        if a is None or b is None:
            return None
        return a + b if isinstance(e.op, ast.Add) else a - b
    return None


def is_attr_chain(e, names):
    """e is the dotted name names[0].names[1]...."""
    for n in reversed(names[1:]):
        if not (isinstance(e, ast.Attribute) and e.attr == n):
            return False
        e = e.value
    return isinstance(e, ast.Name) and e.id == names[0]


def need_fields(cx, fields, what):
    if cx.assigned is not None:
        missing = [f for f in fields if f not in cx.assigned]
        if missing:
            raise TE("%s before the attribute(s) %s are assigned" % (what, ", ".join(missing)))


def ev(e, cx, binds, cond_pos=False):
    """-> (coq term, type); calls that may raise are appended to binds as (tmp, monadic term)"""
    def effect(tag, term, t):
        if cond_pos:
            raise TE("a call that may raise in a conditionally evaluated position")
        tmp = cx.tmp(tag)
        binds.append((tmp, term))
        return tmp, t

    if isinstance(e, ast.Constant):
        if e.value is None:
            return "tt", NONE
        if e.value is True:
            return "true", BOOL
        if e.value is False:
            return "false", BOOL
        if isinstance(e.value, int):
            return lit(e.value), INT
        raise TE("unsupported constant %r" % (e.value,))
    if isinstance(e, ast.Name):
        if e.id in cx.consts and isinstance(cx.consts[e.id], int):
            return lit(cx.consts[e.id]), INT
        if e.id in cx.types:
            return "v_" + e.id, cx.types[e.id]
        raise TE("unknown name %s" % e.id)
    if isinstance(e, ast.Attribute):
        # operator.gt / operator.lt
        if is_attr_chain(e, ["operator", "gt"]):
            return "CmpGt", CMPT
        if is_attr_chain(e, ["operator", "lt"]):
            return "CmpLt", CMPT
        # x.weekday.weekday / x.weekday.n (only where x.weekday is known to hold an object)
        if (e.attr in ("weekday", "n") and isinstance(e.value, ast.Attribute) and e.value.attr == "weekday"
                and isinstance(e.value.value, ast.Name) and cx.types.get(e.value.value.id) == OBJ):
            key = e.value.value.id + ".weekday"
            if key not in cx.narrow:
                raise TE("weekday attribute read outside `if %s:`" % key)
            return ("(fst %s)" % cx.narrow[key], INT) if e.attr == "weekday" else ("(snd %s)" % cx.narrow[key], OPT(INT))
        if isinstance(e.value, ast.Name) and e.value.id in cx.types:
            t = cx.types[e.value.id]
            if t == OBJ:
                if e.attr not in RD_FIELDS:
                    raise TE("unknown relativedelta attribute %s" % e.attr)
                if e.value.id == "self":
                    need_fields(cx, [e.attr], "read of self.%s" % e.attr)
                return "(%s v_%s)" % (coqf(e.attr), e.value.id), RD_FIELDS[e.attr]
            if t == DT and e.attr in ("year", "month", "day"):
                return "(dt_%s v_%s)" % (e.attr, e.value.id), INT
            if t == TD and e.attr in ("days", "seconds", "microseconds"):
                return "(tdz_%s v_%s)" % (e.attr, e.value.id), INT
        raise TE("unsupported attribute access: " + ast.dump(e)[:120])
    if isinstance(e, ast.BinOp):
        a, ta = ev(e.left, cx, binds, cond_pos)
        b, tb = ev(e.right, cx, binds, cond_pos)
        if type(e.op) in (ast.Add, ast.Sub, ast.Mult) and ta == INT and tb == INT:
            return "(%s %s %s)" % (a, {ast.Add: "+", ast.Sub: "-", ast.Mult: "*"}[type(e.op)], b), INT
        if isinstance(e.op, ast.Mod) and ta == INT and tb == INT:
            c = e.right
            if not (isinstance(c, ast.Constant) and isinstance(c.value, int) and not isinstance(c.value, bool)
                    and c.value != 0):
                raise TE("% by something that is not a nonzero integer literal")
            return "(%s mod %s)" % (a, b), INT
        if isinstance(e.op, ast.Add) and ta == DT and tb == TD:
            return effect("sum", "py_dt_add %s %s" % (a, b), DT)
        if isinstance(e.op, ast.Sub) and ta == DT and tb == DT:
            return "(py_dt_sub %s %s)" % (a, b), TD
        raise TE("unsupported binary operation on %r, %r" % (ta, tb))
    if isinstance(e, ast.UnaryOp) and isinstance(e.op, ast.USub):
        a, ta = ev(e.operand, cx, binds, cond_pos)
        if ta != INT:
            raise TE("negation of non-int")
        return "(- %s)" % a, INT
    if isinstance(e, (ast.Compare, ast.BoolOp)) or (isinstance(e, ast.UnaryOp) and isinstance(e.op, ast.Not)):
        if isinstance(e, ast.BoolOp) and isinstance(e.op, ast.Or) and len(e.values) == 2:
            # value-returning `a or b`
            probe = []
            a, ta = ev(e.values[0], cx, probe, cond_pos)
            if ta in (INT, OPT(INT)):
                binds.extend(probe)
                b, tb = ev(e.values[1], cx, binds, True)
                if tb != INT:
                    raise TE("`a or b` with a non-int right operand")
                return "(%s %s %s)" % ("or_zz" if ta == INT else "or_ozz", a, b), INT
        return cond(e, cx, binds, cond_pos), BOOL
    if isinstance(e, ast.Subscript):
        # calendar.monthrange(y, m)[1]
        v = e.value
        if (isinstance(v, ast.Call) and is_attr_chain(v.func, ["calendar", "monthrange"]) and len(v.args) == 2
                and not v.keywords and isinstance(e.slice, ast.Constant) and e.slice.value == 1
                and not isinstance(e.slice.value, bool)):
            a, ta = ev(v.args[0], cx, binds, cond_pos)
            b, tb = ev(v.args[1], cx, binds, cond_pos)
            if ta != INT or tb != INT:
                raise TE("calendar.monthrange on non-ints")
            return effect("ndays", "py_monthrange_ndays %s %s" % (a, b), INT)
        # <local literal list>[<compile-time index>]  (Python indexing, negative indices wrap)
        if isinstance(v, ast.Name) and v.id in cx.lists:
            i = const_eval(e.slice, cx)
            lst = cx.lists[v.id]
            if i is None or not -len(lst) <= i < len(lst):
                raise TE("list index is not a compile-time constant in range")
            return lit(lst[i]), INT
        raise TE("unsupported subscript: " + ast.dump(e)[:120])
    if isinstance(e, ast.Call):
        return call(e, cx, binds, cond_pos, effect)
    raise TE("unsupported expression: " + ast.dump(e)[:160])


def call(e, cx, binds, cond_pos, effect):
    f = e.func
    args = e.args

    def vals():
        return [ev(a, cx, binds, cond_pos) for a in args]
    if isinstance(f, ast.Name) and not e.keywords:
        if f.id == "abs" and len(args) == 1:
            (a, ta), = vals()
            if ta == INT:
                return "(Z.abs %s)" % a, INT
        if f.id == "int" and len(args) == 1:
            (a, ta), = vals()
            if ta == INT:
                return a, INT
        if f.id == "min" and len(args) == 2:
            (a, ta), (b, tb) = vals()
            if ta == INT and tb == INT:
                return "(Z.min %s %s)" % (a, b), INT
        if f.id == "isinstance" and len(args) == 2 and isinstance(args[0], ast.Name) and cx.types.get(args[0].id) == DT:
            if is_attr_chain(args[1], ["datetime", "date"]):
                return "true", BOOL
            if is_attr_chain(args[1], ["datetime", "datetime"]):
                return "(is_datetime v_%s)" % args[0].id, BOOL
        if (f.id == "getattr" and len(args) == 2 and isinstance(args[0], ast.Name) and cx.types.get(args[0].id) == OBJ
                and isinstance(args[1], ast.Name) and isinstance(cx.consts.get(args[1].id), str)):
            attr = cx.consts[args[1].id]
            if attr not in RD_FIELDS:
                raise TE("getattr of unknown attribute %s" % attr)
            if args[0].id == "self":
                need_fields(cx, [attr], "getattr(self, %r)" % attr)
            return "(%s v_%s)" % (coqf(attr), args[0].id), RD_FIELDS[attr]
        if f.id in cx.types and cx.types[f.id] == CMPT and len(args) == 2:
            (a, ta), (b, tb) = vals()
            if ta == DT and tb == DT:
                return "(py_compare v_%s %s %s)" % (f.id, a, b), BOOL
        raise TE("call of %s is not in the call table" % f.id)
    if is_attr_chain(f, ["calendar", "isleap"]) and len(args) == 1 and not e.keywords:
        (a, ta), = vals()
        if ta == INT:
            return "(is_leap %s)" % a, BOOL
    if is_attr_chain(f, ["datetime", "datetime", "fromordinal"]) and len(args) == 1 and not e.keywords:
        a0 = args[0]
        if (isinstance(a0, ast.Call) and isinstance(a0.func, ast.Attribute) and a0.func.attr == "toordinal"
                and not a0.args and not a0.keywords):
            a, ta = ev(a0.func.value, cx, binds, cond_pos)
            if ta == DT:
                return "(promote %s)" % a, DT
    if is_attr_chain(f, ["datetime", "timedelta"]) and not args:
        kws = {}
        for k in e.keywords:
            if k.arg not in TD_KW or k.arg in kws:
                raise TE("unsupported timedelta keyword %r" % (k.arg,))
            a, ta = ev(k.value, cx, binds, cond_pos)
            if ta != INT:
                raise TE("timedelta argument is not an int")
            kws[k.arg] = a
        return effect("td", "py_timedelta %s" % " ".join(kws.get(k, "0") for k in TD_KW), TD)
    if isinstance(f, ast.Attribute) and not (isinstance(f.value, ast.Name) and f.value.id in ("calendar", "datetime")):
        recv, tr = ev(f.value, cx, binds, cond_pos)
        if tr == DT and f.attr == "weekday" and not args and not e.keywords:
            return "(py_weekday %s)" % recv, INT
        if (tr == DT and f.attr == "replace" and not args and len(e.keywords) == 1 and e.keywords[0].arg is None
                and isinstance(e.keywords[0].value, ast.Name) and cx.types.get(e.keywords[0].value.id) == DICT):
            return effect("repl", "py_replace %s v_%s" % (recv, e.keywords[0].value.id), DT)
        if tr == OBJ and not e.keywords:
            if isinstance(f.value, ast.Name) and f.value.id == "self":
                need_fields(cx, list(RD_FIELDS), "call of self.%s" % f.attr)
            if f.attr in ("__add__", "__radd__") and len(args) == 1:
                name = "gen_add_dt" if f.attr == "__add__" else "gen_radd_dt"
                (a, ta), = vals()
                if ta == DT and name in cx.defs:
                    return effect("sum", "%s %s %s" % (name, recv, a), DT)
            if f.attr == "__neg__" and not args:
                return effect("neg", "of_gres (gen_neg %s)" % recv, OBJ)
    raise TE("call is not in the call table: " + ast.dump(e)[:140])


CMP = {ast.Lt: ("<?", False), ast.LtE: ("<=?", False), ast.Gt: ("<?", True), ast.GtE: ("<=?", True)}


def truth(term, t):
    if t == BOOL:
        return term
    if t == INT:
        return "(truth_z %s)" % term
    if t == OPT(INT):
        return "(truth_oz %s)" % term
    if is_opt(t):
        return "(truth_opt %s)" % term       # weekday objects are always true (checked by gen_rd_methods.py)
    if t in (DT, WD):
        return "true"                        # date / datetime / weekday objects define no __bool__ / __len__
    raise TE("truthiness of %r" % (t,))


def cond(e, cx, binds, cond_pos=False):
    if isinstance(e, ast.Compare):
        parts, left = [], e.left
        a, ta = ev(left, cx, binds, cond_pos)
        for i, (op, right) in enumerate(zip(e.ops, e.comparators)):
            b, tb = ev(right, cx, binds, cond_pos or i > 0)
            if isinstance(op, (ast.Is, ast.IsNot)):
                if tb != NONE or not is_opt(ta):
                    raise TE("`is` is supported only as `<optional> is [not] None`")
                p = "(truth_opt %s)" % a
                parts.append(p if isinstance(op, ast.IsNot) else "(negb %s)" % p)
            elif isinstance(op, (ast.Eq, ast.NotEq)):
                if ta == INT and tb == INT:
                    p = "(%s =? %s)" % (a, b)
                elif ta == BOOL and tb == BOOL:
                    p = "(Bool.eqb %s %s)" % (a, b)
                else:
                    raise TE("== on types %r, %r" % (ta, tb))
                parts.append(p if isinstance(op, ast.Eq) else "(negb %s)" % p)
            elif type(op) in CMP:
                sym, flip = CMP[type(op)]
                if ta == INT and tb == INT:
                    parts.append("(%s %s %s)" % ((b, sym, a) if flip else (a, sym, b)))
                elif ta == DT and tb == DT and isinstance(op, ast.Lt):
                    parts.append("(py_dt_lt %s %s)" % (a, b))
                else:
                    raise TE("ordering comparison on %r, %r" % (ta, tb))
            else:
                raise TE("unsupported comparison operator")
            a, ta = b, tb
        return parts[0] if len(parts) == 1 else "(" + " && ".join(parts) + ")"
    if isinstance(e, ast.BoolOp):
        op = " && " if isinstance(e.op, ast.And) else " || "
        return "(" + op.join(cond(v, cx, binds, cond_pos or i > 0) for i, v in enumerate(e.values)) + ")"
    if isinstance(e, ast.UnaryOp) and isinstance(e.op, ast.Not):
        return "(negb %s)" % cond(e.operand, cx, binds, cond_pos)
    a, t = ev(e, cx, binds, cond_pos)
    return truth(a, t)


def wrap(binds, text):
    """bind the hoisted calls (in order) around text"""
    for tmp, term in reversed(binds):
        text = "bind (%s) (fun %s =>\n%s)" % (term, tmp, text)
    return text


# ---------------------------------------------------------------- statements
def assigned(stmts):
    out = []

    def add(v):
        if v not in out:
            out.append(v)
    for s in stmts:
        if isinstance(s, ast.Assign):
            for t in s.targets:
                for n in (t.elts if isinstance(t, ast.Tuple) else [t]):
                    if isinstance(n, ast.Name):
                        add(n.id)
                    elif isinstance(n, (ast.Attribute, ast.Subscript)) and isinstance(n.value, ast.Name):
                        add(n.value.id)
                    else:
                        raise TE("unsupported assignment target")
        elif isinstance(s, ast.AugAssign):
            t = s.target
            if isinstance(t, ast.Name):
                add(t.id)
            elif isinstance(t, ast.Attribute) and isinstance(t.value, ast.Name):
                add(t.value.id)
            else:
                raise TE("unsupported assignment target")
        elif isinstance(s, ast.If):
            for v in assigned(s.body) + assigned(s.orelse):
                add(v)
        elif isinstance(s, (ast.For, ast.While)):
            for v in assigned(s.body) + assigned(s.orelse):
                add(v)
            if isinstance(s, ast.For):
                for n in (s.target.elts if isinstance(s.target, ast.Tuple) else [s.target]):
                    if isinstance(n, ast.Name):
                        add(n.id)
        elif isinstance(s, ast.Expr) and isinstance(s.value, ast.Call):
            f = s.value.func
            if isinstance(f, ast.Attribute) and isinstance(f.value, ast.Name):
                add(f.value.id)
    return out


def jumps(stmts):
    """may control leave the statement list by return / raise / break (a break inside a nested loop
    belongs to that loop)"""
    for s in stmts:
        if isinstance(s, (ast.Return, ast.Raise, ast.Break)):
            return True
        if isinstance(s, ast.If) and (jumps(s.body) or jumps(s.orelse)):
            return True
        if isinstance(s, (ast.For, ast.While)):
            if any(isinstance(n, (ast.Return, ast.Raise)) for st in s.body + s.orelse for n in ast.walk(st)):
                return True
    return False


def names_used(nodes):
    out = []
    for nd in nodes:
        for n in ast.walk(nd):
            if isinstance(n, ast.Name) and n.id not in out:
                out.append(n.id)
    return out


def pat_of(vs):
    return "v_" + vs[0] if len(vs) == 1 else "'(" + ", ".join("v_" + v for v in vs) + ")"


def tup_of(vs):
    return "v_" + vs[0] if len(vs) == 1 else "(" + ", ".join("v_" + v for v in vs) + ")"


def set_field(cx, attr, term, t):
    if attr not in RD_FIELDS:
        raise TE("assignment to unknown attribute %s" % attr)
    if cx.assigned is not None:
        cx.assigned.add(attr)
    cx.narrow.pop("self." + attr, None)
    return "let v_self := set_%s v_self %s in\n" % (coqf(attr), coerce(term, t, RD_FIELDS[attr]))


class Out:
    def __init__(self):
        self.pre = []      # top-level definitions emitted before the current one (loops)


def block(stmts, cx, k, out, name):
    """Coq text of type `res T` for stmts followed by k(cx)"""
    if not stmts:
        return k(cx)
    s, rest = stmts[0], stmts[1:]

    def nxt(c):
        return block(rest, c, k, out, name)
    if isinstance(s, ast.Expr) and isinstance(s.value, ast.Constant) and isinstance(s.value.value, str):
        return nxt(cx)
    if isinstance(s, ast.Return):
        if rest or s.value is None:
            raise TE("statements after return / bare return")
        binds = []
        a, t = ev(s.value, cx, binds)
        if t != cx.types.get("<ret>"):
            raise TE("return type %r, expected %r" % (t, cx.types.get("<ret>")))
        return wrap(binds, "Ok %s" % a)
    if isinstance(s, ast.Break):
        if rest or cx.in_loop is None:
            raise TE("break outside an unrolled loop")
        return cx.in_loop(cx)
    if isinstance(s, ast.Raise):
        if rest:
            raise TE("statements after raise")
        ex = s.exc
        nm = ex.func.id if isinstance(ex, ast.Call) and isinstance(ex.func, ast.Name) else None
        if nm not in EXC or s.cause is not None:
            raise TE("unsupported raise")
        return "Err %s" % EXC[nm]
    if isinstance(s, ast.Assert):
        if s.msg is not None:
            raise TE("assert with message")
        binds = []
        c = cond(s.test, cx, binds)
        return wrap(binds, "bind (py_assert %s) (fun _ =>\n%s)" % (c, nxt(cx)))
    if isinstance(s, ast.Assign):
        if len(s.targets) != 1:
            raise TE("chained assignment")
        tgt = s.targets[0]
        # d = {"k": e, ...}
        if isinstance(tgt, ast.Name) and isinstance(s.value, ast.Dict):
            binds, txt, seen = [], "let v_%s := repl_empty in\n" % tgt.id, set()
            for kk, vv in zip(s.value.keys, s.value.values):
                if not (isinstance(kk, ast.Constant) and kk.value in REPL_KEYS) or kk.value in seen:
                    raise TE("unsupported dictionary key")
                seen.add(kk.value)
                a, t = ev(vv, cx, binds)
                if t != INT:
                    raise TE("dictionary value is not an int")
                txt += "let v_%s := set_r_%s v_%s %s in\n" % (tgt.id, kk.value, tgt.id, a)
            c2 = cx.copy()
            c2.types[tgt.id] = DICT
            return wrap(binds, txt + nxt(c2))
        # x = [int literals]
        if (isinstance(tgt, ast.Name) and isinstance(s.value, ast.List) and s.value.elts and all(
                isinstance(x, ast.Constant) and isinstance(x.value, int) and not isinstance(x.value, bool)
                for x in s.value.elts)):
            c2 = cx.copy()
            c2.lists[tgt.id] = [x.value for x in s.value.elts]
            return nxt(c2)
        # a, b = e1, e2
        if isinstance(tgt, ast.Tuple):
            if (not isinstance(s.value, ast.Tuple) or len(s.value.elts) != len(tgt.elts)
                    or not all(isinstance(x, ast.Name) for x in tgt.elts)):
                raise TE("unsupported tuple assignment")
            binds = []
            vs = [ev(v, cx, binds) for v in s.value.elts]
            c2 = cx.copy()
            for x, (_, t) in zip(tgt.elts, vs):
                c2.types[x.id] = t
            return wrap(binds, "let '(%s) := (%s) in\n" % (", ".join("v_" + x.id for x in tgt.elts),
                                                            ", ".join(a for a, _ in vs)) + nxt(c2))
        binds = []
        a, t = ev(s.value, cx, binds)
        if isinstance(tgt, ast.Name):
            if tgt.id == "self" or tgt.id in cx.consts:
                raise TE("assignment to self / a loop constant")
            c2 = cx.copy()
            if t == NONE:
                raise TE("local variable assigned None")
            c2.types[tgt.id] = t
            c2.lists.pop(tgt.id, None)
            return wrap(binds, "let v_%s := %s in\n" % (tgt.id, a) + nxt(c2))
        if isinstance(tgt, ast.Attribute) and isinstance(tgt.value, ast.Name) and tgt.value.id == "self" \
                and cx.types.get("self") == OBJ:
            c2 = cx.copy()
            return wrap(binds, set_field(c2, tgt.attr, a, t) + nxt(c2))
        if (isinstance(tgt, ast.Subscript) and isinstance(tgt.value, ast.Name) and cx.types.get(tgt.value.id) == DICT
                and isinstance(tgt.slice, ast.Name) and cx.consts.get(tgt.slice.id) in REPL_KEYS):
            if t != INT:
                raise TE("dictionary value is not an int (an attribute that may be None must be tested first)")
            d = tgt.value.id
            return wrap(binds, "let v_%s := set_r_%s v_%s %s in\n" % (d, cx.consts[tgt.slice.id], d, a) + nxt(cx))
        raise TE("unsupported assignment target")
    if isinstance(s, ast.AugAssign) and type(s.op) in (ast.Add, ast.Sub, ast.Mult):
        binds = []
        cur, tc = ev(s.target, cx, binds)
        a, t = ev(s.value, cx, binds)
        if t == TD and tc == DT and isinstance(s.op, ast.Add) and isinstance(s.target, ast.Name):
            tmp = cx.tmp("sum")
            binds.append((tmp, "py_dt_add %s %s" % (cur, a)))
            return wrap(binds, "let v_%s := %s in\n" % (s.target.id, tmp) + nxt(cx))
        if t != INT or tc != INT:
            raise TE("augmented assignment on non-int")
        new = "(%s %s %s)" % (cur, {ast.Add: "+", ast.Sub: "-", ast.Mult: "*"}[type(s.op)], a)
        if isinstance(s.target, ast.Name):
            if s.target.id in cx.consts:
                raise TE("assignment to a loop constant")
            return wrap(binds, "let v_%s := %s in\n" % (s.target.id, new) + nxt(cx))
        if isinstance(s.target, ast.Attribute) and isinstance(s.target.value, ast.Name) and s.target.value.id == "self":
            c2 = cx.copy()
            return wrap(binds, set_field(c2, s.target.attr, new, INT) + nxt(c2))
        raise TE("unsupported augmented assignment")
    if isinstance(s, ast.Expr) and isinstance(s.value, ast.Call):
        c = s.value
        if (isinstance(c.func, ast.Attribute) and isinstance(c.func.value, ast.Name) and c.func.value.id == "self"
                and cx.types.get("self") == OBJ and not c.keywords):
            if c.func.attr == "_set_months" and len(c.args) == 1:
                need_fields(cx, list(RD_FIELDS), "call of self._set_months")
                binds = []
                a, t = ev(c.args[0], cx, binds)
                if t != INT:
                    raise TE("_set_months argument is not an int")
                return wrap(binds, "bind (of_gres (gen_set_months v_self %s)) (fun v_self =>\n%s)" % (a, nxt(cx)))
            if c.func.attr == "_fix" and not c.args:
                need_fields(cx, [f for f in RD_FIELDS if f != "_has_time"], "call of self._fix")
                c2 = cx.copy()
                if c2.assigned is not None:
                    c2.assigned.add("_has_time")
                return "bind (of_gres (gen_fix v_self)) (fun v_self =>\n%s)" % nxt(c2)
        raise TE("unsupported call statement")
    if isinstance(s, ast.If):
        return if_stmt(s, rest, cx, k, out, name)
    if isinstance(s, ast.For):
        return for_stmt(s, rest, cx, k, out, name)
    if isinstance(s, ast.While):
        return while_stmt(s, rest, cx, k, out, name)
    raise TE("unsupported statement: " + ast.dump(s)[:160])


def is_notimpl_guard(s):
    return (not s.orelse or True) and len(s.body) == 1 and isinstance(s.body[0], ast.Return) \
        and isinstance(s.body[0].value, ast.Name) and s.body[0].value.id == "NotImplemented" \
        and dumpeq(s.test, "not isinstance(other, datetime.date)")


def is_typeerror_guard(s, cx):
    if s.orelse or len(s.body) != 1 or not isinstance(s.body[0], ast.Raise):
        return False
    ex = s.body[0].exc
    if not (isinstance(ex, ast.Call) and isinstance(ex.func, ast.Name) and ex.func.id == "TypeError"):
        return False
    return (dumpeq(s.test, "not (isinstance(dt1, datetime.date) and isinstance(dt2, datetime.date))")
            and cx.types.get("dt1") == DT and cx.types.get("dt2") == DT)


def if_stmt(s, rest, cx, k, out, name):
    # guards on the operand types: the operands are dates, the guarded arm is dropped
    if is_notimpl_guard(s) and cx.types.get("other") == DT:
        return block(list(s.orelse) + list(rest), cx, k, out, name)
    if is_typeerror_guard(s, cx):
        return block(list(rest), cx, k, out, name)
    binds = []
    c = cond(s.test, cx, binds)
    # narrowing: `if self.weekday:`
    narrow_key = None
    t = s.test
    if (isinstance(t, ast.Attribute) and isinstance(t.value, ast.Name) and cx.types.get(t.value.id) == OBJ
            and RD_FIELDS.get(t.attr) == OPT(WD)):
        narrow_key = t.value.id + "." + t.attr
    # narrowing of an int-or-None local: `if x:` / `if x is not None:`
    nl = None
    if isinstance(t, ast.Name) and cx.types.get(t.id) == OPT(INT):
        nl = ("truthy", t.id)
    elif (isinstance(t, ast.Compare) and len(t.ops) == 1 and isinstance(t.ops[0], ast.IsNot)
          and isinstance(t.left, ast.Name) and cx.types.get(t.left.id) == OPT(INT)
          and isinstance(t.comparators[0], ast.Constant) and t.comparators[0].value is None):
        nl = ("notnone", t.left.id)

    def combine(then_txt, else_fn):
        if nl is None:
            return "if %s then (\n%s)\nelse (\n%s)" % (c, then_txt, else_fn())
        if nl[0] == "notnone":
            return "match v_%s with\n| Some v_%s => (\n%s)\n| None => (\n%s)\nend" % (nl[1], nl[1], then_txt, else_fn())
        return ("match v_%s with\n| Some v_%s => (\nif (truth_z v_%s) then (\n%s)\nelse (\n%s))\n| None => (\n%s)\nend"
                % (nl[1], nl[1], nl[1], then_txt, else_fn(), else_fn()))

    def narrowed_cx():
        c2 = cx.copy()
        if nl is not None:
            c2.types[nl[1]] = INT
        return c2
    if jumps([s]):
        # control may leave inside: the continuation is inlined in both arms
        def arm(stmts, narrowed):
            c2 = narrowed_cx() if stmts is s.body else cx.copy()
            if narrowed:
                v = c2.tmp("wd")
                c2.narrow[narrow_key] = v
                body = block(list(stmts) + list(rest), c2, k, out, name)
                return "match %s with\n| Some %s =>\n%s\n| None => Err EIndex\nend" % (
                    "(%s v_%s)" % (coqf(t.attr), t.value.id), v, body)
            return block(list(stmts) + list(rest), c2, k, out, name)
        return wrap(binds, combine(arm(s.body, narrow_key is not None), lambda: arm(s.orelse, False)))
    # join: variables that survive the if
    a_body, a_else = assigned(s.body), assigned(s.orelse)
    defined = set(cx.types)
    keep = [v for v in assigned([s]) if (v in a_body and v in a_else) or v in defined]
    if not keep:
        raise TE("if-statement without surviving assignment")
    seen = {}

    def probe(tag):
        def kk(c2):
            seen[tag] = (dict((v, c2.types[v]) for v in keep), None if c2.assigned is None else set(c2.assigned))
            return "probe"
        return kk

    def run(stmts, kk, narrowed, o):
        c2 = narrowed_cx() if stmts is s.body else cx.copy()
        c2.in_loop = None
        if narrowed:
            v = c2.tmp("wd")
            c2.narrow[narrow_key] = v
            body = block(list(stmts), c2, kk, o, name)
            return "match %s with\n| Some %s =>\n%s\n| None => Err EIndex\nend" % (
                "(%s v_%s)" % (coqf(t.attr), t.value.id), v, body)
        return block(list(stmts), c2, kk, o, name)
    save, save_defs = cx.ntmp[0], set(cx.defs)
    run(s.body, probe("t"), narrow_key is not None, Out())
    run(s.orelse, probe("e"), False, Out())
    cx.ntmp[0] = save
    cx.defs.intersection_update(save_defs)
    tys = {v: unify(seen["t"][0][v], seen["e"][0][v]) for v in keep}

    def tup(c2):
        parts = [coerce("v_" + v, c2.types[v] if v in c2.types else cx.types[v], tys[v]) for v in keep]
        return "Ok " + (parts[0] if len(parts) == 1 else "(" + ", ".join(parts) + ")")
    then_txt = run(s.body, tup, narrow_key is not None, out)
    c2 = cx.copy()
    for v in keep:
        c2.types[v] = tys[v]
    if cx.assigned is not None:
        c2.assigned = seen["t"][1] & seen["e"][1]
    return wrap(binds, "bind (%s) (fun %s =>\n%s)" % (
        combine(then_txt, lambda: run(s.orelse, tup, False, out)), pat_of(keep), block(list(rest), c2, k, out, name)))


def for_stmt(s, rest, cx, k, out, name):
    """unrolled: `for x in [str constants]` / `for i, x in enumerate(<literal int list>)` [else]"""
    it = s.iter
    rows = None
    if (isinstance(it, ast.List) and isinstance(s.target, ast.Name) and it.elts
            and all(isinstance(x, ast.Constant) and isinstance(x.value, str) for x in it.elts)):
        rows = [{s.target.id: x.value} for x in it.elts]
    elif (isinstance(it, ast.Call) and isinstance(it.func, ast.Name) and it.func.id == "enumerate" and len(it.args) == 1
          and not it.keywords and isinstance(it.args[0], ast.Name) and it.args[0].id in cx.lists
          and isinstance(s.target, ast.Tuple) and len(s.target.elts) == 2
          and all(isinstance(x, ast.Name) for x in s.target.elts)):
        rows = [{s.target.elts[0].id: i, s.target.elts[1].id: v} for i, v in enumerate(cx.lists[it.args[0].id])]
    if rows is None:
        raise TE("unsupported for loop")
    for r in rows:
        for v in r:
            if v in cx.types or v == "self":
                raise TE("loop variable shadows a local")
    has_break = any(isinstance(n, ast.Break) for st in s.body for n in ast.walk(st))
    if s.orelse and not has_break:
        raise TE("for/else without break")
    if any(isinstance(n, ast.Return) for st in s.body for n in ast.walk(st)):
        raise TE("return inside a for loop")

    def after(c):
        c2 = c.copy()
        for r in rows:
            for v in r:
                c2.consts.pop(v, None)
        c2.in_loop = cx.in_loop
        return block(list(rest), c2, k, out, name)

    def iteration(i, c):
        if i == len(rows):
            c2 = c.copy()
            for v in rows[0]:
                c2.consts.pop(v, None)
            c2.in_loop = cx.in_loop
            return block(list(s.orelse) + list(rest), c2, k, out, name) if s.orelse else after(c)
        c2 = c.copy()
        c2.consts.update(rows[i])
        c2.in_loop = after
        return block(list(s.body), c2, lambda c3: iteration(i + 1, c3), out, name)
    return iteration(0, cx)


def while_stmt(s, rest, cx, k, out, name):
    if s.orelse:
        raise TE("while/else")
    if any(isinstance(n, (ast.Return, ast.Break, ast.Continue)) for st in s.body for n in ast.walk(st)):
        raise TE("return / break / continue inside a while loop")
    state = [v for v in assigned(s.body) if v in cx.types]
    if not state:
        raise TE("while loop without loop-carried state")
    used = [v for v in names_used([s.test] + list(s.body)) if v in cx.types and v not in state]
    for v in state + used:
        if cx.types[v] not in COQT:
            raise TE("loop variable of unsupported type")
    if cx.assigned is not None and "self" in state + used:
        need_fields(cx, list(RD_FIELDS), "while loop using self")
    loop = "%s_loop" % name
    if loop in cx.defs:
        raise TE("more than one while loop in %s" % name)
    c2 = cx.copy()
    c2.in_loop = None
    binds = []
    c = cond(s.test, c2, binds)
    if binds:
        raise TE("loop condition may raise")
    args = " ".join("v_" + v for v in used)
    body = block(list(s.body), c2, lambda c3: "%s fuel' %s %s" % (loop, args, " ".join("v_" + v for v in state)), out, name)
    sig = " ".join("(v_%s : %s)" % (v, COQT[cx.types[v]]) for v in used + state)
    rty = " * ".join(COQT[cx.types[v]] for v in state)
    out.pre.append("Fixpoint %s (fuel : nat) %s : res (%s) :=\n  match fuel with\n  | O => Err EFuel\n  | S fuel' =>\n"
                   "if %s then (\n%s)\nelse Ok %s\n  end.\n" % (loop, sig, rty, c, body, tup_of(state)))
    cx.defs.add(loop)
    return "bind (%s diff_fuel %s %s) (fun %s =>\n%s)" % (loop, args, " ".join("v_" + v for v in state),
                                                       pat_of(state), block(list(rest), cx, k, out, name))


# ---------------------------------------------------------------- methods
def find_class(tree, name):
    cls = [n for n in tree.body if isinstance(n, ast.ClassDef) and n.name == name]
    if len(cls) != 1:
        raise TE("class %s not found" % name)
    return cls[0]


def find_def(body, name, params):
    fs = [n for n in body if isinstance(n, ast.FunctionDef) and n.name == name]
    if len(fs) != 1:
        raise TE("def %s not found (or defined twice)" % name)
    f = fs[0]
    if f.decorator_list or f.args.vararg or f.args.kwarg or f.args.kwonlyargs:
        raise TE("unexpected signature / decorator on %s" % name)
    if params is not None and ([a.arg for a in f.args.args] != params or f.args.defaults):
        raise TE("unexpected parameters of %s" % name)
    return f


def strip_doc(body):
    return [s for s in body if not (isinstance(s, ast.Expr) and isinstance(s.value, ast.Constant)
                                    and isinstance(s.value.value, str))]


def indent(txt):
    out, depth = [], 1
    for line in txt.split("\n"):
        opens, closes = line.count("("), line.count(")")
        lead = 0
        for ch in line:
            if ch == ")":
                lead += 1
            else:
                break
        out.append("  " * max(1, depth - lead) + line)
        depth += opens - closes
    return "\n".join(out)


def define(name, sig, rty, body, out):
    pre = "".join(indent_def(p) for p in out.pre)
    out.pre = []
    return pre + "Definition %s %s : res %s :=\n%s.\n" % (name, sig, rty, indent(body))


def indent_def(p):
    head, _, tail = p.partition("\n")
    return head + "\n" + indent(tail[:-2]) + ".\n\n" if tail.endswith(".\n") else p


def translate(src):
    tree = ast.parse(src)
    rd = find_class(tree, "relativedelta")
    outl = ["(* GENERATED by harness/gen_rd_add.py from /repo/src/dateutil/relativedelta.py -- do not edit *)",
            "From Coq Require Import ZArith Bool.",
            "From V Require Import base.Cal rd.RdBase rd.RdModel rd.RdGenBase gen.RdMethodsGen rd.RdAddGenBase.",
            "Open Scope Z_scope.", ""]
    errors, defs = [], set()
    imports = {a.name for n in tree.body if isinstance(n, ast.Import) for a in n.names if a.asname is None}

    def attempt(name, f):
        try:
            for m in ("datetime", "calendar", "operator"):
                if m not in imports:
                    raise TE("module %s is not imported as itself" % m)
            outl.append(f())
            defs.add(name)
        except TranslateError as ex:
            errors.append((name, str(ex)))
            outl.append("(* TRANSLATE-ERROR %s: %s *)\n" % (name, str(ex).replace("*)", "* )").replace("(*", "( *")))

    def new_cx():
        cx = Cx()
        cx.defs = defs
        return cx

    # ---- __add__ on a date / datetime: the statements after the two leading isinstance-returns
    def add_dt():
        fn = find_def(rd.body, "__add__", ["self", "other"])
        b = strip_doc(fn.body)
        if not (len(b) > 2 and isinstance(b[0], ast.If) and dumpeq(b[0].test, "isinstance(other, relativedelta)")
                and not b[0].orelse and isinstance(b[0].body[-1], ast.Return)
                and isinstance(b[1], ast.If) and dumpeq(b[1].test, "isinstance(other, datetime.timedelta)")
                and not b[1].orelse and isinstance(b[1].body[-1], ast.Return)):
            raise TE("__add__ does not start with the relativedelta / timedelta branches (each ending in return)")
        cx = new_cx()
        cx.types.update({"self": OBJ, "other": DT, "<ret>": DT})
        out = Out()

        def k(c):
            raise TE("control reaches the end of __add__ without return")
        body = block(b[2:], cx, k, out, "gen_add_dt")
        return define("gen_add_dt", "(v_self : obj) (v_other : pydt)", "pydt", body, out)
    attempt("gen_add_dt", add_dt)

    def simple(pyname, coqname, ret):
        def f():
            fn = find_def(rd.body, pyname, ["self", "other"])
            cx = new_cx()
            cx.types.update({"self": OBJ, "other": DT, "<ret>": ret})
            out = Out()

            def k(c):
                raise TE("control reaches the end of %s without return" % pyname)
            body = block(strip_doc(fn.body), cx, k, out, coqname)
            return define(coqname, "(v_self : obj) (v_other : pydt)", COQT[ret], body, out)
        return f
    attempt("gen_radd_dt", simple("__radd__", "gen_radd_dt", DT))
    attempt("gen_rsub_dt", simple("__rsub__", "gen_rsub_dt", DT))

    # ---- __init__
    def init_parts():
        fn = find_def(rd.body, "__init__", None)
        b = strip_doc(fn.body)
        if not (len(b) == 2 and isinstance(b[0], ast.If) and dumpeq(b[0].test, "dt1 and dt2")
                and dumpeq(b[1], "self._fix()", "exec")):
            raise TE("__init__ is not `if dt1 and dt2: ... else: ...` followed by self._fix()")
        return b[0].body, b[0].orelse, b[1]

    def init_diff():
        two, _kw, fix = init_parts()
        cx = new_cx()
        cx.types.update({"self": OBJ, "dt1": DT, "dt2": DT, "<ret>": OBJ})
        cx.assigned = set()
        out = Out()

        def k(c):
            need_fields(c, list(RD_FIELDS), "end of __init__")
            return "Ok v_self"
        body = block(list(two) + [fix], cx, k, out, "gen_init_diff")
        return define("gen_init_diff", "(v_dt1 v_dt2 : pydt)", "obj", "let v_self := obj0 in\n" + body, out)
    attempt("gen_init_diff", init_diff)

    def init_yearday():
        _two, kw, _fix = init_parts()
        idx = [i for i, st in enumerate(kw) if dumpeq(st, "yday = 0", "exec")]
        if len(idx) != 1:
            raise TE("`yday = 0` not found exactly once in the keyword branch of __init__")
        tail = kw[idx[0]:]
        # nothing but the yearday conversion may follow (gen_rd_methods.check_init_shape checks the part before)
        used = names_used(tail)
        for v in used:
            if v not in ("yday", "nlyearday", "yearday", "self", "ydayidx", "idx", "ydays", "enumerate", "ValueError"):
                raise TE("the yearday conversion uses the unexpected name %s" % v)
        cx = new_cx()
        cx.types.update({"self": OBJ, "yearday": OPT(INT), "nlyearday": OPT(INT), "<ret>": OBJ})
        out = Out()
        body = block(list(tail), cx, lambda c: "Ok v_self", out, "gen_init_yearday")
        return define("gen_init_yearday", "(v_self : obj) (v_yearday v_nlyearday : option Z)", "obj", body, out)
    attempt("gen_init_yearday", init_yearday)
    return "\n".join(outl), errors


def main():
    here = os.path.dirname(os.path.dirname(os.path.abspath(__file__)))
    repo = os.environ.get("VERIF_REPO", "/repo")
    path = os.path.join(repo, "src/dateutil/relativedelta.py")
    out_path = sys.argv[1] if len(sys.argv) > 1 else os.path.join(here, "coq/gen/RdAddGen.v")
    try:
        txt, errors = translate(open(path).read())
    except Exception as ex:       # incl. bugs of this translator: fail closed
        txt, errors = ("(* GENERATED by harness/gen_rd_add.py -- do not edit *)\n"
                       "(* TRANSLATE-ERROR source: %s *)\n" % str(ex).replace("*)", "* )").replace("(*", "( *")), [("source", str(ex))]
    for name, msg in errors:
        print("TRANSLATE-ERROR %s: %s" % (name, msg))
    try:
        old = open(out_path).read()
    except OSError:
        old = None
    if old != txt:
        open(out_path, "w").write(txt)
        print("regenerated", out_path)
    # exit 0 even on a translation error (as gen_rd_methods.py): the incomplete output makes
    # coq/rd/RdAddGenThm.v (hence the C03_gen_* / C09_gen_* obligations) fail to compile, which
    # check_C03 / check_C09 report; unrelated checks are not disturbed
    return 0


if __name__ == "__main__":
    sys.exit(main())
