#!/usr/bin/env python3
"""Fail-closed translator:  /repo/src/dateutil/rrule.py, class rrulebase  ->  coq/gen/RQueryGen.v, coq/gen/RCacheGen.v

(a) coq/gen/RQueryGen.v -- the query methods __getitem__, __contains__, count, before, after, xafter,
    between as Gallina functions gen_<name> over the abstract sequence L (what iter(self) yields, C11)
    in the vocabulary of coq/rcache/RQueryModel.v, PyList.v, RGenBase.v.
    coq/rcache/RQueryGenThm.v proves gen_<name> = the hand-written model for ALL inputs.
(b) coq/gen/RCacheGen.v -- _iter_cached as a table with one instruction per source line (offset from the
    `def` line, effect, jump targets), __iter__ as its dispatch, _invalidate_cache and __init__ as
    functions on the shared state.  coq/rcache/RCacheGenThm.v proves that interpreting the generated table
    is RCacheModel.step_thread and that the generated shared-state functions are the model's.
(c) length publication: in rrule._iter / rruleset._iter every `return` is immediately preceded by
    `self._len = total`, every `yield` by `total += 1`, `total = 0` once, and (rruleset) the function ends
    with `self._len = total`; nothing else assigns self._len.  (A structural check: abort otherwise.)

ACCEPTED SUBSET for (a) -- anything else raises TranslateError, the script exits 2, harness/common.py
poisons coq/gen/RQueryGen.v and coq/gen/RCacheGen.v, and props/C11.v / props/C12.v stop compiling:
 method signatures exactly (self, item) / (self) / (self, dt, inc=False) / (self, dt, count=None,
   inc=False) / (self, after, before, inc=False, count=1)
 statements: docstring; `x = e`; `x += e`; `x.append(e)`; `pass`; `break`; `return e`; `return`;
   `yield e` (the method then returns the list of yielded values); `raise IndexError`;
   `if c: .. [elif ..] [else: ..]`; `for x in <gen>:` where <gen> is `self`, `self._cache`, or a local
   bound to one of them by the prologue `if self._cache_complete: gen = self._cache else: gen = self`;
   `gen = iter(self)` followed by `try: for i in range(e): res = advance_iterator(gen)
   except StopIteration: raise IndexError`
 expressions: names, None / True / False / int literals, `a <op> b` for < <= > >= == on instants / ints,
   `a + b`, and / or / not, `x is None`, `x is not None` (an option test refines x in the guarded part),
   `isinstance(item, slice)` (refines item), item.start / .stop / .step, lambdas of two arguments bound to
   a local and called, `any(<cond> for x in (e1, e2, e3))` (unrolled), `self._cache_complete`,
   `self._len`, and the list-level primitives `self._cache[item]`, `list(iter(self))[item]`,
   `list(itertools.islice(self, a, b, c))`, `item in self._cache`.
"""
import ast
import os
import sys


class TranslateError(Exception):
    pass


Z, OPT, BOOL, LST, ITEM, FUN2, QRES, ITER, NONE_T, ISTATE = "Z", "optZ", "bool", "listZ", "item", "fun2", "qres", "iter", "none", "istate"
COQ_T = {Z: "Z", OPT: "option Z", BOOL: "bool", LST: "list Z", ITEM: "item", FUN2: "Z -> Z -> bool",
         ISTATE: "list Z"}

SIGS = {
    "__getitem__": (["self", "item"], [], {"item": ITEM}),
    "__contains__": (["self", "item"], [], {"item": Z}),
    "count": (["self"], [], {}),
    "before": (["self", "dt", "inc"], [False], {"dt": Z, "inc": BOOL}),
    "after": (["self", "dt", "inc"], [False], {"dt": Z, "inc": BOOL}),
    "xafter": (["self", "dt", "count", "inc"], [None, False], {"dt": Z, "count": OPT, "inc": BOOL}),
    "between": (["self", "after", "before", "inc", "count"], [False, 1], {"after": Z, "before": Z, "inc": BOOL}),
}


def fail(msg, node=None):
    where = " (line %d)" % node.lineno if node is not None and hasattr(node, "lineno") else ""
    raise TranslateError(msg + where)


def is_self_attr(n, attr):
    return isinstance(n, ast.Attribute) and isinstance(n.value, ast.Name) and n.value.id == "self" and n.attr == attr


def is_name(n, name=None):
    return isinstance(n, ast.Name) and (name is None or n.id == name)


class Env(object):
    def __init__(self, d=None):
        self.d = dict(d or {})

    def copy(self):
        return Env(self.d)

    def set(self, name, coq, ty):
        e = self.copy()
        e.d[name] = (coq, ty)
        return e

    def get(self, name, node=None):
        if name not in self.d:
            fail("unbound name %r" % name, node)
        return self.d[name]


class Method(object):
    """compiles one method"""

    def __init__(self, fn):
        self.fn = fn
        self.name = fn.name
        self.aux = []            # auxiliary Fixpoints
        self.nloops = 0
        self.is_gen = any(isinstance(n, (ast.Yield, ast.YieldFrom)) for n in ast.walk(fn))

    # ---------------------------------------------------------------- expressions
    def item_expr(self, env):
        coq, ty = env.get("item")
        if ty == ITEM:
            return coq
        fail("item used as a subscript after it was refined to %s" % ty)

    def expr(self, n, env):
        """-> (coq text, type)"""
        if isinstance(n, ast.Constant):
            if n.value is None:
                return "None", NONE_T
            if n.value is True:
                return "true", BOOL
            if n.value is False:
                return "false", BOOL
            if isinstance(n.value, int):
                return "(%d)" % n.value, Z
            fail("constant %r" % (n.value,), n)
        if isinstance(n, ast.Name):
            coq, ty = env.get(n.id, n)
            return coq, ty
        if isinstance(n, ast.List) and not n.elts:
            return "[]", LST
        if is_self_attr(n, "_cache_complete"):
            return "complete", BOOL
        if is_self_attr(n, "_len"):
            return env.get("%len", n)
        if isinstance(n, ast.Attribute) and is_name(n.value, "item") and n.attr in ("start", "stop", "step"):
            key = "%item." + n.attr
            if key not in env.d:
                fail("item.%s on an item not known to be a slice" % n.attr, n)
            return env.d[key]
        if isinstance(n, ast.BinOp) and isinstance(n.op, ast.Add):
            a, ta = self.expr(n.left, env)
            b, tb = self.expr(n.right, env)
            if ta != Z or tb != Z:
                fail("+ on non-integers", n)
            return "(%s + %s)" % (a, b), Z
        if isinstance(n, ast.Lambda):
            args = [a.arg for a in n.args.args]
            if len(args) != 2 or n.args.defaults or n.args.vararg or n.args.kwarg:
                fail("lambda must take two plain arguments", n)
            e2 = env.set(args[0], "a_" + args[0], Z).set(args[1], "a_" + args[1], Z)
            body = self.cond(n.body, e2)
            return "(fun a_%s a_%s => %s)" % (args[0], args[1], body), FUN2
        if isinstance(n, (ast.Compare, ast.BoolOp, ast.UnaryOp)) or (
                isinstance(n, ast.Call) and (is_name(n.func, "isinstance") or is_name(n.func, "any") or
                                             (isinstance(n.func, ast.Name) and env.d.get(n.func.id, (None, None))[1] == FUN2))):
            if isinstance(n, ast.Compare) and len(n.ops) == 1 and isinstance(n.ops[0], ast.In):
                # item in self._cache
                if not is_self_attr(n.comparators[0], "_cache"):
                    fail("`in` only on self._cache", n)
                a, ta = self.expr(n.left, env)
                if ta != Z:
                    fail("membership of a non-instant", n)
                return "(existsb (Z.eqb %s) L)" % a, BOOL
            return self.cond(n, env), BOOL
        # list-level primitives
        if isinstance(n, ast.Subscript):
            base = n.value
            idx = n.slice
            if not is_name(idx, "item"):
                fail("subscript must be [item]", n)
            if is_self_attr(base, "_cache") or self.is_list_iter_self(base):
                return "(py_getitem L %s)" % self.item_expr(env), QRES
            fail("unsupported subscript", n)
        if isinstance(n, ast.Call) and is_name(n.func, "list") and len(n.args) == 1 and not n.keywords:
            c = n.args[0]
            if (isinstance(c, ast.Call) and isinstance(c.func, ast.Attribute) and c.func.attr == "islice" and
                    is_name(c.func.value, "itertools") and len(c.args) == 4 and not c.keywords and
                    is_name(c.args[0], "self")):
                parts = []
                for a in c.args[1:]:
                    t, ty = self.expr(a, env)
                    if ty != OPT:
                        fail("islice bounds must be the slice's own components", a)
                    parts.append(t)
                return "(of_slice (islice L %s %s %s))" % tuple(parts), QRES
        fail("unsupported expression: " + ast.dump(n)[:160], n)

    @staticmethod
    def is_list_iter_self(n):
        return (isinstance(n, ast.Call) and is_name(n.func, "list") and len(n.args) == 1 and not n.keywords and
                isinstance(n.args[0], ast.Call) and is_name(n.args[0].func, "iter") and
                len(n.args[0].args) == 1 and is_name(n.args[0].args[0], "self"))

    def cond(self, n, env):
        """boolean expression -> coq bool text (Python truthiness of bools only)"""
        if isinstance(n, ast.Constant) and isinstance(n.value, bool):
            return "true" if n.value else "false"
        if isinstance(n, ast.Name):
            coq, ty = env.get(n.id, n)
            if ty != BOOL:
                fail("truthiness of a non-bool %r" % n.id, n)
            return coq
        if is_self_attr(n, "_cache_complete"):
            return "complete"
        if isinstance(n, ast.UnaryOp) and isinstance(n.op, ast.Not):
            return "(negb %s)" % self.cond(n.operand, env)
        if isinstance(n, ast.BoolOp):
            op = "&&" if isinstance(n.op, ast.And) else "||"
            return self.boolop(n.values, op, env)
        if isinstance(n, ast.Compare):
            if len(n.ops) != 1:
                fail("chained comparison", n)
            op = n.ops[0]
            if isinstance(op, (ast.Is, ast.IsNot)):
                if not (isinstance(n.comparators[0], ast.Constant) and n.comparators[0].value is None):
                    fail("`is` only against None", n)
                a, ta = self.expr(n.left, env)
                if ta != OPT:
                    fail("`is None` on a value that is never None", n)
                t = "match %s with Some _ => false | None => true end" % a
                return "(%s)" % t if isinstance(op, ast.Is) else "(negb (%s))" % t
            a, ta = self.expr(n.left, env)
            b, tb = self.expr(n.comparators[0], env)
            if ta != Z or tb != Z:
                fail("comparison of non-instants (%s, %s)" % (ta, tb), n)
            if isinstance(op, ast.Gt):
                return "(%s <? %s)" % (b, a)
            if isinstance(op, ast.GtE):
                return "(%s <=? %s)" % (b, a)
            if isinstance(op, ast.Lt):
                return "(%s <? %s)" % (a, b)
            if isinstance(op, ast.LtE):
                return "(%s <=? %s)" % (a, b)
            if isinstance(op, ast.Eq):
                return "(%s =? %s)" % (a, b)
            fail("comparison operator", n)
        if isinstance(n, ast.Call) and isinstance(n.func, ast.Name) and env.d.get(n.func.id, (None, None))[1] == FUN2:
            if len(n.args) != 2 or n.keywords:
                fail("call of a comparison lambda with two arguments", n)
            a, ta = self.expr(n.args[0], env)
            b, tb = self.expr(n.args[1], env)
            if ta != Z or tb != Z:
                fail("lambda arguments must be instants", n)
            return "(%s %s %s)" % (env.d[n.func.id][0], a, b)
        if isinstance(n, ast.Call) and is_name(n.func, "any") and len(n.args) == 1:
            g = n.args[0]
            if not (isinstance(g, ast.GeneratorExp) and len(g.generators) == 1 and not g.generators[0].ifs and
                    isinstance(g.generators[0].target, ast.Name) and isinstance(g.generators[0].iter, ast.Tuple)):
                fail("any() only over a generator expression on a tuple", n)
            var = g.generators[0].target.id
            parts = []
            for el in g.generators[0].iter.elts:
                t, ty = self.expr(el, env)
                parts.append(self.cond(g.elt, env.set(var, t, ty)))
            return "(" + " || ".join(parts) + ")"
        fail("unsupported condition: " + ast.dump(n)[:160], n)

    def boolop(self, values, op, env):
        """left to right; `x is not None and rest` refines x : option Z to Z in rest"""
        if len(values) == 1:
            return self.cond(values[0], env)
        v = values[0]
        if (op == "&&" and isinstance(v, ast.Compare) and len(v.ops) == 1 and isinstance(v.ops[0], ast.IsNot) and
                isinstance(v.left, ast.Name) and isinstance(v.comparators[0], ast.Constant) and
                v.comparators[0].value is None):
            coq, ty = env.get(v.left.id, v)
            if ty != OPT:
                fail("`is not None` on a value that is never None", v)
            fresh = "r_" + v.left.id
            rest = self.boolop(values[1:], op, env.set(v.left.id, fresh, Z))
            return "(match %s with Some %s => %s | None => false end)" % (coq, fresh, rest)
        return "(%s %s %s)" % (self.cond(v, env), op, self.boolop(values[1:], op, env))

    # ---------------------------------------------------------------- return values
    def to_qres(self, n, env):
        if n is None:
            return "QNone"
        t, ty = self.expr(n, env)
        if ty == QRES:
            return t
        if ty == Z:
            return "(QVal %s)" % t
        if ty == OPT:
            return "(of_opt %s)" % t
        if ty == BOOL:
            return "(QBool %s)" % t
        if ty == LST:
            return "(QList %s)" % t
        if ty == NONE_T:
            return "QNone"
        fail("cannot return a value of type %s" % ty, n)

    def coerce(self, t, ty, want, node):
        if ty == want:
            return t
        if want == OPT and ty == Z:
            return "(Some %s)" % t
        if want == OPT and ty == NONE_T:
            return "None"
        fail("assignment of %s to a variable of type %s" % (ty, want), node)

    # ---------------------------------------------------------------- method-level statements
    def end_of_method(self, env):
        if self.is_gen:
            return "(QList %s)" % env.get("%out")[0]
        return "QNone"           # falling off the end returns None

    def mstmts(self, ss, env, ind):
        pad = "  " * ind
        if not ss:
            return pad + self.end_of_method(env)
        s, rest = ss[0], ss[1:]
        if isinstance(s, ast.Expr) and isinstance(s.value, ast.Constant) and isinstance(s.value.value, str):
            return self.mstmts(rest, env, ind)
        if isinstance(s, ast.Pass):
            return self.mstmts(rest, env, ind)
        if isinstance(s, ast.Return):
            return pad + self.to_qres(s.value, env)
        if isinstance(s, ast.Raise):
            if is_name(s.exc, "IndexError") or (isinstance(s.exc, ast.Call) and is_name(s.exc.func, "IndexError")):
                return pad + "QIndexError"
            fail("raise of something else than IndexError", s)
        if isinstance(s, ast.Assign):
            if len(s.targets) != 1 or not isinstance(s.targets[0], ast.Name):
                fail("assignment target", s)
            name = s.targets[0].id
            # gen = iter(self): an iterator over the rule, consumed by advance_iterator(gen)
            if (isinstance(s.value, ast.Call) and is_name(s.value.func, "iter") and len(s.value.args) == 1 and
                    is_name(s.value.args[0], "self")):
                return (pad + "let v_%s := L in\n" % name +
                        self.mstmts(rest, env.set(name, "v_" + name, ISTATE), ind))
            t, ty = self.expr(s.value, env)
            if ty == NONE_T:
                ty, t = OPT, "(@None Z)"
            if ty not in COQ_T:
                fail("assignment of a %s" % ty, s)
            return pad + "let v_%s := %s in\n" % (name, t) + self.mstmts(rest, env.set(name, "v_" + name, ty), ind)
        if isinstance(s, ast.If):
            return self.m_if(s, rest, env, ind)
        if isinstance(s, ast.For):
            return self.m_for(s, rest, env, ind)
        if isinstance(s, ast.Try):
            return self.m_try(s, rest, env, ind)
        fail("unsupported statement " + type(s).__name__, s)

    def simple_assign_arm(self, arm):
        """{name: value node} when the arm is only simple assignments, else None"""
        out = {}
        for st in arm:
            if (isinstance(st, ast.Assign) and len(st.targets) == 1 and isinstance(st.targets[0], ast.Name)):
                out[st.targets[0].id] = st.value
            else:
                return None
        return out

    def m_if(self, s, rest, env, ind):
        pad = "  " * ind
        test = s.test
        # prologue: if self._cache_complete: gen = self._cache / else: gen = self
        a, b = self.simple_assign_arm(s.body), self.simple_assign_arm(s.orelse)
        if (is_self_attr(test, "_cache_complete") and a is not None and b is not None and list(a) == list(b) and
                len(a) == 1 and is_self_attr(list(a.values())[0], "_cache") and is_name(list(b.values())[0], "self")):
            name = list(a)[0]
            return (pad + "let v_%s := (if complete then L else L) in\n" % name +
                    self.mstmts(rest, env.set(name, "v_" + name, ITER), ind))
        # isinstance(item, slice): refine item
        if (isinstance(test, ast.Call) and is_name(test.func, "isinstance") and len(test.args) == 2 and
                is_name(test.args[0], "item") and is_name(test.args[1], "slice")):
            coq, ty = env.get("item", test)
            if ty != ITEM:
                fail("isinstance(item, slice) on a refined item", test)
            e_s = env.copy()
            e_s.d["item"] = ("(ISlice s_start s_stop s_step)", ITEM)
            for f in ("start", "stop", "step"):
                e_s.d["%item." + f] = ("s_" + f, OPT)
            e_i = env.copy()
            e_i.d["item"] = ("(IInt i_item)", ITEM)
            e_i.d["%item.int"] = ("i_item", Z)
            return (pad + "match %s with\n" % coq +
                    pad + "| ISlice s_start s_stop s_step =>\n" + self.mstmts(s.body + rest, e_s, ind + 1) + "\n" +
                    pad + "| IInt i_item =>\n" + self.mstmts(s.orelse + rest, e_i, ind + 1) + "\n" +
                    pad + "end")
        # x is None / x is not None on an option: refine
        if (isinstance(test, ast.Compare) and len(test.ops) == 1 and isinstance(test.ops[0], (ast.Is, ast.IsNot)) and
                isinstance(test.comparators[0], ast.Constant) and test.comparators[0].value is None):
            t, ty = self.expr(test.left, env)
            if ty != OPT:
                fail("`is None` on a value that is never None", test)
            e_some = env
            if isinstance(test.left, ast.Name):
                e_some = env.set(test.left.id, "r_" + test.left.id, Z)
                pat = "r_" + test.left.id
            else:
                pat = "_"
            some_arm, none_arm = (s.orelse, s.body) if isinstance(test.ops[0], ast.Is) else (s.body, s.orelse)
            return (pad + "match %s with\n" % t +
                    pad + "| Some %s =>\n" % pat + self.mstmts(some_arm + rest, e_some, ind + 1) + "\n" +
                    pad + "| None =>\n" + self.mstmts(none_arm + rest, env, ind + 1) + "\n" +
                    pad + "end")
        # both arms only assign the same names: a let
        if a is not None and b is not None and a and sorted(a) == sorted(b):
            c = self.cond(test, env)
            out = ""
            e2 = env
            for name in a:
                ta, tya = self.expr(a[name], env)
                tb, tyb = self.expr(b[name], env)
                if tya != tyb:
                    fail("arms assign different types to %r" % name, s)
                out += pad + "let v_%s := (if %s then %s else %s) in\n" % (name, c, ta, tb)
                e2 = e2.set(name, "v_" + name, tya)
            return out + self.mstmts(rest, e2, ind)
        # `item >= 0` on a refined int item
        c = self.cond(test, env if "%item.int" not in env.d else env.set("item", env.d["%item.int"][0], Z))
        e_arm = env
        return (pad + "if %s then\n" % c + self.mstmts(s.body + rest, e_arm, ind + 1) + "\n" +
                pad + "else\n" + self.mstmts(s.orelse + rest, e_arm, ind + 1))

    # ---------------------------------------------------------------- loops
    def assigned_in(self, ss):
        out = []

        def add(n):
            if n not in out:
                out.append(n)
        for st in ss:
            for n in ast.walk(st):
                if isinstance(n, ast.Assign):
                    for t in n.targets:
                        if isinstance(t, ast.Name):
                            add(t.id)
                elif isinstance(n, ast.AugAssign) and isinstance(n.target, ast.Name):
                    add(n.target.id)
                elif (isinstance(n, ast.Call) and isinstance(n.func, ast.Attribute) and n.func.attr == "append" and
                      isinstance(n.func.value, ast.Name)):
                    add(n.func.value.id)
                elif isinstance(n, ast.Yield):
                    add("%out")
        return out

    def params_of(self, env, exclude):
        """(names, coq binders, coq args) of the environment, in insertion order"""
        names = [k for k in env.d if k not in exclude and env.d[k][1] in COQ_T and not k.startswith("%item")]
        return names

    def m_for(self, s, rest, env, ind):
        pad = "  " * ind
        if s.orelse or not isinstance(s.target, ast.Name):
            fail("for/else or tuple target", s)
        it = s.iter
        if is_name(it, "self") or is_self_attr(it, "_cache"):
            pass
        elif isinstance(it, ast.Name) and env.get(it.id, it)[1] == ITER:
            pass
        else:
            fail("for over something that is not the rule / its cache", s)
        var = s.target.id
        body = s.body
        # `for x in self: pass` : a full pass publishes the length
        if all(isinstance(b, ast.Pass) for b in body):
            return (pad + "let v__len := published L in\n" +
                    self.mstmts(rest, env.set("%len", "v__len", OPT), ind))
        state = [n for n in self.assigned_in(body) if n in env.d]
        unknown = [n for n in self.assigned_in(body) if n not in env.d]
        if unknown:
            fail("loop assigns %r which is not defined before the loop" % unknown, s)
        params = [n for n in self.params_of(env, set(state)) if env.d[n][1] != ISTATE]
        self.nloops += 1
        lname = "gen_%s_loop%d" % (self.name.strip("_"), self.nloops)
        st_ty = " * ".join(COQ_T[env.d[n][1]] for n in state) if state else "unit"
        st_pat = "(" + ", ".join("s_" + n.strip("%") for n in state) + ")" if len(state) > 1 else (
            "s_" + state[0].strip("%") if state else "_")

        def tuple_of(e):
            if not state:
                return "tt"
            vals = [e.d[n][0] for n in state]
            return "(" + ", ".join(vals) + ")" if len(vals) > 1 else vals[0]
        benv = env
        for n in params:
            benv = benv.set(n, "p_" + n.strip("%"), env.d[n][1])
        for n in state:
            benv = benv.set(n, "s_" + n.strip("%"), env.d[n][1])
        benv = benv.set(var, "x_" + var, Z)
        pbind = "".join(" (p_%s : %s)" % (n.strip("%"), COQ_T[env.d[n][1]]) for n in params)
        pargs = "".join(" p_" + n.strip("%") for n in params)

        def again(e):
            return "%s%s %s xs'" % (lname, pargs, tuple_of(e))
        btxt = self.bstmts(body, benv, tuple_of, again, 3, None)
        destr = ("    let '%s := st in\n" % st_pat) if len(state) > 1 else (
            "    let %s := st in\n" % st_pat if state else "")
        self.aux.append(
            "Fixpoint %s%s (st : %s) (xs : list Z) {struct xs} : lres (%s) qres :=\n"
            "  match xs with\n  | [] => LExit st\n  | x_%s :: xs' =>\n%s%s\n  end.\n"
            % (lname, pbind, st_ty, st_ty, var, destr, btxt))
        call = "%s%s %s L" % (lname, "".join(" " + env.d[n][0] for n in params), tuple_of(env))
        e_after = env
        for n in state:
            e_after = e_after.set(n, "v_" + n.strip("%") + "'", env.d[n][1])
        if len(state) > 1:
            bind = "let '(" + ", ".join("v_" + n.strip("%") + "'" for n in state) + ") := st in\n"
        elif state:
            bind = "let v_%s' := st in\n" % state[0].strip("%")
        else:
            bind = ""
        return (pad + "match %s with\n" % call +
                pad + "| LRet r => r\n" +
                pad + "| LExit st =>\n" + (pad + "  " + bind if bind else "") + self.mstmts(rest, e_after, ind + 1) + "\n" +
                pad + "end")

    def bstmts(self, ss, env, tuple_of, again, ind, handler):
        """loop body -> text of type lres; `again(env)` continues with the next element"""
        pad = "  " * ind
        if not ss:
            return pad + again(env)
        s, rest = ss[0], ss[1:]
        if isinstance(s, ast.Pass):
            return self.bstmts(rest, env, tuple_of, again, ind, handler)
        if isinstance(s, ast.Break):
            return pad + "LExit %s" % tuple_of(env)
        if isinstance(s, ast.Return):
            return pad + "LRet %s" % self.to_qres(s.value, env)
        if isinstance(s, ast.Expr) and isinstance(s.value, ast.Yield):
            t, ty = self.expr(s.value.value, env)
            if ty != Z:
                fail("yield of a non-instant", s)
            coq, _ = env.get("%out")
            return (pad + "let y_out := %s ++ [%s] in\n" % (coq, t) +
                    self.bstmts(rest, env.set("%out", "y_out", LST), tuple_of, again, ind, handler))
        if (isinstance(s, ast.Expr) and isinstance(s.value, ast.Call) and isinstance(s.value.func, ast.Attribute) and
                s.value.func.attr == "append" and isinstance(s.value.func.value, ast.Name) and len(s.value.args) == 1):
            name = s.value.func.value.id
            coq, ty = env.get(name, s)
            if ty != LST:
                fail("append on a non-list", s)
            t, te = self.expr(s.value.args[0], env)
            if te != Z:
                fail("append of a non-instant", s)
            return (pad + "let a_%s := %s ++ [%s] in\n" % (name, coq, t) +
                    self.bstmts(rest, env.set(name, "a_" + name, LST), tuple_of, again, ind, handler))
        if isinstance(s, ast.AugAssign) and isinstance(s.op, ast.Add) and isinstance(s.target, ast.Name):
            coq, ty = env.get(s.target.id, s)
            t, te = self.expr(s.value, env)
            if ty != Z or te != Z:
                fail("+= on non-integers", s)
            return (pad + "let a_%s := %s + %s in\n" % (s.target.id, coq, t) +
                    self.bstmts(rest, env.set(s.target.id, "a_" + s.target.id, Z), tuple_of, again, ind, handler))
        if isinstance(s, ast.Assign) and len(s.targets) == 1 and isinstance(s.targets[0], ast.Name):
            name = s.targets[0].id
            # res = advance_iterator(gen)
            if (isinstance(s.value, ast.Call) and is_name(s.value.func, "advance_iterator") and len(s.value.args) == 1 and
                    isinstance(s.value.args[0], ast.Name) and env.get(s.value.args[0].id, s)[1] == ISTATE):
                if handler is None:
                    fail("advance_iterator outside try/except StopIteration", s)
                g = s.value.args[0].id
                gc = env.get(g)[0]
                _, ty = env.get(name, s)
                e2 = env.set(name, "(Some h_%s)" % name if ty == OPT else "h_" + name, ty).set(g, "t_" + g, ISTATE)
                return (pad + "match %s with\n" % gc +
                        pad + "| [] => %s\n" % handler +
                        pad + "| h_%s :: t_%s =>\n" % (name, g) +
                        self.bstmts(rest, e2, tuple_of, again, ind + 1, handler) + "\n" +
                        pad + "end")
            coq, ty = env.get(name, s)
            t, te = self.expr(s.value, env)
            t = self.coerce(t, te, ty, s)
            return (pad + "let a_%s := %s in\n" % (name, t) +
                    self.bstmts(rest, env.set(name, "a_" + name, ty), tuple_of, again, ind, handler))
        if isinstance(s, ast.If):
            test = s.test
            if (isinstance(test, ast.Compare) and len(test.ops) == 1 and isinstance(test.ops[0], (ast.Is, ast.IsNot)) and
                    isinstance(test.left, ast.Name) and isinstance(test.comparators[0], ast.Constant) and
                    test.comparators[0].value is None):
                coq, ty = env.get(test.left.id, test)
                if ty != OPT:
                    fail("`is None` on a value that is never None", test)
                some_arm, none_arm = (s.orelse, s.body) if isinstance(test.ops[0], ast.Is) else (s.body, s.orelse)
                e_some = env.set(test.left.id, "r_" + test.left.id, Z)
                return (pad + "match %s with\n" % coq +
                        pad + "| Some r_%s =>\n" % test.left.id +
                        self.bstmts(some_arm + rest, e_some, tuple_of, again, ind + 1, handler) + "\n" +
                        pad + "| None =>\n" + self.bstmts(none_arm + rest, env, tuple_of, again, ind + 1, handler) + "\n" +
                        pad + "end")
            c = self.cond(test, env)
            return (pad + "if %s then\n" % c + self.bstmts(s.body + rest, env, tuple_of, again, ind + 1, handler) + "\n" +
                    pad + "else\n" + self.bstmts(s.orelse + rest, env, tuple_of, again, ind + 1, handler))
        fail("unsupported statement in a loop: " + type(s).__name__, s)

    def m_try(self, s, rest, env, ind):
        """try: for i in range(e): <body using advance_iterator(gen)>  except StopIteration: raise IndexError"""
        pad = "  " * ind
        if (len(s.handlers) != 1 or s.orelse or s.finalbody or not is_name(s.handlers[0].type, "StopIteration") or
                s.handlers[0].name is not None or len(s.handlers[0].body) != 1 or
                not isinstance(s.handlers[0].body[0], ast.Raise)):
            fail("try statement outside the accepted idiom", s)
        h = s.handlers[0].body[0]
        if not (is_name(h.exc, "IndexError") or (isinstance(h.exc, ast.Call) and is_name(h.exc.func, "IndexError"))):
            fail("handler must raise IndexError", h)
        if len(s.body) != 1 or not isinstance(s.body[0], ast.For):
            fail("try body must be one for loop", s)
        f = s.body[0]
        if not (isinstance(f.iter, ast.Call) and is_name(f.iter.func, "range") and len(f.iter.args) == 1 and
                isinstance(f.target, ast.Name) and not f.orelse):
            fail("loop must be `for i in range(e)`", f)
        n_t, n_ty = self.expr(f.iter.args[0], env if "%item.int" not in env.d else
                              env.set("item", env.d["%item.int"][0], Z))
        if n_ty != Z:
            fail("range of a non-integer", f)
        assigned = self.assigned_in(f.body)
        # variables first assigned in the loop start unbound: option, None
        e0 = env
        pre = ""
        for nme in assigned:
            if nme not in e0.d:
                pre += pad + "let v_%s := (@None Z) in\n" % nme
                e0 = e0.set(nme, "v_" + nme, OPT)
        iters = [k for k in e0.d if e0.d[k][1] == ISTATE]
        state = [n for n in assigned if n in e0.d] + [k for k in iters if k not in assigned]
        self.nloops += 1
        lname = "gen_%s_loop%d" % (self.name.strip("_"), self.nloops)
        st_ty = " * ".join(COQ_T[e0.d[n][1]] for n in state)

        def tuple_of(e):
            vals = [e.d[n][0] for n in state]
            return "(" + ", ".join(vals) + ")" if len(vals) > 1 else vals[0]
        benv = e0
        for n in state:
            benv = benv.set(n, "s_" + n, e0.d[n][1])

        def again(e):
            return "%s k' %s" % (lname, tuple_of(e))
        btxt = self.bstmts(f.body, benv, tuple_of, again, 3, "LRet QIndexError")
        st_pat = "(" + ", ".join("s_" + n for n in state) + ")"
        self.aux.append(
            "Fixpoint %s (k : nat) (st : %s) {struct k} : lres (%s) qres :=\n"
            "  match k with\n  | O => LExit st\n  | S k' =>\n    let '%s := st in\n%s\n  end.\n"
            % (lname, st_ty, st_ty, st_pat, btxt))
        e_after = e0
        for n in state:
            e_after = e_after.set(n, "v_" + n + "'", e0.d[n][1])
        bind = "let '(" + ", ".join("v_" + n + "'" for n in state) + ") := st in\n"
        return (pre + pad + "match %s (Z.to_nat %s) %s with\n" % (lname, n_t, tuple_of(e0)) +
                pad + "| LRet r => r\n" +
                pad + "| LExit st =>\n" + pad + "  " + bind + self.mstmts(rest, e_after, ind + 1) + "\n" +
                pad + "end")

    # ---------------------------------------------------------------- whole method
    def compile(self):
        fn = self.fn
        want_args, want_defaults, types = SIGS[self.name]
        a = fn.args
        if ([x.arg for x in a.args] != want_args or a.vararg or a.kwarg or a.kwonlyargs or
                [getattr(d, "value", "?") for d in a.defaults] != want_defaults or fn.decorator_list):
            fail("unexpected signature of %s" % self.name, fn)
        env = Env()
        binders = " (complete : bool)"
        if self.name == "count":
            env = env.set("%len", "v_len", OPT)
            binders = " (v_len : option Z)"
        binders += " (L : list Z)"
        for nme in want_args[1:]:
            if nme in types:
                env = env.set(nme, "v_" + nme, types[nme])
                binders += " (v_%s : %s)" % (nme, COQ_T[types[nme]])
        pre = ""
        if self.is_gen:
            pre = "  let v__out := (@nil Z) in\n"
            env = env.set("%out", "v__out", LST)
        body = self.mstmts(fn.body, env, 1)
        main = "Definition gen_%s%s : qres :=\n%s%s.\n" % (self.name.strip("_"), binders, pre, body)
        return "\n".join(self.aux) + ("\n" if self.aux else "") + main


# ---------------------------------------------------------------------- (c) length publication

def check_len_publication(cls_rrule, cls_rruleset):
    def fn_of(cls, name):
        f = [n for n in cls.body if isinstance(n, ast.FunctionDef) and n.name == name]
        if len(f) != 1:
            fail("method %s.%s not found" % (cls.name, name))
        return f[0]

    def is_len_total(st):
        return (isinstance(st, ast.Assign) and len(st.targets) == 1 and is_self_attr(st.targets[0], "_len") and
                is_name(st.value, "total"))

    def is_total_incr(st):
        return (isinstance(st, ast.AugAssign) and is_name(st.target, "total") and isinstance(st.op, ast.Add) and
                isinstance(st.value, ast.Constant) and st.value.value == 1)

    def walk_blocks(node):
        for fld in ("body", "orelse", "finalbody"):
            blk = getattr(node, fld, None)
            if isinstance(blk, list) and blk and isinstance(blk[0], ast.stmt):
                yield blk
                for st in blk:
                    for b in walk_blocks(st):
                        yield b
        for h in getattr(node, "handlers", []) or []:
            for b in walk_blocks(h):
                yield b

    for cls, must_end in ((cls_rrule, False), (cls_rruleset, True)):
        f = fn_of(cls, "_iter")
        n_init = n_ret = n_yield = 0
        for n in ast.walk(f):
            if isinstance(n, (ast.With, ast.YieldFrom)) or (isinstance(n, ast.Try) and n.finalbody):
                fail("%s._iter uses finally / with / yield from: length publication outside the accepted shape" % cls.name, n)
            if isinstance(n, ast.Try) and any(isinstance(m, (ast.Yield, ast.Return)) or
                                              (isinstance(m, ast.Attribute) and m.attr == "_len")
                                              for m in ast.walk(n)):
                fail("%s._iter: yield / return / _len inside a try statement" % cls.name, n)
        for blk in walk_blocks(f):
            for k, st in enumerate(blk):
                if isinstance(st, ast.Assign) and len(st.targets) == 1 and is_name(st.targets[0], "total"):
                    if not (isinstance(st.value, ast.Constant) and st.value.value == 0):
                        fail("total assigned something else than 0", st)
                    n_init += 1
                if isinstance(st, ast.Return):
                    if st.value is not None or k == 0 or not is_len_total(blk[k - 1]):
                        fail("%s._iter: return not immediately preceded by `self._len = total`" % cls.name, st)
                    n_ret += 1
                if isinstance(st, ast.Expr) and isinstance(st.value, ast.Yield):
                    if k == 0 or not is_total_incr(blk[k - 1]):
                        fail("%s._iter: yield not immediately preceded by `total += 1`" % cls.name, st)
                    n_yield += 1
        n_len = sum(1 for n in ast.walk(f) if isinstance(n, ast.Assign) and any(is_self_attr(t, "_len") for t in n.targets))
        n_inc = sum(1 for n in ast.walk(f) if isinstance(n, ast.AugAssign) and is_name(n.target, "total"))
        ends = is_len_total(f.body[-1])
        if n_init != 1 or n_yield < 1 or n_inc != n_yield or n_len != n_ret + (1 if ends else 0):
            fail("%s._iter: unexpected bookkeeping of total / _len" % cls.name, f)
        if must_end and not ends:
            fail("%s._iter must end with `self._len = total`" % cls.name, f)
        if not must_end and n_ret < 1:
            fail("%s._iter has no return" % cls.name, f)
    # nothing else in the classes assigns _len except __init__/_invalidate_cache of rrulebase (checked in (b))
    for cls in (cls_rrule, cls_rruleset):
        for f in cls.body:
            if isinstance(f, ast.FunctionDef) and f.name != "_iter":
                for n in ast.walk(f):
                    if isinstance(n, (ast.Assign, ast.AugAssign)):
                        tg = n.targets if isinstance(n, ast.Assign) else [n.target]
                        if any(is_self_attr(t, "_len") for t in tg):
                            fail("%s.%s assigns self._len" % (cls.name, f.name), n)


# ---------------------------------------------------------------------- (b) _iter_cached table etc.

def dump_norm(n):
    return ast.dump(n, annotate_fields=False, include_attributes=False)


def translate_cache(cls):
    """-> text of coq/gen/RCacheGen.v"""
    def fn_of(name):
        f = [n for n in cls.body if isinstance(n, ast.FunctionDef) and n.name == name]
        if len(f) != 1:
            fail("method rrulebase.%s not found" % name)
        return f[0]
    f = fn_of("_iter_cached")
    if [a.arg for a in f.args.args] != ["self"] or f.decorator_list:
        fail("signature of _iter_cached", f)
    base = f.lineno
    rows = []

    def off(n):
        return n.lineno - base

    def src(code):
        return dump_norm(ast.parse(code).body[0])

    body = f.body
    # 1..5: the five local bindings
    want = ["i = 0", "gen = self._cache_gen", "cache = self._cache", "acquire = self._cache_lock.acquire",
            "release = self._cache_lock.release"]
    if len(body) != 7:
        fail("_iter_cached must consist of five bindings and two while loops", f)
    for st, w, ins in zip(body[:5], want, ["IAssignI0", "IGetGen", "ILocal", "ILocal", "ILocal"]):
        if dump_norm(st) != src(w):
            fail("_iter_cached: expected `%s`" % w, st)
        rows.append((off(st), ins))
    w1, w2 = body[5], body[6]
    if not (isinstance(w1, ast.While) and is_name(w1.test, "gen") and not w1.orelse and len(w1.body) == 3):
        fail("_iter_cached: expected `while gen:` with an if, a yield and an increment", w1)
    if not (isinstance(w2, ast.While) and dump_norm(w2.test) == dump_norm(ast.parse("i < self._len").body[0].value) and
            not w2.orelse and len(w2.body) == 2):
        fail("_iter_cached: expected the tail loop `while i < self._len:`", w2)
    end_line = off(w2.body[-1]) + 1            # "past the end": the generator returns
    rows.append((off(w1), "IWhileGen %d" % off(w2)))
    if1, y1, inc1 = w1.body
    if not (isinstance(if1, ast.If) and dump_norm(if1.test) == dump_norm(ast.parse("i == len(cache)").body[0].value) and
            not if1.orelse and len(if1.body) == 2):
        fail("_iter_cached: expected `if i == len(cache):` with acquire() and a try", if1)
    rows.append((off(if1), "IIfILen %d" % off(y1)))
    acq, tr = if1.body
    if dump_norm(acq) != src("acquire()"):
        fail("_iter_cached: expected `acquire()`", acq)
    rows.append((off(acq), "IAcquire"))
    if not (isinstance(tr, ast.Try) and not tr.handlers and not tr.orelse and len(tr.finalbody) == 1 and
            dump_norm(tr.finalbody[0]) == src("release()") and len(tr.body) == 2):
        fail("_iter_cached: expected try: ... finally: release()", tr)
    fin = off(tr.finalbody[0])
    rows.append((off(tr), "ITry"))
    ifc, tr2 = tr.body
    if not (isinstance(ifc, ast.If) and is_self_attr(ifc.test, "_cache_complete") and not ifc.orelse and
            len(ifc.body) == 1 and isinstance(ifc.body[0], ast.Break)):
        fail("_iter_cached: expected `if self._cache_complete: break`", ifc)
    rows.append((off(ifc), "IIfComplete %d" % off(tr2)))
    rows.append((off(ifc.body[0]), "IBreak %d %d" % (fin, off(w2))))
    if not (isinstance(tr2, ast.Try) and len(tr2.handlers) == 1 and not tr2.orelse and not tr2.finalbody and
            is_name(tr2.handlers[0].type, "StopIteration") and tr2.handlers[0].name is None and len(tr2.body) == 1):
        fail("_iter_cached: expected try: for ... except StopIteration:", tr2)
    rows.append((off(tr2), "ITry"))
    fr = tr2.body[0]
    if not (isinstance(fr, ast.For) and isinstance(fr.iter, ast.Call) and is_name(fr.iter.func, "range") and
            len(fr.iter.args) == 1 and isinstance(fr.iter.args[0], ast.Constant) and
            isinstance(fr.iter.args[0].value, int) and not fr.orelse and len(fr.body) == 1 and
            dump_norm(fr.body[0]) == src("cache.append(advance_iterator(gen))")):
        fail("_iter_cached: expected `for j in range(<n>): cache.append(advance_iterator(gen))`", fr)
    hd = tr2.handlers[0]
    rows.append((off(fr), "IFor %d %d" % (fr.iter.args[0].value, fin)))
    rows.append((off(fr.body[0]), "IAppendNext %d %d" % (off(fr), hd.lineno - base)))
    rows.append((hd.lineno - base, "IExcept"))
    if len(hd.body) != 3 or dump_norm(hd.body[0]) != src("self._cache_gen = gen = None") or \
            dump_norm(hd.body[1]) != src("self._cache_complete = True") or not isinstance(hd.body[2], ast.Break):
        fail("_iter_cached: unexpected StopIteration handler", hd)
    rows.append((off(hd.body[0]), "ISetGenNone"))
    rows.append((off(hd.body[1]), "ISetComplete"))
    rows.append((off(hd.body[2]), "IBreak %d %d" % (fin, off(w2))))
    rows.append((fin, "IRelease %d" % off(y1)))
    if dump_norm(y1) != src("yield cache[i]") or dump_norm(inc1) != src("i += 1"):
        fail("_iter_cached: expected `yield cache[i]` and `i += 1`", y1)
    rows.append((off(y1), "IYield"))
    rows.append((off(inc1), "IIncr %d" % off(w1)))
    rows.append((off(w2), "IWhileLen %d" % end_line))
    y2, inc2 = w2.body
    if dump_norm(y2) != src("yield cache[i]") or dump_norm(inc2) != src("i += 1"):
        fail("_iter_cached: tail loop must be `yield cache[i]` and `i += 1`", y2)
    rows.append((off(y2), "IYield"))
    rows.append((off(inc2), "IIncr %d" % off(w2)))
    rows.sort()
    # __iter__
    it = fn_of("__iter__")
    want_iter = ("def __iter__(self):\n    if self._cache_complete:\n        return iter(self._cache)\n"
                 "    elif self._cache is None:\n        return self._iter()\n    else:\n        return self._iter_cached()\n")
    if dump_norm(it) != dump_norm(ast.parse(want_iter).body[0]):
        fail("__iter__ is not the three-way dispatch complete / uncached / _iter_cached", it)
    # _invalidate_cache and __init__: sequences of attribute assignments
    inv = fn_of("_invalidate_cache")
    want_inv = ("def _invalidate_cache(self):\n    if self._cache is not None:\n        self._cache = []\n"
                "        self._cache_complete = False\n        self._cache_gen = self._iter()\n\n"
                "        if self._cache_lock.locked():\n            self._cache_lock.release()\n\n    self._len = None\n")
    ini = fn_of("__init__")
    want_ini = ("def __init__(self, cache=False):\n    if cache:\n        self._cache = []\n"
                "        self._cache_lock = _thread.allocate_lock()\n        self._invalidate_cache()\n    else:\n"
                "        self._cache = None\n        self._cache_complete = False\n        self._len = None\n")

    def effects(fn_node, cached_branch):
        """shared-state update of the cached branch, statement by statement"""
        out = []
        for st in cached_branch:
            if isinstance(st, ast.Assign) and len(st.targets) == 1 and isinstance(st.targets[0], ast.Attribute):
                a = st.targets[0].attr
                v = st.value
                if a == "_cache" and isinstance(v, ast.List) and not v.elts:
                    out.append("set_cache []")
                elif a == "_cache_complete" and isinstance(v, ast.Constant) and v.value is False:
                    out.append("set_complete false")
                elif a == "_cache_gen" and dump_norm(v) == dump_norm(ast.parse("self._iter()").body[0].value):
                    out.append("set_newgen")
                elif a == "_len" and isinstance(v, ast.Constant) and v.value is None:
                    out.append("set_len None")
                elif a == "_cache_lock" and dump_norm(v) == dump_norm(ast.parse("_thread.allocate_lock()").body[0].value):
                    out.append("set_lock None")
                else:
                    fail("unsupported attribute assignment in %s" % fn_node.name, st)
            elif (isinstance(st, ast.If) and dump_norm(st.test) == dump_norm(ast.parse("self._cache_lock.locked()").body[0].value) and
                  not st.orelse and len(st.body) == 1 and dump_norm(st.body[0]) == dump_norm(ast.parse("self._cache_lock.release()").body[0])):
                out.append("release_if_locked")
            elif dump_norm(st) == dump_norm(ast.parse("self._invalidate_cache()").body[0]):
                out.append("gen_invalidate")
            else:
                fail("unsupported statement in %s" % fn_node.name, st)
        return out
    if [a.arg for a in inv.args.args] != ["self"]:
        fail("signature of _invalidate_cache", inv)
    if not (len(inv.body) == 2 and isinstance(inv.body[0], ast.If) and
            dump_norm(inv.body[0].test) == dump_norm(ast.parse("self._cache is not None").body[0].value) and
            not inv.body[0].orelse):
        fail("_invalidate_cache: expected `if self._cache is not None: ...` then `self._len = None`", inv)
    inv_eff = effects(inv, inv.body[0].body) + effects(inv, inv.body[1:])
    if not (len(ini.body) == 1 and isinstance(ini.body[0], ast.If) and is_name(ini.body[0].test, "cache") and
            [a.arg for a in ini.args.args] == ["self", "cache"]):
        fail("__init__: expected `if cache: ... else: ...`", ini)
    ini_eff = effects(ini, ini.body[0].body)
    if dump_norm(ini) != dump_norm(ast.parse(want_ini).body[0]):
        fail("rrulebase.__init__ changed (uncached branch must set _cache None, _cache_complete False, _len None)", ini)
    out = []
    out.append("(* GENERATED by harness/gen_rcache.py from /repo/src/dateutil/rrule.py (class rrulebase) -- do not edit *)")
    out.append("From Coq Require Import ZArith List Bool.")
    out.append("From V Require Import rcache.PyList rcache.RCacheModel rcache.RQueryModel rcache.RGenBase.")
    out.append("Import ListNotations.")
    out.append("")
    out.append("(* _iter_cached: line offset from `def _iter_cached`, instruction *)")
    out.append("Definition gen_iter_cached : table :=")
    out.append("  [ " + ";\n    ".join("(%d, %s)" % (k, ins) for (k, ins) in rows) + " ]%nat.")
    out.append("Definition gen_iter_cached_end : nat := %d." % end_line)
    out.append("")
    out.append("(* __iter__: complete -> iter(self._cache); uncached -> self._iter(); else self._iter_cached() *)")
    out.append("Definition gen_iter_dispatch : nat := 3.")
    out.append("")
    out.append("(* shared-state effects of _invalidate_cache and of __init__(cache=True), in statement order *)")
    out.append("Definition gen_invalidate (s : shared) : shared :=")
    out.append("  " + " (".join(reversed(inv_eff)) + " s" + ")" * (len(inv_eff) - 1) + ".")
    out.append("Definition gen_init (s : shared) : shared :=")
    out.append("  " + " (".join(reversed(ini_eff)) + " s" + ")" * (len(ini_eff) - 1) + ".")
    return "\n".join(out) + "\n"


def translate(src):
    tree = ast.parse(src)
    classes = {n.name: n for n in tree.body if isinstance(n, ast.ClassDef)}
    for c in ("rrulebase", "rrule", "rruleset"):
        if c not in classes:
            fail("class %s not found" % c)
    cls = classes["rrulebase"]
    fns = {n.name: n for n in cls.body if isinstance(n, ast.FunctionDef)}
    expected = {"__init__", "__iter__", "_invalidate_cache", "_iter_cached", "__getitem__", "__contains__", "count",
                "before", "after", "xafter", "between"}
    if set(fns) != expected:
        fail("methods of rrulebase changed: %s" % sorted(set(fns) ^ expected))
    check_len_publication(classes["rrule"], classes["rruleset"])
    out = []
    out.append("(* GENERATED by harness/gen_rcache.py from /repo/src/dateutil/rrule.py (class rrulebase) -- do not edit *)")
    out.append("From Coq Require Import ZArith List Bool.")
    out.append("From V Require Import rcache.PyList rcache.RCacheModel rcache.RQueryModel rcache.RGenBase.")
    out.append("Import ListNotations.")
    out.append("Open Scope Z_scope.")
    out.append("")
    for name in ("__getitem__", "__contains__", "count", "before", "after", "xafter", "between"):
        out.append("(* ---- %s (rrule.py line %d) *)" % (name, fns[name].lineno))
        out.append(Method(fns[name]).compile())
    return "\n".join(out) + "\n", translate_cache(cls)


def write_if_changed(path, txt):
    try:
        old = open(path).read()
    except OSError:
        old = None
    if old != txt:
        open(path, "w").write(txt)
        print("regenerated", path)


if __name__ == "__main__":
    here = os.path.dirname(os.path.dirname(os.path.abspath(__file__)))
    repo = os.environ.get("VERIF_REPO", "/repo")
    src_path = sys.argv[1] if len(sys.argv) > 1 else os.path.join(repo, "src/dateutil/rrule.py")
    out_dir = sys.argv[2] if len(sys.argv) > 2 else os.path.join(here, "coq/gen")
    try:
        q, c = translate(open(src_path).read())
    except TranslateError as ex:
        print("TRANSLATE-ERROR: %s" % ex)
        sys.exit(2)
    write_if_changed(os.path.join(out_dir, "RQueryGen.v"), q)     # coq/gen/RQueryGen.v
    write_if_changed(os.path.join(out_dir, "RCacheGen.v"), c)     # coq/gen/RCacheGen.v
