#!/usr/bin/env python3
"""C14 -- parse() is total: a datetime, ParserError or OverflowError, always terminating.

Theorems (coq/props/C14.v) over the hand model coq/parse/* of _timelex / parser._parse /
_build_naive / _build_tzaware; correspondence of the real dateutil.parser.parse with the extracted
model (bin/oracle_parse) on grammar-based fuzz, digit runs, Unicode, NUL, single-edit mutations of
valid renderings x option combinations x repeated calls on shared parser instances; and the
property predicate itself (outcome class, termination under a watchdog, determinism,
statelessness, str/bytes/stream equivalence, TypeError on non-text) evaluated directly on the
implementation for every input."""
import io
import itertools
import json
import os
import sys
import threading
import time

sys.path.insert(0, os.path.dirname(os.path.abspath(__file__)))
import common as C

# pinned environment (explicit, not inherited): process time zone and CPython's int <-> str digit limit, which is
# dumped into coq/gen/ParseTables.v (a different value would change the model and rebuild every proof)
os.environ["TZ"] = "UTC"
os.environ["PYTHONINTMAXSTRDIGITS"] = "4300"
C.reexec_under_impl_python()
import parse_common as PC

CID = "C14"


def _longest_digit_run(s):
    best = cur = 0
    for ch in s:
        if ch.isdecimal():
            cur += 1
            best = max(best, cur)
        else:
            cur = 0
    return best


def m_unprintable_month(payload):
    """a plain ValueError escapes and the text has a digit run longer than the int -> str limit"""
    inp = payload.get("input")
    impl = payload.get("impl")
    lim = sys.get_int_max_str_digits() if hasattr(sys, "get_int_max_str_digits") else 0
    if not (isinstance(inp, dict) and isinstance(inp.get("s"), str) and impl is not None
            and list(impl) == ["escape", "ValueError"] and lim > 0 and _longest_digit_run(inp["s"]) > lim
            and payload.get("kind", "").startswith("parse() outcome outside")):
        return False
    # ... and the faithful model escapes with exactly the class the theorem's guard names
    # (ValueErrorNoStr = reply [3, 8]; C14_escape_characterised): matcher = complement of the guard
    return PC.model_raw(PC.opts_from_json(inp.get("opts")), inp["s"]) == [3, 8]


def m_tzinfos_type(payload):
    """a TypeError escapes AND on the faithful model the tzinfos value the text resolves to is of an unsupported
    type (Full.bad_value; model reply [3, 5] = OutEscape TypeError) -- complement of C14_parse_full_total's class 2"""
    inp, impl = payload.get("input"), payload.get("impl")
    if not (isinstance(inp, dict) and isinstance(inp.get("s"), str) and impl is not None
            and list(impl) == ["escape", "TypeError"]
            and payload.get("kind", "").startswith("parse() outcome outside")):
        return False
    return PC.model_raw(PC.opts_from_json(inp.get("opts")), inp["s"]) == [3, 5]


def m_tzstr_rejected(payload):
    """a plain ValueError escapes AND on the faithful model the text resolves to a tzinfos TZ string that tz.tzstr
    rejects (Full.rejected_tzstr; model reply [3, 2] = OutEscape ValueError)"""
    inp, impl = payload.get("input"), payload.get("impl")
    if not (isinstance(inp, dict) and isinstance(inp.get("s"), str) and impl is not None
            and list(impl) == ["escape", "ValueError"]
            and payload.get("kind", "").startswith("parse() outcome outside")):
        return False
    return PC.model_raw(PC.opts_from_json(inp.get("opts")), inp["s"]) == [3, 2]


def m_undecodable(payload):
    """bytes input that is not valid UTF-8 AND the exception is UnicodeDecodeError (a ValueError, not ParserError)"""
    inp, impl = payload.get("input"), payload.get("impl")
    if not (isinstance(inp, dict) and isinstance(inp.get("bytes_hex"), str) and impl is not None
            and list(impl) == ["escape", "UnicodeDecodeError"]):
        return False
    try:
        bytes.fromhex(inp["bytes_hex"]).decode("utf-8")
    except UnicodeDecodeError:
        return True
    return False


MATCHERS = {"m_unprintable_month": m_unprintable_month, "m_tzinfos_type": m_tzinfos_type,
            "m_tzstr_rejected": m_tzstr_rejected, "m_undecodable": m_undecodable}


def token_shape_ok(tok):
    """the lexer invariant Prim.v's int()/float()/Decimal() acceptance predicates rely on: a token is a single
    character, or consists of letters, digits, '.' and ',' only with every maximal dot/comma-free group all
    letters or all digits ('1.a', 'a.1.b' occur; never a sign, underscore or space inside a token, never a
    letter next to a digit, so no exponent form '1e5', no 'nan123', no '1_0')"""
    if len(tok) <= 1:
        return True
    import re
    for grp in re.split(r"[.,]", tok):
        if not grp:
            continue
        if not (all(ch.isalpha() for ch in grp) or all(ch.isdigit() for ch in grp)):
            return False
    return True


def outside_table_cases(tier):
    """texts with letters / digits / spaces OUTSIDE ASCII + ParseTables.tbl_chars: outside the model, the
    implementation's outcome CLASS only"""
    r = C.rng("C14-outside")
    table = set(PC.table_codepoints())
    blocks = [(0x400, 0x4FF), (0x370, 0x3FF), (0x660, 0x669), (0x6F0, 0x6F9), (0x966, 0x96F), (0xFF10, 0xFF5A),
              (0x4E00, 0x4E80), (0x1D7CE, 0x1D7FF), (0xB2, 0xB3), (0xB9, 0xB9), (0x2160, 0x2188), (0x2000, 0x200B),
              (0x3000, 0x3000), (0x85, 0x85), (0x1680, 0x1680), (0x2460, 0x249B), (0x1F100, 0x1F10A),
              (0xD800, 0xD803), (0x10FFFE, 0x10FFFF), (0xC0, 0x17F), (0x5D0, 0x5EA), (0xE50, 0xE59)]
    pool = [c for lo, hi in blocks for c in range(lo, hi + 1) if c not in table]
    n = 4000 if tier == "quick" else 120000
    out = []
    for _ in range(n):
        base = PC.render_some(r, PC.gen_dt(r)) if r.random() < 0.6 else PC.gen_fuzz(r)
        chars = list(base)
        for _k in range(r.randint(1, 4)):
            run = "".join(chr(r.choice(pool)) for _ in range(r.randint(1, 3)))
            pos = r.randint(0, len(chars))
            if r.random() < 0.5 and chars:
                chars[min(pos, len(chars) - 1)] = run
            else:
                chars.insert(pos, run)
        out.append((PC.gen_opts(r), "".join(chars)))
    return out


def scaling_probe(tier):
    """'terminates promptly': wall time of the implementation on inputs of 10^4 and 10^5 characters.  Stated bound:
    every shape finishes 10^5 characters within SCALE_BOUND_S seconds; the ratio t(10^5)/t(10^4) is reported (the
    digit-run shapes are quadratic: int(Decimal) / Decimal(str) on n digits)"""
    shapes = {
        "digits": lambda n: "1" * n,
        "hh:digits": lambda n: "10:" + "1" * n,
        "digits m": lambda n: "1" * n + " m",
        "letters": lambda n: "a" * n,
        "many tokens": lambda n: ("10 ab , " * (n // 8 + 1))[:n],
        "dotted": lambda n: ("1." * (n // 2 + 1))[:n],
        "spaces": lambda n: " " * n + "10:30",
    }
    res = {}
    for name, f in shapes.items():
        row = {}
        for n in (10 ** 4, 10 ** 5):
            o = PC.default_opts()
            o["fuzzy"] = name in ("many tokens", "letters")
            t = time.time()
            a = PC.run_impl(o, f(n), timeout=120.0)
            row[str(n)] = {"seconds": round(time.time() - t, 3), "outcome": a[0] if a[0] != "escape" else list(a)}
        res[name] = row
    return res


SCALE_BOUND_S = 20.0
VO = ["props/C14.vo"] + PC.VO_MODEL
NPROC = 6


import re as _re
_NAME_SIGN = _re.compile(r"[A-Za-z][+-]")


def _name_sign(s):
    return _NAME_SIGN.search(s) is not None


def zone_sign_cases(tier):
    """<time> <ZONE NAME><sign><n>: the one place where _parse rewrites its token list"""
    r = C.rng("C14-zonesign")
    n = 1500 if tier == "quick" else 40000
    names = ["GMT", "UTC", "Z", "z", "EST", "BRST", "CEST", "AAA", "X", "ABCDE", "gmt", "Utc"]
    times = ["10:36", "10:36:28", "2003-09-25 10:36:28", "20030925T104941", "Thu Sep 25 10:36:28 2003", "3pm",
             "10h36m", "Sep 25 2003 10:36"]
    out = []
    for _ in range(n):
        o = PC.gen_opts(r)
        t = r.choice(times)
        nm = r.choice(names)
        sg = r.choice("+-")
        num = r.choice(["3", "5", "03", "0300", "03:00", "12", "0", "00:30", "99", "1" * 30])
        sep = r.choice([" ", " ", "", "  "])
        tail = r.choice(["", "", " (%s)" % r.choice(names), " " + r.choice(names) + sg + "1"])
        out.append((o, "%s%s%s%s%s%s" % (t, sep, nm, sg, num, tail), "zone-sign-repeat"))
    return out


def load_regressions():
    path = os.path.join(C.VERIF, "corpus", "regressions", CID + ".jsonl")
    out = []
    if os.path.exists(path):
        for line in open(path):
            line = line.strip()
            if line:
                d = json.loads(line)
                o = PC.default_opts()
                o.update(d.get("opts", {}))
                if "default" in o:
                    o["default"] = tuple(o["default"])
                if "tzinfos" in d.get("opts", {}):
                    o["tzinfos"] = tuplify(o["tzinfos"])
                out.append((o, d["s"], "regression"))
    return out


tuplify = PC.tuplify


def small_scope(tier):
    """every string over a small date alphabet up to a length bound (default options, and fuzzy)"""
    alpha = ["1", "3", "0", " ", ":", ".", ",", "-", "/", "a", "m", "p", "+", "T", "Z"]
    n = 3 if tier == "quick" else 4
    out = []
    for k in range(0, n + 1):
        for tup in itertools.product(alpha, repeat=k):
            s = "".join(tup)
            out.append((PC.default_opts(), s, "small-scope"))
    if tier == "thorough":
        o2 = PC.default_opts()
        o2["fuzzy"] = True
        for k in range(0, 4):
            for tup in itertools.product(alpha, repeat=k):
                out.append((dict(o2), "".join(tup), "small-scope"))
    return out


def gen_cases(tier):
    r = C.rng("C14")
    n = 40000 if tier == "quick" else 1500000
    out = []
    for _ in range(n):
        o = PC.gen_opts(r, allow_bad=True)
        c = r.random()
        if c < 0.45:
            s, kind = PC.gen_fuzz(r), "fuzz"
        elif c < 0.60:
            s, kind = PC.render_some(r, PC.gen_dt(r)), "valid-rendering"
        elif c < 0.90:
            s, kind = PC.mutate(r, PC.render_some(r, PC.gen_dt(r))), "single-edit"
        else:
            s, kind = PC.mutate(r, PC.mutate(r, PC.render_some(r, PC.gen_dt(r)))), "double-edit"
        out.append((o, s, kind))
    return out


run_model_parallel = PC.run_model_parallel
opts_public = PC.opts_public


def replay(path):
    data = json.load(open(path))
    C.ensure_built([PC.AREA], VO)
    PC.install_watchdog()
    inp = data.get("input")
    if isinstance(inp, dict) and "s" in inp:
        o = PC.default_opts()
        o.update(inp.get("opts", {}))
        o["default"] = tuple(o["default"])
        o["tzinfos"] = tuplify(o["tzinfos"]) if isinstance(o["tzinfos"], list) else o["tzinfos"]
        s = inp["s"]
        print("input  %r  opts=%r" % (s, opts_public(o)))
        a = PC.run_impl(o, s)
        orc = C.Oracle(PC.AREA)
        b = PC.run_model(orc, [(o, s)])[0]
        orc.close()
        print("impl   ", a)
        print("model  ", b)
        print("property predicate on impl outcome (datetime | ParserError | OverflowError):", PC.allowed_outcome(a))
    elif isinstance(inp, dict) and "bytes_hex" in inp:
        o = PC.default_opts()
        o.update(inp.get("opts", {}))
        o["default"] = tuple(o["default"])
        o["tzinfos"] = tuplify(o["tzinfos"]) if isinstance(o["tzinfos"], list) else o["tzinfos"]
        bs = bytes.fromhex(inp["bytes_hex"])
        print("input  %r (bytes)  opts=%r" % (bs, opts_public(o)))
        a = PC.run_impl(o, "", text=bs)
        print("impl   ", a)
        print("property predicate on impl outcome (datetime | ParserError | OverflowError):", PC.allowed_outcome(a))
    else:
        print("replay names a broken obligation, no concrete input:", json.dumps(data, indent=1)[:2000])
    return 0


def main():
    argv = sys.argv[1:]
    if "--replay" in argv:
        return replay(argv[argv.index("--replay") + 1])
    tier = C.tier_from_argv(argv)
    t0 = time.time()
    verdict = C.Verdict(CID, MATCHERS)
    build_err = None
    try:
        C.ensure_built([PC.AREA], VO)
    except C.BuildError as ex:
        build_err = ex
    if build_err is not None:
        props = {"obligations": 0, "discharged": 0, "theorems": [], "assumptions": {},
                 "cmd": "coqc props/C14.v", "log": build_err.log, "ok": False}
    else:
        props = C.compile_props(CID)
    PC.install_watchdog()

    cases = load_regressions() + small_scope(tier) + zone_sign_cases(tier) + gen_cases(tier)
    # ---- implementation: every input, property predicate evaluated directly
    impl = []
    hist = {}
    outcome_hist = {}
    n_pred = 0
    t_impl = time.time()
    n_repeat = n_repeat_diff = 0
    for (o, s, kind) in cases:
        a = PC.run_impl(o, s)
        impl.append(a)
        hist[kind] = hist.get(kind, 0) + 1
        outcome_hist[a[0]] = outcome_hist.get(a[0], 0) + 1
        # the IDENTICAL call again, immediately (three more times for the zone-sign stream and for every
        # text where a letter run is directly followed by + or -): a successful or failed call must not
        # leave state behind that changes a later identical call
        reps = 3 if (kind == "zone-sign-repeat" or _name_sign(s)) else 1
        for _rep in range(reps):
            n_repeat += 1
            a2 = PC.run_impl(o, s)
            if a2 != a:
                n_repeat_diff += 1
                verdict.violation({"kind": "repeating the identical call gives a different outcome (state left "
                                           "behind by an earlier call)",
                                   "input": {"s": s, "opts": o}, "impl_first": a, "impl_again": a2,
                                   "repetition": _rep + 2})
                break
        if not PC.allowed_outcome(a):
            n_pred += 1
            verdict.violation({"kind": "parse() outcome outside {datetime, ParserError, OverflowError}"
                                       if a[0] != "TIMEOUT" else "parse() did not terminate within the watchdog",
                               "input": {"s": s, "opts": o}, "impl": a})
    t_impl = time.time() - t_impl

    # ---- determinism / statelessness: re-run a sample in a different order on the same instances
    r = C.rng("C14-order")
    idx = list(range(len(cases)))
    r.shuffle(idx)
    n_order = 0
    resample = idx[:min(len(idx), 20000 if tier == "quick" else 200000)]
    for k in resample:
        o, s, kind = cases[k]
        a2 = PC.run_impl(o, s)
        if a2 != impl[k]:
            n_order += 1
            verdict.violation({"kind": "outcome depends on call order / earlier calls (state left behind)",
                               "input": {"s": s, "opts": o}, "impl_first": impl[k], "impl_again": a2})
    # ---- str / bytes / stream equivalence and TypeError on non-text (implementation only)
    n_io = 0
    n_iodiff = 0
    for k in resample[:5000 if tier == "quick" else 50000]:
        o, s, kind = cases[k]
        try:
            bs = s.encode("utf-8")
        except UnicodeEncodeError:
            continue
        n_io += 1
        for variant, obj in (("bytes", bs), ("bytearray", bytearray(bs)), ("stream", io.StringIO(s))):
            a3 = PC.run_impl(o, s, text=obj)
            if a3 != impl[k]:
                n_iodiff += 1
                verdict.violation({"kind": "%s input gives a different outcome than the same text as str" % variant,
                                   "input": {"s": s, "opts": o}, "impl_str": impl[k], "impl_variant": a3})
    # ---- undecodable bytes (implementation only): parse() decodes bytes as UTF-8; invalid UTF-8 raises
    # UnicodeDecodeError, a ValueError that is not ParserError (open finding F-C14-undecodable)
    n_undec = 0
    r2 = C.rng("C14-undecodable")
    for k in resample[:300 if tier == "quick" else 5000]:
        o, s, kind = cases[k]
        try:
            bs = bytearray(s.encode("utf-8"))
        except UnicodeEncodeError:
            continue
        pos = r2.randint(0, len(bs))
        bs[pos:pos] = r2.choice([b"\xff", b"\xc3", b"\xe2\x82", b"\x80", b"\xf8\x88\x80\x80\x80", b"\xed\xa0\x80"])
        try:
            bytes(bs).decode("utf-8")
            continue
        except UnicodeDecodeError:
            pass
        n_undec += 1
        a5 = PC.run_impl(o, s, text=bytes(bs))
        if not PC.allowed_outcome(a5):
            n_pred += 1
            verdict.violation({"kind": "parse() outcome outside {datetime, ParserError, OverflowError} for a bytes input",
                               "input": {"bytes_hex": bytes(bs).hex(), "opts": o}, "impl": a5})
    # ---- code points outside the model's alphabet (implementation only, outcome class)
    outside = outside_table_cases(tier)
    n_outside_bad = 0
    outside_hist = {}
    for (o, s) in outside:
        a6 = PC.run_impl(o, s)
        outside_hist[a6[0]] = outside_hist.get(a6[0], 0) + 1
        if not PC.allowed_outcome(a6):
            n_outside_bad += 1
            n_pred += 1
            verdict.violation({"kind": "parse() outcome outside {datetime, ParserError, OverflowError}"
                                       if a6[0] != "TIMEOUT" else "parse() did not terminate within the watchdog",
                               "input": {"s": s, "opts": o, "outside_model_alphabet": True}, "impl": a6})
    # ---- the lexer's token-shape invariant (assumed by Prim.v's acceptance predicates): every token of every
    # generated text, as split by the implementation's own lexer
    from dateutil.parser import _parser as _PP
    n_tok = n_tok_bad = 0
    for (o, s, kind) in cases:
        try:
            toks = _PP._timelex.split(s)
        except Exception:
            continue
        for tk_ in toks:
            n_tok += 1
            if not token_shape_ok(tk_):
                n_tok_bad += 1
                if n_tok_bad <= 3:
                    verdict.violation({"kind": "lexer token outside the shape the model's int()/float()/Decimal() "
                                               "predicates assume", "input": {"s": s, "opts": o}, "token": tk_},
                                      concrete=False)
    # ---- "terminates promptly": length scaling
    scaling = scaling_probe(tier)
    for name, row in scaling.items():
        if row["100000"]["seconds"] > SCALE_BOUND_S or row["100000"]["outcome"] == "TIMEOUT":
            verdict.violation({"kind": "parse() did not finish a 10^5-character input within %.0f s" % SCALE_BOUND_S,
                               "input": {"s": "shape %r, n = 100000" % name, "opts": PC.default_opts()}, "impl": row},
                              concrete=False)
    n_type = 0
    for bad in (None, 123, 1.5, [], (), {}, object(), 2003):
        n_type += 1
        a4 = PC.run_impl(PC.default_opts(), "", text=bad)
        if a4 != ("escape", "TypeError"):
            verdict.violation({"kind": "non-text input does not raise TypeError",
                               "input": {"s": repr(bad), "opts": PC.default_opts()}, "impl": a4})

    # ---- correspondence with the extracted model
    n_diff = 0
    model = None
    samples = []
    t_model = time.time()
    have_oracle = os.path.exists(os.path.join(C.BIN, "oracle_" + PC.AREA))
    if have_oracle:
        try:
            model = run_model_parallel(cases)
        except Exception as ex:
            verdict.violation({"kind": "oracle failure", "input": None, "error": repr(ex)}, concrete=False)
    t_model = time.time() - t_model
    nontrivial = set()
    if model is not None:
        for k, (o, s, kind) in enumerate(cases):
            a, b = impl[k], model[k]
            if not PC.same_outcome(a, b, o["fwt"]):
                n_diff += 1
                # the property predicate at this input was evaluated above; a disagreement with an
                # allowed implementation outcome is a broken correspondence, not a failing input
                verdict.violation({"kind": "correspondence: implementation and extracted model disagree "
                                           "(implementation outcome is in the allowed set)",
                                   "input": {"s": s, "opts": o}, "impl": a, "model": b},
                                  concrete=not PC.allowed_outcome(a))
            if len(s) >= 3 and (a[0] == "ok" or any(ch.isdigit() for ch in s)):
                nontrivial.add((s, json.dumps(opts_public(o), sort_keys=True, default=str)))
            if k % max(1, len(cases) // 12) == 0:
                samples.append({"s": s[:80], "opts": opts_public(o), "impl": a, "model": b, "stream": kind})

    if not props["ok"] and not verdict.violations:
        verdict.violation({"kind": "broken proof obligation", "theorem_file": "coq/props/C14.v",
                           "theorems": props["theorems"], "discharged": props["discharged"],
                           "input": None, "log_tail": props["log"][-3000:]}, concrete=False)
    rc = verdict.finish()
    cov = {
        "evaluations": len(cases),
        "distinct_nontrivial": len(nontrivial),
        "rule": "strings from: regression corpus; every string over a 15-symbol date alphabet up to length "
                "3 (quick) / 4 (thorough); grammar fuzz over date words, numbers, digit runs 1..40 / 300+ / "
                "around 4300, separators, signs, inf/nan/1e5, Unicode digits/letters/spaces, NUL; valid "
                "renderings of boundary-biased datetimes in ~30 formats and their single/double edits; each "
                "with random options (fuzzy, fuzzy_with_tokens, dayfirst/yearfirst as keyword or parserinfo, "
                "ignoretz, tzinfos dict/callable/int/str/tzinfo/None, default, parserinfo year, module-level "
                "or instance call).  Non-trivial = length >= 3 and (parses, or contains a digit); distinct = "
                "distinct (string, options) pairs",
        "exhaustive": False,
        "small_scope_exhaustive": "all strings over ['1','3','0',' ',':','.',',','-','/','a','m','p','+','T','Z'] "
                                  "of length <= %d" % (3 if tier == "quick" else 4),
        "samples": samples[:14],
        "input_distribution": hist,
        "impl_outcome_distribution": outcome_hist,
        "property_predicate_violations": n_pred,
        "model_vs_impl_disagreements": n_diff,
        "call_order_reruns": len(resample), "call_order_differences": n_order,
        "identical_call_repetitions": n_repeat, "identical_call_differences": n_repeat_diff,
        "bytes_stream_inputs": n_io, "bytes_stream_differences": n_iodiff, "non_text_inputs": n_type,
        "undecodable_bytes_inputs": n_undec,
        "outside_alphabet": {"inputs": len(outside), "outcome_distribution": outside_hist, "outside_allowed_set": n_outside_bad,
                             "note": "implementation only, outcome CLASS only: letters / digits / spaces of 22 Unicode blocks "
                                     "that are NOT in the model's table (the model would lex them as 'other')"},
        "alphabet": {"sigma": "ASCII + %d non-ASCII code points (coq/gen/ParseTables.v tbl_chars)" % len(PC.table_codepoints()),
                     "statement": "C14_parse_total / C14_parse_full_total carry the hypothesis over_sigma s; real Unicode "
                                  "coverage of theorems AND of the model correspondence is exactly those code points"},
        "token_shape_invariant": {"tokens_checked": n_tok, "violations": n_tok_bad,
                                  "status": "PROVED for the model's lexer (C14_lex_token_shape, coq/parse/LexShape.v): every "
                                            "token is a single character, or letters/digits/dots/commas with no letter next to a "
                                            "digit; tested here on every generated text with the IMPLEMENTATION's own lexer.  What "
                                            "stays trusted: that CPython's int()/float()/Decimal() on tokens of this shape accept "
                                            "exactly what coq/parse/Prim.v says (validated by the correspondence only)"},
        "length_scaling": {"bound": "every probe shape of 10^5 characters finishes within %.0f s on this machine" % SCALE_BOUND_S,
                           "probes": scaling,
                           "note": "digit-run shapes are QUADRATIC in the length (Decimal(str) / int(Decimal) on n digits): "
                                   "10^6 digits take tens of seconds; 'promptly' is claimed for inputs up to 10^5 characters "
                                   "only; no theorem bounds time (C14_lex_linear bounds the token count)"},
        "option_restrictions": ["`default` is a naive datetime.datetime (a date, an aware datetime or None-with-clock is "
                                "outside the model; a date raises TypeError)",
                                "user tzinfo objects returned by tzinfos do not raise in tzname()/utcoffset()",
                                "tzinfos is None, a dict or a callable with dict-like behaviour; its values may be ANYTHING "
                                "(unsupported types and rejected TZ strings are generated: F-C14-tzinfos-type, F-C14-tzstr)",
                                "text is str / bytes / text stream; undecodable bytes are generated (F-C14-undecodable)"],
        "timing_s": {"impl": round(t_impl, 1), "model": round(t_model, 1)},
        "known_finding_examples": {k: {"s_prefix": (v["input"].get("s") or v["input"].get("bytes_hex", ""))[:40],
                                       "len": len(v["input"].get("s") or v["input"].get("bytes_hex", "")), "impl": v.get("impl")}
                                   for k, v in verdict.known_examples.items()},
        "differential_only": ["bytes/bytearray/stream inputs and TypeError on non-text (implementation only)",
                              "code points outside ASCII + coq/gen/ParseTables.tbl_chars are outside the model"],
        "guard_matcher_correspondence": {
            "F-C14-bigmonth": {
                "theorem": "C14_parse_total (guarded), C14_escape_characterised, C14_parse_total_unguarded_refuted",
                "guard": "the outcome is not OutEscape ValueErrorNoStr; by C14_escape_characterised an escape happens iff "
                         "_build_naive raised the unprintable IllegalMonthError (month >= 10^int_max_str_digits)",
                "matcher": "m_unprintable_month: implementation outcome is a plain ValueError AND the text has a digit run "
                           "longer than sys.get_int_max_str_digits() AND the extracted model's outcome for the same input and "
                           "options is OutEscape ValueErrorNoStr (oracle reply [3, 8])",
                "relation": "matcher = complement of the theorem's guard, evaluated on the extracted model for the very input"},
            "F-C14-tzinfos-type": {
                "theorem": "C14_parse_full_total (escape_class, class 2), C14_parse_full_escapes_refuted; guarded form C14_parse_total (wf_tzinfos)",
                "guard": "wf_tzinfos: every tzinfos value is int | TZ string | tzinfo | None; exact trigger Full.bad_value o r = true",
                "matcher": "m_tzinfos_type: the implementation raises TypeError AND the extracted full model answers OutEscape TypeError ([3, 5])",
                "relation": "matcher = the theorem's class-2 trigger evaluated on the extracted model for the very input"},
            "F-C14-tzstr": {
                "theorem": "C14_parse_full_total (escape_class, class 3), C14_parse_full_escapes_refuted, C14_parse_full_wf (bad = [])",
                "guard": "no tzinfos TZ string is rejected by tz.tzstr (bad = []); exact trigger Full.rejected_tzstr bad o r = true",
                "matcher": "m_tzstr_rejected: the implementation raises a plain ValueError AND the extracted full model answers OutEscape ValueError ([3, 2])",
                "relation": "matcher = the theorem's class-3 trigger evaluated on the extracted model for the very input"},
            "F-C14-undecodable": {
                "theorem": "none (bytes decoding is outside the model; implementation-only)",
                "guard": "bytes input is valid UTF-8",
                "matcher": "m_undecodable: the input bytes do not decode as UTF-8 AND the exception is UnicodeDecodeError",
                "relation": "matcher = complement of the stated input restriction"}},
        "known_findings_hit": verdict.known_hits,
    }
    C.write_evidence(CID, tier, t0, props, cov,
                     ["decimal.Decimal / float() / int() acceptance of token strings modelled as predicates on "
                      "digit strings (coq/parse/Prim.v), validated by the correspondence",
                      "Decimal arithmetic of the default context (precision 28, ROUND_HALF_EVEN) modelled for the "
                      "two expressions the parser evaluates; exponent limits not modelled (inputs < 10^5 chars)",
                      "CPython datetime.replace C-int conversion and range checks, calendar.monthrange, "
                      "relativedelta(weekday=) modelled (Build.v), not verified",
                      "character classes: ASCII formulas checked against the running Python on every run + "
                      "dumped table for representative non-ASCII code points (harness/gen_parse_tables.py)",
                      "tz objects are a small datatype; tzname() of user zones enters as two oracle bits read from the "
                      "object handed to parse(); for the local zone the bits and the failure inputs come from the `time` "
                      "module (not from dateutil)",
                      "lexer token-shape invariant: proved for the model (C14_lex_token_shape); CPython's acceptance of tokens "
                      "of that shape is trusted (Prim.v) and validated by the correspondence",
                      "the clock: parserinfo._year is read once per run from the implementation's module-level parser "
                      "and pinned on every parserinfo the check creates; TZ and PYTHONINTMAXSTRDIGITS are pinned"],
                     len(verdict.violations))
    print("C14 %s: obligations %d/%d, %d cases (impl %.0fs, model %.0fs), predicate violations %d, model-diff %d, "
          "order-diff %d, repeat-diff %d, io-diff %d, %.1fs" % (tier, props["discharged"], props["obligations"], len(cases),
                                                t_impl, t_model, n_pred, n_diff, n_order, n_repeat_diff, n_iodiff, time.time() - t0))
    return rc


if __name__ == "__main__":
    sys.exit(main())
