#!/usr/bin/env python3
"""C14 -- parse() is total: a datetime, ParserError or OverflowError, always terminating.

Theorems (coq/props/C14.v) over the hand model coq/parse/* of _timelex / parser._parse /
_build_naive / _build_tzaware; correspondence of the real dateutil.parser.parse with the extracted
model (bin/oracle_parse) on grammar-based fuzz, digit runs, Unicode, NUL, single-edit mutations of
valid renderings x option combinations x repeated calls on shared parser instances; and the
property predicate itself (outcome class, termination under a watchdog, determinism,
statelessness, str/bytes/stream equivalence, TypeError on non-text) evaluated directly on the
implementation for every input."""
import io
import itertools
import json
import os
import sys
import threading
import time

sys.path.insert(0, os.path.dirname(os.path.abspath(__file__)))
import common as C

C.reexec_under_impl_python()
import parse_common as PC

CID = "C14"


def _longest_digit_run(s):
    best = cur = 0
    for ch in s:
        if ch.isdecimal():
            cur += 1
            best = max(best, cur)
        else:
            cur = 0
    return best


def m_unprintable_month(payload):
    """a plain ValueError escapes and the text has a digit run longer than the int -> str limit"""
    inp = payload.get("input")
    impl = payload.get("impl")
    lim = sys.get_int_max_str_digits() if hasattr(sys, "get_int_max_str_digits") else 0
    if not (isinstance(inp, dict) and isinstance(inp.get("s"), str) and impl is not None
            and list(impl) == ["escape", "ValueError"] and lim > 0 and _longest_digit_run(inp["s"]) > lim
            and payload.get("kind", "").startswith("parse() outcome outside")):
        return False
    # ... and the faithful model escapes with exactly the class the theorem's guard names
    # (ValueErrorNoStr = reply [3, 8]; C14_escape_characterised): matcher = complement of the guard
    return PC.model_raw(PC.opts_from_json(inp.get("opts")), inp["s"]) == [3, 8]


MATCHERS = {"m_unprintable_month": m_unprintable_month}
VO = ["props/C14.vo"] + PC.VO_MODEL
NPROC = 6


import re as _re
_NAME_SIGN = _re.compile(r"[A-Za-z][+-]")


def _name_sign(s):
    return _NAME_SIGN.search(s) is not None


def zone_sign_cases(tier):
    """<time> <ZONE NAME><sign><n>: the one place where _parse rewrites its token list"""
    r = C.rng("C14-zonesign")
    n = 1500 if tier == "quick" else 40000
    names = ["GMT", "UTC", "Z", "z", "EST", "BRST", "CEST", "AAA", "X", "ABCDE", "gmt", "Utc"]
    times = ["10:36", "10:36:28", "2003-09-25 10:36:28", "20030925T104941", "Thu Sep 25 10:36:28 2003", "3pm",
             "10h36m", "Sep 25 2003 10:36"]
    out = []
    for _ in range(n):
        o = PC.gen_opts(r)
        t = r.choice(times)
        nm = r.choice(names)
        sg = r.choice("+-")
        num = r.choice(["3", "5", "03", "0300", "03:00", "12", "0", "00:30", "99", "1" * 30])
        sep = r.choice([" ", " ", "", "  "])
        tail = r.choice(["", "", " (%s)" % r.choice(names), " " + r.choice(names) + sg + "1"])
        out.append((o, "%s%s%s%s%s%s" % (t, sep, nm, sg, num, tail), "zone-sign-repeat"))
    return out


def load_regressions():
    path = os.path.join(C.VERIF, "corpus", "regressions", CID + ".jsonl")
    out = []
    if os.path.exists(path):
        for line in open(path):
            line = line.strip()
            if line:
                d = json.loads(line)
                o = PC.default_opts()
                o.update(d.get("opts", {}))
                if "default" in o:
                    o["default"] = tuple(o["default"])
                if "tzinfos" in d.get("opts", {}):
                    o["tzinfos"] = tuplify(o["tzinfos"])
                out.append((o, d["s"], "regression"))
    return out


tuplify = PC.tuplify


def small_scope(tier):
    """every string over a small date alphabet up to a length bound (default options, and fuzzy)"""
    alpha = ["1", "3", "0", " ", ":", ".", ",", "-", "/", "a", "m", "p", "+", "T", "Z"]
    n = 3 if tier == "quick" else 4
    out = []
    for k in range(0, n + 1):
        for tup in itertools.product(alpha, repeat=k):
            s = "".join(tup)
            out.append((PC.default_opts(), s, "small-scope"))
    if tier == "thorough":
        o2 = PC.default_opts()
        o2["fuzzy"] = True
        for k in range(0, 4):
            for tup in itertools.product(alpha, repeat=k):
                out.append((dict(o2), "".join(tup), "small-scope"))
    return out


def gen_cases(tier):
    r = C.rng("C14")
    n = 40000 if tier == "quick" else 1500000
    out = []
    for _ in range(n):
        o = PC.gen_opts(r)
        c = r.random()
        if c < 0.45:
            s, kind = PC.gen_fuzz(r), "fuzz"
        elif c < 0.60:
            s, kind = PC.render_some(r, PC.gen_dt(r)), "valid-rendering"
        elif c < 0.90:
            s, kind = PC.mutate(r, PC.render_some(r, PC.gen_dt(r))), "single-edit"
        else:
            s, kind = PC.mutate(r, PC.mutate(r, PC.render_some(r, PC.gen_dt(r)))), "double-edit"
        out.append((o, s, kind))
    return out


run_model_parallel = PC.run_model_parallel
opts_public = PC.opts_public


def replay(path):
    data = json.load(open(path))
    C.ensure_built([PC.AREA], VO)
    PC.install_watchdog()
    inp = data.get("input")
    if isinstance(inp, dict) and "s" in inp:
        o = PC.default_opts()
        o.update(inp.get("opts", {}))
        o["default"] = tuple(o["default"])
        o["tzinfos"] = tuplify(o["tzinfos"]) if isinstance(o["tzinfos"], list) else o["tzinfos"]
        s = inp["s"]
        print("input  %r  opts=%r" % (s, opts_public(o)))
        a = PC.run_impl(o, s)
        orc = C.Oracle(PC.AREA)
        b = PC.run_model(orc, [(o, s)])[0]
        orc.close()
        print("impl   ", a)
        print("model  ", b)
        print("property predicate on impl outcome (datetime | ParserError | OverflowError):", PC.allowed_outcome(a))
    else:
        print("replay names a broken obligation, no concrete input:", json.dumps(data, indent=1)[:2000])
    return 0


def main():
    argv = sys.argv[1:]
    if "--replay" in argv:
        return replay(argv[argv.index("--replay") + 1])
    tier = C.tier_from_argv(argv)
    t0 = time.time()
    verdict = C.Verdict(CID, MATCHERS)
    build_err = None
    try:
        C.ensure_built([PC.AREA], VO)
    except C.BuildError as ex:
        build_err = ex
    if build_err is not None:
        props = {"obligations": 0, "discharged": 0, "theorems": [], "assumptions": {},
                 "cmd": "coqc props/C14.v", "log": build_err.log, "ok": False}
    else:
        props = C.compile_props(CID)
    PC.install_watchdog()

    cases = load_regressions() + small_scope(tier) + zone_sign_cases(tier) + gen_cases(tier)
    # ---- implementation: every input, property predicate evaluated directly
    impl = []
    hist = {}
    outcome_hist = {}
    n_pred = 0
    t_impl = time.time()
    n_repeat = n_repeat_diff = 0
    for (o, s, kind) in cases:
        a = PC.run_impl(o, s)
        impl.append(a)
        hist[kind] = hist.get(kind, 0) + 1
        outcome_hist[a[0]] = outcome_hist.get(a[0], 0) + 1
        # the IDENTICAL call again, immediately (three more times for the zone-sign stream and for every
        # text where a letter run is directly followed by + or -): a successful or failed call must not
        # leave state behind that changes a later identical call
        reps = 3 if (kind == "zone-sign-repeat" or _name_sign(s)) else 1
        for _rep in range(reps):
            n_repeat += 1
            a2 = PC.run_impl(o, s)
            if a2 != a:
                n_repeat_diff += 1
                verdict.violation({"kind": "repeating the identical call gives a different outcome (state left "
                                           "behind by an earlier call)",
                                   "input": {"s": s, "opts": o}, "impl_first": a, "impl_again": a2,
                                   "repetition": _rep + 2})
                break
        if not PC.allowed_outcome(a):
            n_pred += 1
            verdict.violation({"kind": "parse() outcome outside {datetime, ParserError, OverflowError}"
                                       if a[0] != "TIMEOUT" else "parse() did not terminate within the watchdog",
                               "input": {"s": s, "opts": o}, "impl": a})
    t_impl = time.time() - t_impl

    # ---- determinism / statelessness: re-run a sample in a different order on the same instances
    r = C.rng("C14-order")
    idx = list(range(len(cases)))
    r.shuffle(idx)
    n_order = 0
    resample = idx[:min(len(idx), 20000 if tier == "quick" else 200000)]
    for k in resample:
        o, s, kind = cases[k]
        a2 = PC.run_impl(o, s)
        if a2 != impl[k]:
            n_order += 1
            verdict.violation({"kind": "outcome depends on call order / earlier calls (state left behind)",
                               "input": {"s": s, "opts": o}, "impl_first": impl[k], "impl_again": a2})
    # ---- str / bytes / stream equivalence and TypeError on non-text (implementation only)
    n_io = 0
    n_iodiff = 0
    for k in resample[:5000 if tier == "quick" else 50000]:
        o, s, kind = cases[k]
        try:
            bs = s.encode("utf-8")
        except UnicodeEncodeError:
            continue
        n_io += 1
        for variant, obj in (("bytes", bs), ("bytearray", bytearray(bs)), ("stream", io.StringIO(s))):
            a3 = PC.run_impl(o, s, text=obj)
            if a3 != impl[k]:
                n_iodiff += 1
                verdict.violation({"kind": "%s input gives a different outcome than the same text as str" % variant,
                                   "input": {"s": s, "opts": o}, "impl_str": impl[k], "impl_variant": a3})
    n_type = 0
    for bad in (None, 123, 1.5, [], (), {}, object(), 2003):
        n_type += 1
        a4 = PC.run_impl(PC.default_opts(), "", text=bad)
        if a4 != ("escape", "TypeError"):
            verdict.violation({"kind": "non-text input does not raise TypeError",
                               "input": {"s": repr(bad), "opts": PC.default_opts()}, "impl": a4})

    # ---- correspondence with the extracted model
    n_diff = 0
    model = None
    samples = []
    t_model = time.time()
    have_oracle = os.path.exists(os.path.join(C.BIN, "oracle_" + PC.AREA))
    if have_oracle:
        try:
            model = run_model_parallel(cases)
        except Exception as ex:
            verdict.violation({"kind": "oracle failure", "input": None, "error": repr(ex)}, concrete=False)
    t_model = time.time() - t_model
    nontrivial = set()
    if model is not None:
        for k, (o, s, kind) in enumerate(cases):
            a, b = impl[k], model[k]
            if not PC.same_outcome(a, b, o["fwt"]):
                n_diff += 1
                # the property predicate at this input was evaluated above; a disagreement with an
                # allowed implementation outcome is a broken correspondence, not a failing input
                verdict.violation({"kind": "correspondence: implementation and extracted model disagree "
                                           "(implementation outcome is in the allowed set)",
                                   "input": {"s": s, "opts": o}, "impl": a, "model": b},
                                  concrete=not PC.allowed_outcome(a))
            if len(s) >= 3 and (a[0] == "ok" or any(ch.isdigit() for ch in s)):
                nontrivial.add((s, json.dumps(opts_public(o), sort_keys=True, default=str)))
            if k % max(1, len(cases) // 12) == 0:
                samples.append({"s": s[:80], "opts": opts_public(o), "impl": a, "model": b, "stream": kind})

    if not props["ok"] and not verdict.violations:
        verdict.violation({"kind": "broken proof obligation", "theorem_file": "coq/props/C14.v",
                           "theorems": props["theorems"], "discharged": props["discharged"],
                           "input": None, "log_tail": props["log"][-3000:]}, concrete=False)
    rc = verdict.finish()
    cov = {
        "evaluations": len(cases),
        "distinct_nontrivial": len(nontrivial),
        "rule": "strings from: regression corpus; every string over a 15-symbol date alphabet up to length "
                "3 (quick) / 4 (thorough); grammar fuzz over date words, numbers, digit runs 1..40 / 300+ / "
                "around 4300, separators, signs, inf/nan/1e5, Unicode digits/letters/spaces, NUL; valid "
                "renderings of boundary-biased datetimes in ~30 formats and their single/double edits; each "
                "with random options (fuzzy, fuzzy_with_tokens, dayfirst/yearfirst as keyword or parserinfo, "
                "ignoretz, tzinfos dict/callable/int/str/tzinfo/None, default, parserinfo year, module-level "
                "or instance call).  Non-trivial = length >= 3 and (parses, or contains a digit); distinct = "
                "distinct (string, options) pairs",
        "exhaustive": False,
        "small_scope_exhaustive": "all strings over ['1','3','0',' ',':','.',',','-','/','a','m','p','+','T','Z'] "
                                  "of length <= %d" % (3 if tier == "quick" else 4),
        "samples": samples[:14],
        "input_distribution": hist,
        "impl_outcome_distribution": outcome_hist,
        "property_predicate_violations": n_pred,
        "model_vs_impl_disagreements": n_diff,
        "call_order_reruns": len(resample), "call_order_differences": n_order,
        "identical_call_repetitions": n_repeat, "identical_call_differences": n_repeat_diff,
        "bytes_stream_inputs": n_io, "bytes_stream_differences": n_iodiff, "non_text_inputs": n_type,
        "timing_s": {"impl": round(t_impl, 1), "model": round(t_model, 1)},
        "known_finding_examples": {k: {"s_prefix": v["input"]["s"][:40], "len": len(v["input"]["s"]), "impl": v.get("impl")}
                                   for k, v in verdict.known_examples.items()},
        "differential_only": ["bytes/bytearray/stream inputs and TypeError on non-text (implementation only)",
                              "code points outside ASCII + coq/gen/ParseTables.tbl_chars are outside the model"],
        "guard_matcher_correspondence": {
            "F-C14-bigmonth": {
                "theorem": "C14_parse_total (guarded), C14_escape_characterised, C14_parse_total_unguarded_refuted",
                "guard": "the outcome is not OutEscape ValueErrorNoStr; by C14_escape_characterised an escape happens iff "
                         "_build_naive raised the unprintable IllegalMonthError (month >= 10^int_max_str_digits)",
                "matcher": "m_unprintable_month: implementation outcome is a plain ValueError AND the text has a digit run "
                           "longer than sys.get_int_max_str_digits() AND the extracted model's outcome for the same input and "
                           "options is OutEscape ValueErrorNoStr (oracle reply [3, 8])",
                "relation": "matcher = complement of the theorem's guard, evaluated on the extracted model for the very input"}},
        "known_findings_hit": verdict.known_hits,
    }
    C.write_evidence(CID, tier, t0, props, cov,
                     ["decimal.Decimal / float() / int() acceptance of token strings modelled as predicates on "
                      "digit strings (coq/parse/Prim.v), validated by the correspondence",
                      "Decimal arithmetic of the default context (precision 28, ROUND_HALF_EVEN) modelled for the "
                      "two expressions the parser evaluates; exponent limits not modelled (inputs < 10^5 chars)",
                      "CPython datetime.replace C-int conversion and range checks, calendar.monthrange, "
                      "relativedelta(weekday=) modelled (Build.v), not verified",
                      "character classes: ASCII formulas checked against the running Python on every run + "
                      "dumped table for representative non-ASCII code points (harness/gen_parse_tables.py)",
                      "tz objects are a small datatype; tzname() of user/local zones enters as two oracle bits"],
                     len(verdict.violations))
    print("C14 %s: obligations %d/%d, %d cases (impl %.0fs, model %.0fs), predicate violations %d, model-diff %d, "
          "order-diff %d, repeat-diff %d, io-diff %d, %.1fs" % (tier, props["discharged"], props["obligations"], len(cases),
                                                t_impl, t_model, n_pred, n_diff, n_order, n_repeat_diff, n_iodiff, time.time() - t0))
    return rc


if __name__ == "__main__":
    sys.exit(main())
