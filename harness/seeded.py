#!/usr/bin/env python3
"""Seeded-change tooling (not a registered check).

  seeded.py validate <seeded/ID>           confirm in a scratch worktree: demo passes without the patch,
                                           fails with it, dateutil's test suite is same-as-baseline with it
  seeded.py run <seeded/ID> [quick|thorough] [--verif DIR]
                                           apply the patch in a scratch worktree, run ./check <prop> there
                                           through VERIF_REPO, report CAUGHT / MISSED, remove the worktree
  seeded.py runall [quick] [--verif DIR]   every seeded/ID
Scratch worktrees live under /tmp/seedwt and are removed straight afterwards.
"""
import json
import os
import re
import shutil
import subprocess
import sys
import time

VERIF = os.path.dirname(os.path.dirname(os.path.abspath(__file__)))
REPO = "/repo"
WT_ROOT = "/tmp/seedwt"
PY = "/venv/bin/python"


def sh(cmd, cwd=None, env=None, timeout=3600):
    p = subprocess.run(cmd, cwd=cwd, env=env, shell=isinstance(cmd, str), stdout=subprocess.PIPE,
                       stderr=subprocess.STDOUT, text=True, timeout=timeout)
    return p.returncode, p.stdout


def make_wt(tag):
    os.makedirs(WT_ROOT, exist_ok=True)
    wt = os.path.join(WT_ROOT, "%s-%d" % (tag, os.getpid()))
    if os.path.exists(wt):
        drop_wt(wt)
    rc, out = sh(["git", "-C", REPO, "worktree", "add", "-q", "--detach", wt, "HEAD"])
    if rc != 0:
        raise RuntimeError(out)
    return wt


def drop_wt(wt):
    sh(["git", "-C", REPO, "worktree", "remove", "--force", wt])
    shutil.rmtree(wt, ignore_errors=True)
    sh(["git", "-C", REPO, "worktree", "prune"])


def env_for(wt):
    e = dict(os.environ)
    e["PYTHONPATH"] = os.path.join(wt, "src")
    e["PYTHONHASHSEED"] = "0"
    return e


def run_demo(sdir, wt):
    demo = os.path.join(os.path.abspath(sdir), "demo.py")
    rc, out = sh([PY, demo], cwd=wt, env=env_for(wt), timeout=600)
    return rc, out


def tests_same_as_baseline(wt):
    rc, out = sh([PY, "-m", "pytest", "-q", "-p", "no:cacheprovider", "--timeout=900",
                  "--continue-on-collection-errors", "-q"], cwd=wt, env=env_for(wt), timeout=1800)
    fails = sorted(re.sub(r" - .*", "", l) for l in out.splitlines() if re.match(r"^(FAILED|ERROR)", l))
    base = sorted(re.sub(r" - .*", "", l.rstrip("\n")) for l in
                  open(os.path.join(VERIF, "harness", "baseline_fail.txt")) if l.strip())
    return fails == base, [f for f in fails if f not in base]


def validate(sdir):
    meta = json.load(open(os.path.join(sdir, "meta.json")))
    wt = make_wt("val-" + os.path.basename(sdir))
    res = {}
    try:
        rc, out = run_demo(sdir, wt)
        res["demo_clean_passes"] = (rc == 0)
        rc, out = sh(["git", "apply", os.path.join(os.path.abspath(sdir), "patch.diff")], cwd=wt)
        res["patch_applies"] = (rc == 0)
        if rc != 0:
            res["apply_log"] = out
        rc, out = run_demo(sdir, wt)
        res["demo_patched_fails"] = (rc != 0)
        res["demo_patched_tail"] = out[-600:]
        same, new = tests_same_as_baseline(wt)
        res["tests_same_as_baseline"] = same
        res["new_test_failures"] = new[:10]
    finally:
        drop_wt(wt)
    res["valid"] = all(res.get(k) for k in ("demo_clean_passes", "patch_applies", "demo_patched_fails",
                                             "tests_same_as_baseline"))
    return meta, res


def run(sdir, tier="quick", verif=VERIF):
    meta = json.load(open(os.path.join(sdir, "meta.json")))
    prop = meta["property"]
    wt = make_wt("run-" + os.path.basename(sdir))
    try:
        rc, out = sh(["git", "apply", os.path.join(os.path.abspath(sdir), "patch.diff")], cwd=wt)
        if rc != 0:
            return meta, {"error": "patch does not apply: " + out}
        e = dict(os.environ)
        e["VERIF_REPO"] = wt
        t0 = time.time()
        rc, out = sh([os.path.join(verif, "check"), prop, tier], cwd=verif, env=e, timeout=7200)
        viol = [l for l in out.splitlines() if l.startswith("VIOLATION")]
        return meta, {"exit": rc, "caught": rc == 1 and bool(viol), "violation_lines": viol[:3], "any_concrete": any("no-failing-input-found" not in l for l in viol),
                      "tail": out[-800:], "wall_s": round(time.time() - t0, 1)}
    finally:
        drop_wt(wt)


def main():
    a = sys.argv[1:]
    verif = VERIF
    if "--verif" in a:
        i = a.index("--verif")
        verif = a[i + 1]
        del a[i:i + 2]
    cmd = a[0]
    if cmd == "validate":
        meta, res = validate(a[1])
        print(json.dumps(res, indent=1))
        sys.exit(0 if res["valid"] else 1)
    if cmd == "run":
        tier = a[2] if len(a) > 2 else "quick"
        meta, res = run(a[1], tier, verif)
        print(json.dumps(res, indent=1))
        rec = {"tier": tier, "caught": bool(res.get("caught")), "exit": res.get("exit"),
               "violation_lines": [re.sub(r"replay=\S*/", "replay=", l) for l in (res.get("violation_lines") or [])],
               "concrete": bool(res.get("any_concrete")),
               "wall_s": res.get("wall_s"), "when": time.strftime("%Y-%m-%dT%H:%M:%SZ", time.gmtime()),
               "repo_head": sh(["git", "-C", REPO, "rev-parse", "--short", "HEAD"])[1].strip()}
        open(os.path.join(a[1], "last_run.json"), "w").write(json.dumps(rec, indent=1) + "\n")
        sys.exit(0 if res.get("caught") else 1)
    if cmd == "runall":
        tier = a[1] if len(a) > 1 else "quick"
        root = os.path.join(VERIF, "seeded")
        rows = []
        for d in sorted(os.listdir(root)):
            sdir = os.path.join(root, d)
            if not os.path.exists(os.path.join(sdir, "meta.json")):
                continue
            if not os.path.exists(os.path.join(verif, "harness", "check_%s.py" %
                                               json.load(open(os.path.join(sdir, "meta.json")))["property"])):
                rows.append((d, "NO-CHECK", ""))
                continue
            meta, res = run(sdir, tier, verif)
            rows.append((d, "CAUGHT" if res.get("caught") else "MISSED",
                         (res.get("violation_lines") or [res.get("tail", "")[-200:]])[0]))
            print(rows[-1], flush=True)
        print("\n".join("%-14s %-8s %s" % r for r in rows))


if __name__ == "__main__":
    main()
