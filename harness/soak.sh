#!/bin/bash
# multi-seed soak of every quick check on the unchanged tree (run from a vp snapshot)
./setup.sh > soak_setup.log 2>&1; echo "setup rc=$?"
for s in ${SOAK_SEEDS:-7 8 9 10 11}; do
 for i in 01 02 03 04 05 06 07 08 09 10 11 12 13 14 15 16 17 18 19 20; do
  c=C$i; t0=$(date +%s)
  VERIF_SEED=$s timeout 1500 ./check $c quick > soak_${c}_$s.log 2>&1; rc=$?
  echo "seed=$s $c rc=$rc $(( $(date +%s)-t0 ))s viol=$(grep -c ^VIOLATION soak_${c}_$s.log) | $(tail -1 soak_${c}_$s.log | cut -c1-120)"
 done
done
