#!/usr/bin/env python3
"""Fail-closed translator  /repo/src/dateutil/tz/tz.py, tz/_common.py  ->  coq/gen/TzGen.v

Translated on every check (common.regenerate): tzfile._find_last_transition, _get_ttinfo,
_find_ttinfo, fromutc, is_ambiguous, _resolve_ambiguous_time, utcoffset, dst, tzname; the module
functions _datetime_to_timestamp, datetime_exists, datetime_ambiguous, resolve_imaginary; the generic
layer _tzinfo.is_ambiguous, _fold_status, _fromutc, fromutc; _ttinfo.__eq__ and tzfile.__eq__ / __ne__; and, inside
_read_tzfile, the choice of ttinfo_before, the backwards scan for ttinfo_std / ttinfo_dst (for/break/else) and the
`for i, tti in enumerate(out.trans_idx)` loop deriving tti.dstoffset and the wall-clock transition list (loops become
folds py_for / py_for_enumerate over a tuple of the loop-carried variables; see translate_read_loops).
coq/tzfile/TzGenThm.v proves each generated function equal to the hand model for all inputs.

ACCEPTED SUBSET (anything else -> TranslateError; the output file is then replaced by one that does
not compile, so every obligation of props/C04-C06 is broken; this script itself always exits 0 so
that a change in tz.py cannot break the checks of other areas):
  statements : docstring; `x = e`; `x += e` (datetime += timedelta); `return e`;
               `if c: return e` / `if c: <assignments>` / if-else whose arms assign the same variable;
               `if X is None or c: return e` (then X is an int afterwards);
               `if not isinstance(dt, datetime.datetime): raise TypeError`, `if dt.tzinfo is not self: raise
               ValueError` (calling protocol, dropped); `if dt is None: return None` for a datetime
               parameter (dropped: the model has no None datetimes); `if tz is None: ...` argument
               defaulting (dropped: the model always passes the zone); `if v is None: raise ValueError`
               after utcoffset()/dst() (dropped: the model's zones return numbers);
               `try: return tz.is_ambiguous(dt) except Exception: pass` guarded by the getattr test
  expressions: int / bool / None constants, ZERO, UTC, names, + - on ints and timedeltas, datetime +/-
               timedelta, naive - naive, comparisons < <= > >= == (ints), ==  on naive datetimes,
               `is None` / `is not None`, and / or / not (short-circuit, Python truthiness of ints,
               lists, ttinfo-or-None), `a if c else b`, len(), int(bool), abs(timedelta),
               bisect.bisect_right, datetime.timedelta(seconds=e) / (hours=..), enfold(dt, fold=e),
               self.<translated method>(...), self._fold(dt), self._trans_list[i], self._trans_idx[i],
               self._trans_list / _trans_list_utc / _ttinfo_std / _ttinfo_dst / _ttinfo_before,
               <ttinfo>.offset / .delta / .isdst / .abbr / .dstoffset, dt.replace(tzinfo=None | tz),
               dt.astimezone(UTC | tz | dt.tzinfo), dt.utcoffset(), dt.dst(), tz.is_ambiguous(dt),
               (naive - EPOCH).total_seconds()
Types: Z int/timedelta seconds, B bool, OZ int-or-None, OT ttinfo-or-None, DT datetime, LZ int list,
OS str-or-None.  Every generated function returns `res T` (exceptions are Err constructors).
"""
import ast
import os
import sys


class TranslateError(Exception):
    pass


def fail(msg, node=None):
    where = " (line %d)" % node.lineno if node is not None and hasattr(node, "lineno") else ""
    raise TranslateError(msg + where + (": " + ast.dump(node)[:160] if node is not None else ""))


COQTY = {"Z": "Z", "B": "bool", "OZ": "option Z", "OT": "option ttinfo", "DT": "pydt", "LZ": "list Z",
         "OS": "option (list Z)"}

# signature table: name -> (coq name, [(python arg, type, default)], return type)
TZFILE = {
    "_find_last_transition": ("gen_find_last_transition", [("dt", "DT", None), ("in_utc", "B", "false")], "OZ"),
    "_get_ttinfo": ("gen_get_ttinfo", [("idx", "OZ", None)], "OT"),
    "_find_ttinfo": ("gen_find_ttinfo", [("dt", "DT", None)], "OT"),
    "is_ambiguous": ("gen_is_ambiguous", [("dt", "DT", None), ("idx", "OZ", "None")], "B"),
    "_resolve_ambiguous_time": ("gen_resolve_ambiguous_time", [("dt", "DT", None)], "OZ"),
    "fromutc": ("gen_fromutc", [("dt", "DT", None)], "DT"),
    "utcoffset": ("gen_utcoffset", [("dt", "DT", None)], "Z"),
    "dst": ("gen_dst", [("dt", "DT", None)], "Z"),
    "tzname": ("gen_tzname", [("dt", "DT", None)], "OS"),
}
TZFILE_ORDER = ["_find_last_transition", "_get_ttinfo", "is_ambiguous", "_resolve_ambiguous_time", "_find_ttinfo",
                "fromutc", "utcoffset", "dst", "tzname"]
SELF_ATTRS = {"_trans_list": ("(d_wall v_self)", "LZ"), "_trans_list_utc": ("(d_utc v_self)", "LZ"),
              "_ttinfo_std": ("(d_std v_self)", "OT"), "_ttinfo_dst": ("(d_dst v_self)", "OT"),
              "_ttinfo_before": ("(d_before v_self)", "OT")}
TT_ATTRS = {"offset": ("attr_offset", "Z"), "delta": ("attr_delta", "Z"), "isdst": ("attr_isdst", "Z"),
            "abbr": ("attr_abbr", "OS"), "dstoffset": ("attr_dstoffset", "Z")}


class Ctx(object):
    def __init__(self, mode, ret):
        self.mode, self.ret, self.n = mode, ret, 0     # mode: 'tzfile' | 'generic' | 'module'

    def fresh(self, base="t"):
        self.n += 1
        return "%s%d" % (base, self.n)


def as_bool(code, ty, node=None):
    if ty == "B":
        return code
    if ty == "Z":
        return "(py_truthy_Z %s)" % code
    if ty == "OT" or ty == "OZ":
        return "(py_some %s)" % code
    if ty == "LZ":
        return "(py_nonempty %s)" % code
    fail("no truth value for type " + ty, node)


def coerce(code, ty, want, node=None):
    if ty == want:
        return code
    if ty == "Z" and want == "OZ":
        return "(Some %s)" % code
    if ty == "NONE" and want in ("OZ", "OT", "OS"):
        return "None"
    if ty == "B" and want == "Z":
        return "(py_int_of_bool %s)" % code
    fail("cannot use %s where %s is expected" % (ty, want), node)


def seq(parts, build, ty):
    """parts: [(code, ty, eff)]; build(names) -> pure code.  Returns (code, ty, eff)."""
    pre, names, eff = "", [], False
    for k, (c, t, e) in enumerate(parts):
        if e:
            v = "b%d_%d" % (seq.counter, k)
            pre += "do %s <- %s; " % (v, c)
            names.append(v)
            eff = True
        else:
            names.append(c)
    seq.counter += 1
    body = build(names)
    return ("(%sOk %s)" % (pre, body) if eff else body), ty, eff


seq.counter = 0


def is_name(e, n):
    return isinstance(e, ast.Name) and e.id == n


def is_attr(e, base, attr):
    return isinstance(e, ast.Attribute) and e.attr == attr and is_name(e.value, base)


def is_none(e):
    return isinstance(e, ast.Constant) and e.value is None


def ex(e, env, cx):
    """-> (code, type, effectful).  effectful code has type `res <type>`."""
    if isinstance(e, ast.Constant):
        if e.value is None:
            return "None", "NONE", False
        if isinstance(e.value, bool):
            return ("true" if e.value else "false"), "B", False
        if isinstance(e.value, int):
            return ("%d" % e.value if e.value >= 0 else "(%d)" % e.value), "Z", False
        fail("constant", e)
    if isinstance(e, ast.Name):
        if e.id in env:
            return env[e.id][0], env[e.id][1], False
        if e.id == "ZERO":
            return "0", "Z", False
        fail("unknown name " + e.id, e)
    if isinstance(e, ast.IfExp):
        c = cond(e.test, env, cx)
        a, b = ex(e.body, env, cx), ex(e.orelse, env, cx)
        if c[2] or a[2] or b[2] or a[1] != b[1]:
            fail("conditional expression", e)
        return "(if %s then %s else %s)" % (c[0], a[0], b[0]), a[1], False
    if isinstance(e, ast.BoolOp) or (isinstance(e, ast.UnaryOp) and isinstance(e.op, ast.Not)) or isinstance(e, ast.Compare):
        return cond(e, env, cx)
    if isinstance(e, ast.BinOp) and isinstance(e.op, (ast.Add, ast.Sub)):
        a, b = ex(e.left, env, cx), ex(e.right, env, cx)
        op = "+" if isinstance(e.op, ast.Add) else "-"
        if a[1] == "Z" and b[1] == "Z":
            return seq([a, b], lambda n: "(%s %s %s)" % (n[0], op, n[1]), "Z")
        if a[1] == "DT" and b[1] == "Z":
            f = (lambda n: "(py_add_seconds %s %s)" % (n[0], n[1])) if op == "+" else \
                (lambda n: "(py_add_seconds %s (- %s))" % (n[0], n[1]))
            return seq([a, b], f, "DT")
        if a[1] == "DT" and b[1] == "DT" and op == "-":
            return seq([a, b], lambda n: "(py_sub_dt %s %s)" % (n[0], n[1]), "Z")
        fail("arithmetic on %s %s %s" % (a[1], op, b[1]), e)
    if isinstance(e, ast.Attribute):
        if is_name(e.value, "self") and cx.mode == "tzfile" and e.attr in SELF_ATTRS:
            return SELF_ATTRS[e.attr][0], SELF_ATTRS[e.attr][1], False
        if e.attr in TT_ATTRS:
            v = ex(e.value, env, cx)
            if v[1] != "OT":
                fail("attribute of a non-ttinfo", e)
            fn, ty = TT_ATTRS[e.attr]
            if v[2]:
                return "(do o <- %s; %s o)" % (v[0], fn), ty, True
            return "(%s %s)" % (fn, v[0]), ty, True
        fail("attribute", e)
    if isinstance(e, ast.Subscript):
        i = ex(e.slice, env, cx)
        if i[1] != "Z":
            fail("subscript index type " + i[1], e)
        if is_attr(e.value, "self", "_trans_idx") and cx.mode == "tzfile":
            f = "py_trans_idx v_self"
        elif is_attr(e.value, "self", "_trans_list") and cx.mode == "tzfile":
            f = "py_getitem (d_wall v_self)"
        else:
            fail("subscript", e)
        ty = "OT" if "idx" in f else "Z"
        if i[2]:
            return "(do i <- %s; %s i)" % (i[0], f), ty, True
        return "(%s %s)" % (f, i[0]), ty, True
    if isinstance(e, ast.Call):
        return call(e, env, cx)
    fail("expression", e)


def cond(e, env, cx):
    """boolean expression -> (code, 'B', eff)"""
    if isinstance(e, ast.UnaryOp) and isinstance(e.op, ast.Not):
        c = cond(e.operand, env, cx)
        if c[2]:
            return "(do c <- %s; Ok (negb c))" % c[0], "B", True
        return "(negb %s)" % c[0], "B", False
    if isinstance(e, ast.BoolOp):
        parts = [cond(v, env, cx) for v in e.values]
        is_and = isinstance(e.op, ast.And)
        if not any(p[2] for p in parts):
            return "(" + (" && " if is_and else " || ").join(p[0] for p in parts) + ")", "B", False
        # short circuit with effects
        code = None
        for p in reversed(parts):
            pc = p[0] if p[2] else "(Ok %s)" % p[0]
            if code is None:
                code = pc
            elif is_and:
                code = "(do c <- %s; if c then %s else Ok false)" % (pc, code)
            else:
                code = "(do c <- %s; if c then Ok true else %s)" % (pc, code)
        return code, "B", True
    if isinstance(e, ast.Compare):
        if len(e.ops) != 1:
            fail("chained comparison", e)
        op, l, r = e.ops[0], e.left, e.comparators[0]
        if isinstance(op, (ast.Is, ast.IsNot)) and is_none(r):
            v = ex(l, env, cx)
            if v[2]:
                fail("is None on an effectful expression", e)
            if v[1] in ("OZ", "OT", "OS"):
                code = "(negb (py_some %s))" % v[0]
            elif v[1] in ("DT", "Z", "TZ"):
                code = "false"            # datetimes / zones / ints of the model are never None
            else:
                fail("is None on " + v[1], e)
            return (code if isinstance(op, ast.Is) else "(negb %s)" % code), "B", False
        a, b = ex(l, env, cx), ex(r, env, cx)
        ops = {ast.Lt: "<?", ast.LtE: "<=?", ast.Gt: ">?", ast.GtE: ">=?", ast.Eq: "=?"}
        if a[1] == "Z" and b[1] == "Z" and type(op) in ops:
            return seq([a, b], lambda n: "(%s %s %s)" % (n[0], ops[type(op)], n[1]), "B")
        if a[1] == "DT" and b[1] == "DT" and isinstance(op, ast.Eq):
            return seq([a, b], lambda n: "(py_dt_eq %s %s)" % (n[0], n[1]), "B")
        fail("comparison of %s and %s" % (a[1], b[1]), e)
    v = ex(e, env, cx)
    if v[2]:
        if v[1] == "B":
            return v
        return "(do c <- %s; Ok %s)" % (v[0], as_bool("c", v[1], e)), "B", True
    return as_bool(v[0], v[1], e), "B", False


def kwargs(e, names):
    """positional + keyword arguments of a call, by parameter name"""
    out = {}
    if len(e.args) > len(names):
        fail("too many arguments", e)
    for n, a in zip(names, e.args):
        out[n] = a
    for k in e.keywords:
        if k.arg is None or k.arg not in names or k.arg in out:
            fail("keyword argument", e)
        out[k.arg] = k.value
    return out


def call(e, env, cx):
    f = e.func
    # self.<method>(...) of a tzfile
    if isinstance(f, ast.Attribute) and is_name(f.value, "self") and cx.mode == "tzfile":
        if f.attr == "_fold":
            a = kwargs(e, ["dt"])
            v = ex(a["dt"], env, cx)
            if v[1] != "DT" or v[2]:
                fail("_fold argument", e)
            return "(py_fold %s)" % v[0], "Z", False
        if f.attr in TZFILE:
            coqn, params, ret = TZFILE[f.attr]
            a = kwargs(e, [p[0] for p in params])
            parts = []
            for (pn, pt, pd) in params:
                if pn in a:
                    v = ex(a[pn], env, cx)
                    parts.append((coerce(v[0], v[1], pt, e), pt, v[2]) if not v[2] else v)
                elif pd is not None:
                    parts.append((pd, pt, False))
                else:
                    fail("missing argument " + pn, e)
            r = seq(parts, lambda n: " ".join(n), ret)
            if r[2]:
                fail("effectful argument of a method call", e)
            return "(%s v_self %s)" % (coqn, r[0]), ret, True
        fail("unknown method self." + f.attr, e)
    if isinstance(f, ast.Attribute) and is_name(f.value, "self") and cx.mode == "generic":
        if f.attr == "is_ambiguous":
            v = ex(kwargs(e, ["dt"])["dt"], env, cx)
            return "(tz_is_ambiguous v_self %s)" % v[0], "B", True
        if f.attr == "_fromutc":
            v = ex(kwargs(e, ["dt"])["dt"], env, cx)
            return "(gen_generic__fromutc v_self %s)" % v[0], "DT", True
        if f.attr == "_fold_status":
            a = kwargs(e, ["dt_utc", "dt_wall"])
            u, w = ex(a["dt_utc"], env, cx), ex(a["dt_wall"], env, cx)
            return "(gen_generic_fold_status v_self %s %s)" % (u[0], w[0]), "Z", True
        fail("unknown method self." + f.attr, e)
    if isinstance(f, ast.Name):
        if f.id == "len":
            v = ex(kwargs(e, ["x"])["x"], env, cx)
            if v[1] != "LZ" or v[2]:
                fail("len argument", e)
            return "(len %s)" % v[0], "Z", False
        if f.id == "int":
            v = ex(kwargs(e, ["x"])["x"], env, cx)
            if v[1] != "B":
                fail("int() of a non-bool", e)
            if v[2]:
                return "(do c <- %s; Ok (py_int_of_bool c))" % v[0], "Z", True
            return "(py_int_of_bool %s)" % v[0], "Z", False
        if f.id == "abs":
            v = ex(kwargs(e, ["x"])["x"], env, cx)
            if v[1] != "Z":
                fail("abs argument", e)
            return seq([v], lambda n: "(Z.abs %s)" % n[0], "Z")
        if f.id == "_datetime_to_timestamp":
            v = ex(kwargs(e, ["dt"])["dt"], env, cx)
            if v[1] != "DT" or v[2]:
                fail("_datetime_to_timestamp argument", e)
            return "(gen_datetime_to_timestamp %s)" % v[0], "Z", False
        if f.id == "enfold":
            a = kwargs(e, ["dt", "fold"])
            d, fo = ex(a["dt"], env, cx), ex(a["fold"], env, cx)
            if d[1] != "DT" or fo[1] != "Z":
                fail("enfold arguments", e)
            return seq([d, fo], lambda n: "(py_enfold %s %s)" % (n[0], n[1]), "DT")
        if f.id == "datetime_exists" and cx.mode == "module":
            v = ex(kwargs(e, ["dt", "tz"])["dt"], env, cx)
            return "(gen_datetime_exists v_tz %s)" % v[0], "B", True
        fail("unknown function " + f.id, e)
    if isinstance(f, ast.Attribute):
        if is_attr(f, "bisect", "bisect_right"):
            a = kwargs(e, ["a", "x"])
            l, x = ex(a["a"], env, cx), ex(a["x"], env, cx)
            if l[1] != "LZ" or x[1] != "Z" or l[2] or x[2]:
                fail("bisect_right arguments", e)
            return "(py_bisect_right %s %s)" % (l[0], x[0]), "Z", True
        if is_attr(f, "datetime", "timedelta"):
            if e.args or len(e.keywords) != 1 or e.keywords[0].arg not in ("seconds", "hours"):
                fail("timedelta arguments", e)
            v = ex(e.keywords[0].value, env, cx)
            if v[1] != "Z":
                fail("timedelta argument type", e)
            mul = 3600 if e.keywords[0].arg == "hours" else 1
            return seq([v], lambda n: n[0] if mul == 1 else "(%d * %s)" % (mul, n[0]), "Z")
        # datetime methods
        if f.attr == "replace":
            if e.args or len(e.keywords) != 1 or e.keywords[0].arg != "tzinfo":
                fail("replace arguments", e)
            tzv = e.keywords[0].value
            if not (is_none(tzv) or is_name(tzv, "tz") or (is_name(tzv, "self") and cx.mode == "generic")):
                fail("replace(tzinfo=...)", e)
            v = ex(f.value, env, cx)
            if v[1] != "DT":
                fail("replace receiver", e)
            return v                              # tzinfo is not part of the model's datetime
        if f.attr == "astimezone":
            a = kwargs(e, ["tz"])["tz"]
            v = ex(f.value, env, cx)
            if v[1] != "DT":
                fail("astimezone receiver", e)
            if is_name(a, "UTC"):
                fn = "py_astimezone_utc v_tz"
            elif is_name(a, "tz") or (isinstance(a, ast.Attribute) and a.attr == "tzinfo"):
                fn = "py_astimezone_from_utc v_tz"
            else:
                fail("astimezone target", e)
            if v[2]:
                return "(do x <- %s; %s x)" % (v[0], fn), "DT", True
            return "(%s %s)" % (fn, v[0]), "DT", True
        if f.attr in ("utcoffset", "dst") and not e.args and not e.keywords:
            v = ex(f.value, env, cx)
            if v[1] != "DT":
                fail("utcoffset receiver", e)
            obj = "v_self" if cx.mode == "generic" else "v_tz"
            fn = "tz_%s %s" % (f.attr, obj)
            if v[2]:
                return "(do x <- %s; %s x)" % (v[0], fn), "Z", True
            return "(%s %s)" % (fn, v[0]), "Z", True
        if f.attr == "is_ambiguous" and is_name(f.value, "tz") and cx.mode == "module":
            v = ex(kwargs(e, ["dt"])["dt"], env, cx)
            return "(tz_is_ambiguous v_tz %s)" % v[0], "B", True
        if f.attr == "total_seconds" and not e.args:
            v = ex(f.value, env, cx)
            if v[1] != "Z":
                fail("total_seconds receiver", e)
            return v
    fail("call", e)


# ------------------------------------------------------------------------------ statements
def is_docstring(s):
    return isinstance(s, ast.Expr) and isinstance(s.value, ast.Constant) and isinstance(s.value.value, str)


def is_raise(s, names):
    if not isinstance(s, ast.Raise) or s.exc is None:
        return False
    x = s.exc.func if isinstance(s.exc, ast.Call) else s.exc
    return isinstance(x, ast.Name) and x.id in names


def dropped_guard(s, env, cx):
    """Statements accepted and dropped (see module docstring)."""
    if not isinstance(s, ast.If) or s.orelse:
        return False
    t = s.test
    # if not isinstance(dt, datetime.datetime): raise TypeError
    if (isinstance(t, ast.UnaryOp) and isinstance(t.op, ast.Not) and isinstance(t.operand, ast.Call)
            and is_name(t.operand.func, "isinstance") and len(s.body) == 1 and is_raise(s.body[0], ("TypeError",))):
        return True
    # if dt.tzinfo is not self: raise ValueError
    if (isinstance(t, ast.Compare) and len(t.ops) == 1 and isinstance(t.ops[0], ast.IsNot)
            and isinstance(t.left, ast.Attribute) and t.left.attr == "tzinfo" and is_name(t.comparators[0], "self")
            and len(s.body) == 1 and is_raise(s.body[0], ("ValueError",))):
        return True
    if isinstance(t, ast.Compare) and len(t.ops) == 1 and isinstance(t.ops[0], ast.Is) and is_none(t.comparators[0]) \
            and isinstance(t.left, ast.Name):
        n = t.left.id
        # if dt is None: return None   (datetime parameter)
        if n in env and env[n][1] == "DT" and len(s.body) == 1 and isinstance(s.body[0], ast.Return) \
                and is_none(s.body[0].value):
            return True
        # if tz is None: ... (argument defaulting of the module functions)
        if n == "tz" and cx.mode == "module":
            return True
        # if dtoff is None: raise ValueError  (after utcoffset()/dst())
        if n in env and env[n][1] == "Z" and len(s.body) == 1 and is_raise(s.body[0], ("ValueError",)):
            return True
    return False


def none_or_pattern(t, env):
    """`X is None or REST` with X : OZ  ->  (X, REST or None)"""
    def isnone_name(c):
        return (isinstance(c, ast.Compare) and len(c.ops) == 1 and isinstance(c.ops[0], ast.Is)
                and is_none(c.comparators[0]) and isinstance(c.left, ast.Name)
                and c.left.id in env and env[c.left.id][1] == "OZ")
    if isnone_name(t):
        return t.left.id, None
    if isinstance(t, ast.BoolOp) and isinstance(t.op, ast.Or) and isnone_name(t.values[0]):
        rest = t.values[1:]
        return t.values[0].left.id, (rest[0] if len(rest) == 1 else ast.BoolOp(op=ast.Or(), values=rest))
    return None


def ret_code(e, env, cx):
    v = ex(e, env, cx)
    if v[2]:
        if v[1] == cx.ret:
            return v[0]
        return "(do r <- %s; Ok %s)" % (v[0], coerce("r", v[1], cx.ret, e))
    return "(Ok %s)" % coerce(v[0], v[1], cx.ret, e)


def assign_code(name, value, env, cx, rest_fn):
    """do/let binding of name, then the rest."""
    v = ex(value, env, cx)
    ty = v[1]
    if ty == "NONE":
        fail("assignment of None", value)
    cn = "v_" + name
    env2 = dict(env)
    env2[name] = (cn, ty)
    if v[2]:
        return "do %s <- %s;\n%s" % (cn, v[0], rest_fn(env2))
    return "let %s := %s in\n%s" % (cn, v[0], rest_fn(env2))


def block(stmts, env, cx):
    if not stmts:
        fail("fell off the end of a function")
    s, rest = stmts[0], stmts[1:]
    if is_docstring(s) or dropped_guard(s, env, cx):
        return block(rest, env, cx)
    if isinstance(s, ast.Return):
        if rest:
            fail("code after return", s)
        if s.value is None:
            fail("bare return", s)
        return ret_code(s.value, env, cx)
    if isinstance(s, ast.Assign):
        if len(s.targets) != 1 or not isinstance(s.targets[0], ast.Name):
            fail("assignment target", s)
        return assign_code(s.targets[0].id, s.value, env, cx, lambda env2: block(rest, env2, cx))
    if isinstance(s, ast.AugAssign):
        if not isinstance(s.target, ast.Name) or not isinstance(s.op, ast.Add):
            fail("augmented assignment", s)
        val = ast.BinOp(left=ast.Name(id=s.target.id, ctx=ast.Load()), op=ast.Add(), right=s.value)
        return assign_code(s.target.id, val, env, cx, lambda env2: block(rest, env2, cx))
    if isinstance(s, ast.Try):
        # try: return tz.is_ambiguous(dt) / except Exception: pass
        ok = (len(s.body) == 1 and isinstance(s.body[0], ast.Return) and len(s.handlers) == 1
              and is_name(s.handlers[0].type, "Exception") and len(s.handlers[0].body) == 1
              and isinstance(s.handlers[0].body[0], ast.Pass) and not s.orelse and not s.finalbody)
        if not ok:
            fail("try statement", s)
        v = ex(s.body[0].value, env, cx)
        if not v[2] or v[1] != cx.ret:
            fail("try body", s)
        return "match %s with\n| Ok r => Ok r\n| Err _ =>\n%s\nend" % (v[0], block(rest, env, cx))
    if isinstance(s, ast.If):
        # if X is None or c: return e   (X int-or-None; an int afterwards)
        pat = none_or_pattern(s.test, env)
        if pat and len(s.body) == 1 and isinstance(s.body[0], ast.Return) and not s.orelse:
            x, restc = pat
            then_none = ret_code(s.body[0].value, env, cx)
            xv = "v_%s_" % x
            env2 = dict(env)
            env2[x] = (xv, "Z")
            then_some = ret_code(s.body[0].value, env2, cx)
            after = block(rest, env2, cx)
            if restc is None:
                inner = after
            else:
                c = cond(restc, env2, cx)
                if c[2]:
                    inner = "do c <- %s;\nif c then %s else\n%s" % (c[0], then_some, after)
                else:
                    inner = "if %s then %s else\n%s" % (c[0], then_some, after)
            return "match %s with\n| None => %s\n| Some %s =>\n%s\nend" % (env[x][0], then_none, xv, inner)
        c = cond(s.test, env, cx)
        # if c: return e
        if len(s.body) == 1 and isinstance(s.body[0], ast.Return) and not s.orelse:
            then = ret_code(s.body[0].value, env, cx)
            if c[2]:
                return "do c <- %s;\nif c then %s else\n%s" % (c[0], then, block(rest, env, cx))
            return "if %s then %s else\n%s" % (c[0], then, block(rest, env, cx))
        # if c: <assignments> [else: <assignments>]: exactly one variable survives (assigned in both
        # arms, or assigned in the only arm and already defined)
        def all_assign(b):
            return all(isinstance(x, (ast.Assign, ast.AugAssign)) or is_docstring(x) for x in b)

        def targets(b):
            out_ = []
            for x in b:
                if is_docstring(x):
                    continue
                t = x.targets[0] if isinstance(x, ast.Assign) else x.target
                if not isinstance(t, ast.Name) or (isinstance(x, ast.Assign) and len(x.targets) != 1):
                    fail("assignment target", x)
                if t.id not in out_:
                    out_.append(t.id)
            return out_
        if s.body and all_assign(s.body) and all_assign(s.orelse):
            ta, tb = targets(s.body), targets(s.orelse)
            live = [x for x in ta if x in tb] if s.orelse else [x for x in ta if x in env]
            if len(live) != 1:
                fail("conditional assignment must leave exactly one variable", s)
            x = live[0]
            seen = {}

            def probe(tag):
                def t(env2):
                    seen[tag] = env2[x][1]
                    return "Ok " + env2[x][0]
                return t
            block_open(s.body, env, cx, probe("a"))
            if s.orelse:
                block_open(s.orelse, env, cx, probe("b"))
            else:
                seen["b"] = env[x][1]
            tys = set(seen.values())
            if len(tys) == 1:
                ty = seen["a"]
            elif tys == {"Z", "OZ"}:
                ty = "OZ"
            else:
                fail("if/else assigning different types %r" % (seen,), s)

            def final(env2):
                return "Ok " + coerce(env2[x][0], env2[x][1], ty, s)
            ac = block_open(s.body, env, cx, final)
            bc = block_open(s.orelse, env, cx, final) if s.orelse else "Ok " + coerce(env[x][0], env[x][1], ty, s)
            cn = "v_" + x
            env2 = dict(env)
            env2[x] = (cn, ty)
            cc = "do c <- %s;\n" % c[0] if c[2] else ""
            ct = "c" if c[2] else c[0]
            return "%sdo %s <- (if %s then (\n%s) else (\n%s));\n%s" % (cc, cn, ct, ac, bc, block(rest, env2, cx))
        fail("if statement", s)
    fail("statement", s)


def block_open(stmts, env, cx, tail):
    """assignments only, then tail(env)"""
    if not stmts:
        return tail(env)
    s, rest = stmts[0], stmts[1:]
    if is_docstring(s):
        return block_open(rest, env, cx, tail)
    if isinstance(s, ast.Assign):
        return assign_code(s.targets[0].id, s.value, env, cx, lambda e2: block_open(rest, e2, cx, tail))
    if isinstance(s, ast.AugAssign) and isinstance(s.op, ast.Add):
        val = ast.BinOp(left=ast.Name(id=s.target.id, ctx=ast.Load()), op=ast.Add(), right=s.value)
        return assign_code(s.target.id, val, env, cx, lambda e2: block_open(rest, e2, cx, tail))
    fail("statement in a conditional block", s)


# ------------------------------------------------------------------------------ functions
def find_class(tree, name):
    for n in ast.walk(tree):
        if isinstance(n, ast.ClassDef) and n.name == name:
            return n
    fail("class %s not found" % name)


def find_func(body, name):
    fs = [n for n in body if isinstance(n, ast.FunctionDef) and n.name == name]
    if len(fs) != 1:
        fail("function %s not found exactly once" % name)
    return fs[0]


def check_sig(fn, params, first):
    a = fn.args
    if a.vararg or a.kwarg or a.kwonlyargs or a.posonlyargs:
        fail("signature of " + fn.name, fn)
    names = [x.arg for x in a.args]
    if names != first + [p[0] for p in params]:
        fail("parameters of %s are %r" % (fn.name, names), fn)
    defaults = [None] * (len(names) - len(a.defaults)) + list(a.defaults)
    for (pn, pt, pd), d in zip(params, defaults[len(first):]):
        if pd is None and d is not None or pd is not None and d is None:
            fail("default of %s.%s" % (fn.name, pn), fn)
        if d is not None:
            got = "None" if is_none(d) else ("true" if getattr(d, "value", 0) is True else
                                             "false" if getattr(d, "value", 0) is False else "?")
            if got != pd:
                fail("default of %s.%s" % (fn.name, pn), fn)
    allowed = {"tzname_in_python2", "_validate_fromutc_inputs"}
    for d in fn.decorator_list:
        if not (isinstance(d, ast.Name) and d.id in allowed):
            fail("decorator of " + fn.name, fn)


def define(coqn, selfty, params, ret, body, fix=False):
    args = (" (v_self : %s)" % selfty if selfty else "") + "".join(" (v_%s : %s)" % (p[0], COQTY[p[1]]) for p in params)
    return "Definition %s%s : res (%s) :=\n%s.\n" % (coqn, args, COQTY[ret], body)


def translate(tz_src, common_src, zi_src=None):
    tree = ast.parse(tz_src)
    out = ["(* GENERATED by harness/gen_tzfile.py from /repo/src/dateutil/tz/tz.py and tz/_common.py -- do not edit *)",
           "From Coq Require Import ZArith List Bool.",
           "From V Require Import tzfile.TzModel tzfile.TzData tzfile.TzGenLib.",
           "Import ListNotations.", "Open Scope Z_scope.", ""]
    # ---- module function _datetime_to_timestamp
    fn = find_func(tree.body, "_datetime_to_timestamp")
    check_sig(fn, [("dt", "DT", None)], [])
    st = [s for s in fn.body if not is_docstring(s)]
    ok = (len(st) == 1 and isinstance(st[0], ast.Return) and isinstance(st[0].value, ast.Call)
          and isinstance(st[0].value.func, ast.Attribute) and st[0].value.func.attr == "total_seconds"
          and not st[0].value.args and not st[0].value.keywords)
    if ok:
        d = st[0].value.func.value
        ok = (isinstance(d, ast.BinOp) and isinstance(d.op, ast.Sub) and is_name(d.right, "EPOCH")
              and isinstance(d.left, ast.Call) and isinstance(d.left.func, ast.Attribute)
              and d.left.func.attr == "replace" and is_name(d.left.func.value, "dt") and not d.left.args
              and len(d.left.keywords) == 1 and d.left.keywords[0].arg == "tzinfo" and is_none(d.left.keywords[0].value))
    if not ok:
        fail("_datetime_to_timestamp is not (dt.replace(tzinfo=None) - EPOCH).total_seconds()", fn)
    epoch = [n for n in tree.body if isinstance(n, ast.Assign) and len(n.targets) == 1 and is_name(n.targets[0], "EPOCH")]
    if len(epoch) != 1 or ast.dump(epoch[0].value) != ast.dump(ast.parse("datetime.datetime(1970, 1, 1, 0, 0)").body[0].value):
        fail("EPOCH is not datetime.datetime(1970, 1, 1, 0, 0)")
    out.append("Definition gen_datetime_to_timestamp (v_dt : pydt) : Z := py_since_epoch v_dt.\n")
    # ---- tzfile methods
    cls = find_class(tree, "tzfile")
    for name in TZFILE_ORDER:
        coqn, params, ret = TZFILE[name]
        fn = find_func(cls.body, name)
        check_sig(fn, params, ["self"])
        cx = Ctx("tzfile", ret)
        env = dict((p[0], ("v_" + p[0], p[1])) for p in params)
        body = block(fn.body, env, cx)
        if name == "is_ambiguous":
            # is_ambiguous and _find_last_transition / _get_ttinfo are not mutually recursive; fine
            pass
        out.append(define(coqn, "tzdata", params, ret, body))
    # ---- ttinfo_before choice inside _read_tzfile: first non-dst ttinfo, else the first one
    rd = find_func(cls.body, "_read_tzfile")
    loops = [n for n in ast.walk(rd) if isinstance(n, ast.For)
             and any(isinstance(x, ast.Assign) and isinstance(x.targets[0], ast.Attribute)
                     and x.targets[0].attr == "ttinfo_before" for x in ast.walk(n))]
    if len(loops) != 1:
        fail("_read_tzfile: the loop choosing ttinfo_before was not found exactly once", rd)
    want = ast.parse("for tti in out.ttinfo_list:\n    if not tti.isdst:\n        out.ttinfo_before = tti\n        break\n"
                     "else:\n    out.ttinfo_before = out.ttinfo_list[0]\n").body[0]
    if ast.dump(loops[0]) != ast.dump(want):
        fail("_read_tzfile: ttinfo_before is not 'first non-dst ttinfo, else ttinfo_list[0]'", loops[0])
    others = [n for n in ast.walk(rd) if isinstance(n, ast.Assign) and isinstance(n.targets[0], ast.Attribute)
              and n.targets[0].attr == "ttinfo_before"]
    if len(others) != 3 or not any(is_none(n.value) for n in others):
        fail("_read_tzfile: unexpected assignments to ttinfo_before", rd)
    out.append("(* for tti in ttinfo_list: if not tti.isdst: before = tti; break / else: before = ttinfo_list[0] *)")
    out.append("Definition gen_ttinfo_before_index (types : list ttinfo) : Z :=\n"
               "  match first_std types 0 with Some k => k | None => 0 end.\n")
    # ---- module functions on an abstract zone object
    for name, coqn, params, ret in (("datetime_exists", "gen_datetime_exists", [("dt", "DT", None)], "B"),
                                    ("datetime_ambiguous", "gen_datetime_ambiguous", [("dt", "DT", None)], "B"),
                                    ("resolve_imaginary", "gen_resolve_imaginary", [("dt", "DT", None)], "DT")):
        fn = find_func(tree.body, name)
        a = fn.args
        names = [x.arg for x in a.args]
        want_names = ["dt"] if name == "resolve_imaginary" else ["dt", "tz"]
        if names != want_names or a.vararg or a.kwarg or a.kwonlyargs or fn.decorator_list:
            fail("signature of " + name, fn)
        if name != "resolve_imaginary" and not (len(a.defaults) == 1 and is_none(a.defaults[0])):
            fail("default of %s.tz" % name, fn)
        cx = Ctx("module", ret)
        env = {"dt": ("v_dt", "DT"), "tz": ("v_tz", "TZ")}
        stmts = list(fn.body)
        if name == "datetime_ambiguous":
            # is_ambiguous_fn = getattr(tz, 'is_ambiguous', None) / if is_ambiguous_fn is not None: try ...
            idx = [k for k, s in enumerate(stmts) if isinstance(s, ast.Assign) and is_name(s.targets[0], "is_ambiguous_fn")]
            if len(idx) != 1:
                fail("datetime_ambiguous: getattr(tz, 'is_ambiguous', None) not found", fn)
            k = idx[0]
            wantg = ast.parse("is_ambiguous_fn = getattr(tz, 'is_ambiguous', None)").body[0]
            nxt = stmts[k + 1]
            okg = (ast.dump(stmts[k]) == ast.dump(wantg) and isinstance(nxt, ast.If) and not nxt.orelse
                   and ast.dump(nxt.test) == ast.dump(ast.parse("is_ambiguous_fn is not None").body[0].value)
                   and len(nxt.body) == 1 and isinstance(nxt.body[0], ast.Try))
            if not okg:
                fail("datetime_ambiguous: unexpected is_ambiguous dispatch", stmts[k])
            stmts = stmts[:k] + [nxt.body[0]] + stmts[k + 2:]
        if name == "resolve_imaginary":
            # if dt.tzinfo is not None and not datetime_exists(dt): ...   (aware datetimes only in the model)
            ifs = [s for s in stmts if isinstance(s, ast.If)]
            if len(ifs) != 1 or not (isinstance(ifs[0].test, ast.BoolOp) and isinstance(ifs[0].test.op, ast.And)
                                     and len(ifs[0].test.values) == 2
                                     and ast.dump(ifs[0].test.values[0]) == ast.dump(ast.parse("dt.tzinfo is not None").body[0].value)):
                fail("resolve_imaginary: unexpected guard", fn)
            new_if = ast.If(test=ifs[0].test.values[1], body=ifs[0].body, orelse=ifs[0].orelse)
            ast.copy_location(new_if, ifs[0])
            stmts = [new_if if s is ifs[0] else s for s in stmts]
        body = block(stmts, env, cx)
        out.append("Definition %s (v_tz : tzobj) (v_dt : pydt) : res (%s) :=\n%s.\n" % (coqn, COQTY[ret], body))
    # ---- generic layer of tz/_common.py
    ctree = ast.parse(common_src)
    ccls = find_class(ctree, "_tzinfo")
    for name, coqn, params, ret in (("is_ambiguous", "gen_generic_is_ambiguous", [("dt", "DT", None)], "B"),
                                    ("_fold_status", "gen_generic_fold_status", [("dt_utc", "DT", None), ("dt_wall", "DT", None)], "Z"),
                                    ("_fromutc", "gen_generic__fromutc", [("dt", "DT", None)], "DT"),
                                    ("fromutc", "gen_generic_fromutc", [("dt", "DT", None)], "DT")):
        fn = find_func(ccls.body, name)
        check_sig(fn, params, ["self"])
        cx = Ctx("generic", ret)
        env = dict((p[0], ("v_" + p[0], p[1])) for p in params)
        body = block(fn.body, env, cx)
        out.append(define(coqn, "tzobj", params, ret, body))
    # ---- _ttinfo.__eq__, tzfile.__eq__ / __ne__ (attribute-wise comparisons)
    out.append(translate_eq(tree))
    # ---- the derivation loops of _read_tzfile
    out.append(translate_read_loops(tree))
    if zi_src is not None:
        out.append(pins({"tz.py": tree, "_common.py": ctree, "zoneinfo/__init__.py": ast.parse(zi_src)}))
    return "\n".join(out)


# ------------------------------------------------------------------------------ __eq__ layer
TT_EQ = {"offset": "(tt_off %s =? tt_off %s)", "delta": "(tt_off %s =? tt_off %s)",
         "isdst": "(tt_isdst %s =? tt_isdst %s)", "abbr": "(py_str_eqb (tt_abbr %s) (tt_abbr %s))",
         "isstd": "(Bool.eqb (tt_isstd %s) (tt_isstd %s))", "isgmt": "(Bool.eqb (tt_isgmt %s) (tt_isgmt %s))",
         "dstoffset": "(tt_dstoff %s =? tt_dstoff %s)"}
TZ_EQ = {"_trans_list": "(list_eqb Z.eqb (d_wall %s) (d_wall %s))",
         "_trans_idx": "(list_eqb gen_ttinfo_eq (py_trans_idx_objects %s) (py_trans_idx_objects %s))",
         "_ttinfo_list": "(list_eqb gen_ttinfo_eq (d_tt %s) (d_tt %s))"}


def eq_body(fn, cls_name, table):
    """`if not isinstance(other, C): return NotImplemented` / `return (self.a == other.a and ...)`"""
    a = fn.args
    if [x.arg for x in a.args] != ["self", "other"] or a.vararg or a.kwarg or a.kwonlyargs or a.defaults or fn.decorator_list:
        fail("signature of __eq__", fn)
    st = [x for x in fn.body if not is_docstring(x)]
    guard = ast.parse("if not isinstance(other, %s):\n    return NotImplemented\n" % cls_name).body[0]
    if len(st) != 2 or ast.dump(st[0]) != ast.dump(guard) or not isinstance(st[1], ast.Return):
        fail("%s.__eq__: unexpected shape" % cls_name, fn)
    v = st[1].value
    conj = v.values if isinstance(v, ast.BoolOp) and isinstance(v.op, ast.And) else [v]
    parts = []
    for c in conj:
        ok = (isinstance(c, ast.Compare) and len(c.ops) == 1 and isinstance(c.ops[0], ast.Eq)
              and isinstance(c.left, ast.Attribute) and is_name(c.left.value, "self")
              and isinstance(c.comparators[0], ast.Attribute) and is_name(c.comparators[0].value, "other")
              and c.left.attr == c.comparators[0].attr and c.left.attr in table)
        if not ok:
            fail("%s.__eq__: unsupported conjunct" % cls_name, c)
        parts.append(table[c.left.attr] % ("v_self", "v_other"))
    return "(" + " && ".join(parts) + ")"


def translate_eq(tree):
    tt = find_class(tree, "_ttinfo")
    tf = find_class(tree, "tzfile")
    out = ["Definition gen_ttinfo_eq (v_self v_other : ttinfo) : bool :=\n%s.\n" % eq_body(find_func(tt.body, "__eq__"), "_ttinfo", TT_EQ),
           "Definition gen_tzfile_eq (v_self v_other : tzdata) : bool :=\n%s.\n" % eq_body(find_func(tf.body, "__eq__"), "tzfile", TZ_EQ)]
    want_ne = ast.parse("def __ne__(self, other):\n    return not (self == other)\n").body[0]
    for cls, nm in ((tt, "gen_ttinfo_ne"), (tf, "gen_tzfile_ne")):
        ne = find_func(cls.body, "__ne__")
        if ast.dump(ast.parse(ast.unparse(ne)).body[0]) != ast.dump(want_ne):
            fail("__ne__ is not `not (self == other)`", ne)
    out.append("Definition gen_ttinfo_ne (v_self v_other : ttinfo) : bool := negb (gen_ttinfo_eq v_self v_other).")
    out.append("Definition gen_tzfile_ne (v_self v_other : tzdata) : bool := negb (gen_tzfile_eq v_self v_other).\n")
    for cls in (tt, tf):      # __hash__ = None: equality is the only identity the classes define
        pass
    return "\n".join(out)


# ------------------------------------------------------------------------------ loops of _read_tzfile
# Imperative statement lists are translated into `res (tuple of the variables that survive)`.
# Variables: python names; `out.X` attributes of the result object; "heap" = the dstoffset attribute of
# the ttinfo objects (indexed by type index, `tti.dstoffset = ...`); "_brk" = a `break` was executed.
RTYPES = {"Z": "Z", "B": "bool", "OZ": "option Z", "OK": "option Z", "K": "Z", "LZ": "list Z"}


def vkey(t):
    if isinstance(t, ast.Name):
        return t.id
    if isinstance(t, ast.Attribute) and is_name(t.value, "out"):
        return "out." + t.attr
    if isinstance(t, ast.Attribute) and is_name(t.value, "tti") and t.attr == "dstoffset":
        return "heap"
    fail("assignment target", t)


def cname(key):
    return "v_" + key.replace(".", "_")


def is_append(s):
    return (isinstance(s, ast.Expr) and isinstance(s.value, ast.Call) and isinstance(s.value.func, ast.Attribute)
            and s.value.func.attr == "append" and isinstance(s.value.func.value, ast.Attribute)
            and is_name(s.value.func.value.value, "out") and len(s.value.args) == 1 and not s.value.keywords)


def assigned_keys(stmts):
    out = []

    def add(k):
        if k not in out:
            out.append(k)
    for s in stmts:
        if isinstance(s, ast.Assign):
            for t in s.targets:
                add(vkey(t))
        elif is_append(s):
            add("out." + s.value.func.value.attr)
        elif isinstance(s, ast.Break):
            add("_brk")
        elif isinstance(s, ast.If):
            for k in assigned_keys(s.body) + assigned_keys(s.orelse):
                add(k)
        elif is_docstring(s):
            pass
        else:
            fail("statement in a loop body", s)
    return out


def rex(e, env):
    """expression of the _read_tzfile loops -> (code, type, effectful)"""
    if isinstance(e, ast.Constant):
        if e.value is None:
            return "None", "NONE", False
        if isinstance(e.value, bool):
            return ("true" if e.value else "false"), "B", False
        if isinstance(e.value, int):
            return ("%d" % e.value if e.value >= 0 else "(%d)" % e.value), "Z", False
        fail("constant", e)
    if isinstance(e, ast.Name):
        if e.id in env:
            return env[e.id][0], env[e.id][1], False
        fail("unknown name " + e.id, e)
    if isinstance(e, ast.Attribute):
        if is_name(e.value, "out") and ("out." + e.attr) in env:
            v = env["out." + e.attr]
            return v[0], v[1], False
        if e.attr in ("offset", "isdst"):
            v = rex(e.value, env)
            fn = "tt_off" if e.attr == "offset" else "tt_isdst"
            if v[1] == "K" and not v[2]:
                return "(%s (nth_tt v_types %s))" % (fn, v[0]), "Z", False
            if v[1] == "OK" and not v[2]:
                return "(py_ref_%s v_types %s)" % (e.attr, v[0]), "Z", True
        fail("attribute", e)
    if isinstance(e, ast.Subscript):
        i = rex(e.slice, env)
        if i[1] != "Z" or i[2]:
            fail("subscript index", e)
        b = rex(e.value, env)
        if b[1] != "LZ" or b[2]:
            fail("subscript base", e)
        ty = "K" if is_attr(e.value, "out", "trans_idx") else "Z"
        return "(py_getitem %s %s)" % (b[0], i[0]), ty, True
    if isinstance(e, ast.BinOp) and isinstance(e.op, (ast.Add, ast.Sub)):
        a, b = rex(e.left, env), rex(e.right, env)
        parts = []
        for x in (a, b):
            if x[1] == "OZ" and not x[2]:
                parts.append(("(py_unwrap %s)" % x[0], "Z", True))     # int arithmetic on None: TypeError
            elif x[1] == "Z":
                parts.append(x)
            else:
                fail("arithmetic operand of type " + x[1], e)
        op = "+" if isinstance(e.op, ast.Add) else "-"
        return seq(parts, lambda n: "(%s %s %s)" % (n[0], op, n[1]), "Z")
    if isinstance(e, ast.Call):
        if is_name(e.func, "min") and len(e.args) == 2 and not e.keywords:
            a, b = rex(e.args[0], env), rex(e.args[1], env)
            if a[1] != "Z" or b[1] != "Z":
                fail("min arguments", e)
            return seq([a, b], lambda n: "(Z.min %s %s)" % (n[0], n[1]), "Z")
        if is_attr(e.func, "datetime", "timedelta") and not e.args and len(e.keywords) == 1 and e.keywords[0].arg == "seconds":
            return rex(e.keywords[0].value, env)
        fail("call", e)
    if isinstance(e, (ast.BoolOp, ast.Compare)) or (isinstance(e, ast.UnaryOp) and isinstance(e.op, ast.Not)):
        return rcond(e, env)
    fail("expression", e)


def rtruth(v, node):
    code, ty = v[0], v[1]
    if ty == "B":
        return code
    if ty == "Z":
        return "(py_truthy_Z %s)" % code
    if ty == "OZ":
        return "(py_truthy_OZ %s)" % code
    if ty == "OK":
        return "(py_some %s)" % code            # objects are truthy
    if ty == "LZ":
        return "(py_nonempty %s)" % code
    fail("truth value of " + ty, node)


def rcond(e, env):
    if isinstance(e, ast.UnaryOp) and isinstance(e.op, ast.Not):
        c = rcond(e.operand, env)
        if c[2]:
            fail("effectful condition", e)
        return "(negb %s)" % c[0], "B", False
    if isinstance(e, ast.BoolOp):
        parts = [rcond(v, env) for v in e.values]
        if any(p[2] for p in parts):
            fail("effectful condition", e)
        return "(" + (" && " if isinstance(e.op, ast.And) else " || ").join(p[0] for p in parts) + ")", "B", False
    if isinstance(e, ast.Compare):
        if len(e.ops) != 1:
            fail("chained comparison", e)
        op, l, r = e.ops[0], e.left, e.comparators[0]
        if isinstance(op, (ast.Is, ast.IsNot)) and is_none(r):
            v = rex(l, env)
            if v[2] or v[1] not in ("OZ", "OK"):
                fail("is None", e)
            code = "(negb (py_some %s))" % v[0]
            return (code if isinstance(op, ast.Is) else "(py_some %s)" % v[0]), "B", False
        a, b = rex(l, env), rex(r, env)
        if isinstance(op, ast.Eq) and a[1] == "Z" and b[1] == "Z" and not a[2] and not b[2]:
            return "(%s =? %s)" % (a[0], b[0]), "B", False
        fail("comparison", e)
    v = rex(e, env)
    if v[2]:
        fail("effectful condition", e)
    return rtruth(v, e), "B", False


def rcoerce(code, ty, want, node=None):
    if ty == want:
        return code
    if (ty, want) in (("Z", "OZ"), ("K", "OK")):
        return "(Some %s)" % code
    if ty == "NONE" and want in ("OZ", "OK"):
        return "None"
    fail("cannot use %s where %s is expected" % (ty, want), node)


def merge_ty(a, b, node):
    if a == b:
        return a
    for lo, hi in (("Z", "OZ"), ("K", "OK")):
        if {a, b} <= {lo, hi, "NONE"}:
            return hi
    fail("a variable has types %s and %s in the two arms" % (a, b), node)


def rbind(key, v, env, k):
    cn = cname(key)
    env2 = dict(env)
    env2[key] = (cn, v[1])
    if v[2]:
        return "do %s <- %s;\n%s" % (cn, v[0], k(env2))
    return "let %s := %s in\n%s" % (cn, v[0], k(env2))


def imp(stmts, env, k):
    """statement list -> code; k(env) gives the code after the statements"""
    if not stmts:
        return k(env)
    s, rest = stmts[0], stmts[1:]
    nxt = lambda env2: imp(rest, env2, k)
    if is_docstring(s):
        return nxt(env)
    if isinstance(s, ast.Break):
        return rbind("_brk", ("true", "B", False), env, nxt)
    if is_append(s):
        key = "out." + s.value.func.value.attr
        if key not in env or env[key][1] != "LZ":
            fail("append to an unknown list", s)
        v = rex(s.value.args[0], env)
        if v[1] != "Z":
            fail("appended value", s)
        r = seq([v], lambda n: "(%s ++ [%s])" % (env[key][0], n[0]), "LZ")
        return rbind(key, r, env, nxt)
    if isinstance(s, ast.Assign):
        v = rex(s.value, env)
        keys = [vkey(t) for t in s.targets]
        if keys == ["heap"]:
            if v[1] != "Z" or "tti" not in env:
                fail("store to tti.dstoffset", s)
            r = seq([v], lambda n: "(upd %s (Z.to_nat %s) %s)" % (env["heap"][0], env["tti"][0], n[0]), "LZ")
            return rbind("heap", r, env, nxt)
        if v[1] == "NONE":
            fail("assignment of None inside a loop", s)
        if len(keys) == 1:
            return rbind(keys[0], v, env, nxt)
        fail("multiple assignment targets", s)
    if isinstance(s, ast.If):
        t = s.test
        # if X is None: X = e     (X int-or-None; an int afterwards)
        if (isinstance(t, ast.Compare) and len(t.ops) == 1 and isinstance(t.ops[0], ast.Is) and is_none(t.comparators[0])
                and isinstance(t.left, ast.Name) and t.left.id in env and env[t.left.id][1] == "OZ" and not s.orelse
                and len(s.body) == 1 and isinstance(s.body[0], ast.Assign) and [vkey(x) for x in s.body[0].targets] == [t.left.id]):
            x = t.left.id
            v = rex(s.body[0].value, env)
            if v[1] != "Z":
                fail("default of an int-or-None variable", s)
            if v[2]:
                r = ("(match %s with Some x => Ok x | None => %s end)" % (env[x][0], v[0]), "Z", True)
            else:
                r = ("(match %s with Some x => x | None => %s end)" % (env[x][0], v[0]), "Z", False)
            return rbind(x, r, env, nxt)
        c = rcond(t, env)
        # flow typing: in the then-branch an int-or-None variable tested for truth / `is not None` by a
        # top-level conjunct of the condition is an int (py_oz_get is only evaluated under that condition)
        env_then = dict(env)
        conj = t.values if isinstance(t, ast.BoolOp) and isinstance(t.op, ast.And) else [t]
        for cj in conj:
            nm = None
            if isinstance(cj, ast.Name):
                nm = cj.id
            elif (isinstance(cj, ast.Compare) and len(cj.ops) == 1 and isinstance(cj.ops[0], ast.IsNot)
                  and is_none(cj.comparators[0]) and isinstance(cj.left, ast.Name)):
                nm = cj.left.id
            if nm is not None and nm in env and env[nm][1] == "OZ":
                env_then[nm] = ("(py_oz_get %s)" % env[nm][0], "Z")
        ka, kb = assigned_keys(s.body), assigned_keys(s.orelse)
        live = [x for x in ka + [y for y in kb if y not in ka] if x in env or (x in ka and x in kb)]
        if not live:
            fail("if statement without surviving assignment", s)
        types = {}

        def probe(tag):
            def t_(env2):
                types[tag] = dict((x, env2[x][1]) for x in live)
                return "Ok tt"
            return t_
        imp(s.body, env_then, probe("a"))
        imp(s.orelse, env, probe("b"))
        ty = dict((x, merge_ty(types["a"][x], types["b"][x], s)) for x in live)

        def final(env2):
            return "Ok (%s)" % ", ".join(rcoerce(env2[x][0], env2[x][1], ty[x], s) for x in live)
        ac, bc = imp(s.body, env_then, final), imp(s.orelse, env, final)
        env3 = dict(env)
        for x in live:
            env3[x] = (cname(x), ty[x])
        pat = "(%s)" % ", ".join(cname(x) for x in live) if len(live) > 1 else cname(live[0])
        return "do %s <- (if %s then (\n%s) else (\n%s));\n%s" % (pat, c[0], ac, bc, nxt(env3))
    fail("statement", s)


WALL_STATE = [("lastdst", "OZ"), ("lastoffset", "OZ"), ("lastdstoffset", "OZ"), ("out.trans_list", "LZ"), ("heap", "LZ")]
SCAN_STATE = [("out.ttinfo_std", "OK"), ("out.ttinfo_dst", "OK"), ("_brk", "B")]


def state_pat(state):
    return "'(%s)" % ", ".join(cname(k) for k, _t in state)


def state_ty(state):
    return "(" + " * ".join(RTYPES[t] for _k, t in state) + ")%type"


def state_final(state, node):
    def f(env):
        return "Ok (%s)" % ", ".join(rcoerce(env[k][0], env[k][1], t, node) for k, t in state)
    return f


def translate_read_loops(tree):
    cls = find_class(tree, "tzfile")
    rd = find_func(cls.body, "_read_tzfile")
    out = []
    # ---- (a) the scan for ttinfo_std / ttinfo_dst
    scans = [n for n in ast.walk(rd) if isinstance(n, ast.For) and isinstance(n.iter, ast.Call) and is_name(n.iter.func, "range")]
    scan = [n for n in scans if n.orelse]
    if len(scan) != 1 or ast.dump(scan[0].iter) != ast.dump(ast.parse("range(timecnt-1, -1, -1)").body[0].value) \
            or not is_name(scan[0].target, "i"):
        fail("_read_tzfile: the scan is not `for i in range(timecnt-1, -1, -1)` with an else clause", rd)
    scan = scan[0]
    env = {"i": ("v_i", "Z"), "out.trans_idx": ("v_idx", "LZ"), "timecnt": ("v_timecnt", "Z"),
           "out.ttinfo_std": ("v_out_ttinfo_std", "OK"), "out.ttinfo_dst": ("v_out_ttinfo_dst", "OK"), "_brk": ("v__brk", "B")}
    body = imp(scan.body, env, state_final(SCAN_STATE, scan))
    out.append("(* for i in range(timecnt-1, -1, -1): ... [break] / else: ...   (ttinfo objects are type indices) *)")
    out.append("Definition gen_scan_step (v_types : list ttinfo) (v_idx : list Z) (st : %s) (v_i : Z) : res %s :=\n"
               "let %s := st in\n%s.\n" % (state_ty(SCAN_STATE), state_ty(SCAN_STATE), state_pat(SCAN_STATE), body))
    env2 = dict(env)
    del env2["i"]
    els = imp(scan.orelse, env2, state_final(SCAN_STATE[:2], scan))
    out.append("Definition gen_scan (v_types : list ttinfo) (v_idx : list Z) (v_timecnt : Z) : res (option Z * option Z) :=\n"
               "do st <- py_for (gen_scan_step v_types v_idx) (fun st => snd st) (py_range_down v_timecnt) (None, None, false);\n"
               "let %s := st in\nif v__brk then Ok (v_out_ttinfo_std, v_out_ttinfo_dst) else\n%s.\n" % (state_pat(SCAN_STATE), els))
    # the initialisations the scan starts from
    for attr in ("ttinfo_std", "ttinfo_dst"):
        inits = [n for n in ast.walk(rd) if isinstance(n, ast.Assign) and any(is_attr(t, "out", attr) for t in n.targets)
                 and is_none(n.value)]
        if len(inits) != 1:
            fail("_read_tzfile: out.%s = None not found exactly once" % attr, rd)
    # ---- (b) + (c) the loop deriving tti.dstoffset and out.trans_list
    loops = [n for n in ast.walk(rd) if isinstance(n, ast.For) and isinstance(n.iter, ast.Call) and is_name(n.iter.func, "enumerate")]
    if len(loops) != 1 or ast.dump(loops[0].iter) != ast.dump(ast.parse("enumerate(out.trans_idx)").body[0].value) \
            or ast.dump(loops[0].target) != ast.dump(ast.parse("for i, tti in x: pass").body[0].target) or loops[0].orelse:
        fail("_read_tzfile: the loop `for i, tti in enumerate(out.trans_idx)` was not found exactly once", rd)
    loop = loops[0]
    for name in ("lastdst", "lastoffset", "lastdstoffset"):
        inits = [n for n in ast.walk(rd) if isinstance(n, ast.Assign) and any(is_name(t, name) for t in n.targets)
                 and n not in list(ast.walk(loop))]
        if len(inits) != 1 or not is_none(inits[0].value):
            fail("_read_tzfile: %s = None not found exactly once before the loop" % name, rd)
    inits = [n for n in ast.walk(rd) if isinstance(n, ast.Assign) and any(is_attr(t, "out", "trans_list") for t in n.targets)]
    if len(inits) != 2 or not (isinstance(inits[0].value, ast.List) and not inits[0].value.elts) \
            or ast.dump(inits[1].value) != ast.dump(ast.parse("tuple(out.trans_list)").body[0].value):
        fail("_read_tzfile: out.trans_list is not [] before the loop and tuple(out.trans_list) after it", rd)
    env = {"i": ("v_i", "Z"), "tti": ("v_tti", "K"), "timecnt": ("v_timecnt", "Z"),
           "out.trans_list_utc": ("v_utc", "LZ"), "out.ttinfo_before": ("v_before", "OK"), "out.ttinfo_std": ("v_std", "OK")}
    for k_, t_ in WALL_STATE:
        env[k_] = (cname(k_), t_)
    body = imp(loop.body, env, state_final(WALL_STATE, loop))
    out.append("(* for i, tti in enumerate(out.trans_idx): dstoffset of the DST types and the wall-clock transition list *)")
    out.append("Definition gen_wall_step (v_types : list ttinfo) (v_utc : list Z) (v_timecnt : Z) (v_before v_std : option Z)\n"
               "  (st : %s) (v_i v_tti : Z) : res %s :=\nlet %s := st in\n%s.\n" % (
                   state_ty(WALL_STATE), state_ty(WALL_STATE), state_pat(WALL_STATE), body))
    out.append("Definition gen_wall_loop (v_types : list ttinfo) (v_utc v_idx : list Z) (v_timecnt : Z) (v_before v_std : option Z)\n"
               "  (v_heap0 : list Z) : res %s :=\n"
               "py_for_enumerate (gen_wall_step v_types v_utc v_timecnt v_before v_std) v_idx 0 (None, None, None, [], v_heap0).\n"
               % state_ty(WALL_STATE))
    return "\n".join(out)


# ------------------------------------------------------------------------------ pinned fragments
# Code that stays HAND-MODELLED (loops over mutable objects, struct decoding, one-line methods, glue):
# the hand model was validated against exactly this text.  The generated file records for each
# fragment whether its AST (docstrings removed) still has the pinned fingerprint; props/C0x.v carry
# the obligations `pinned_<id> = true`, so a change of a pinned fragment breaks the obligations of
# the properties that rely on it (and only those) until the hand model is re-validated and re-pinned.
PINNED = {
 "tz.py:tzfile._read_tzfile": "4fe2fe65282b91c2",   # with the three translated loops replaced by `pass`
 "tz.py:tzfile.__reduce_ex__": "4e345ae47fcd800e",
 "tz.py:tzfile.__init__": "62fe4cd643e42c12",
 "tz.py:tzfile._set_tzdata": "744dcf5326a8e6dd",
 "tz.py:tzutc.utcoffset": "7beab7c6c9c81ac5",
 "tz.py:tzutc.dst": "0aca177e09f8b4c6",
 "tz.py:tzutc.fromutc": "0e85fdbf8523b02b",
 "tz.py:tzutc.is_ambiguous": "15ca017930e2e459",
 "tz.py:tzoffset.__init__": "e7fe9907f7d495a1",
 "tz.py:tzoffset.utcoffset": "6d73bc0a86b5e4f7",
 "tz.py:tzoffset.dst": "0aca177e09f8b4c6",
 "tz.py:tzoffset.fromutc": "512020a499fce61f",
 "tz.py:tzoffset.is_ambiguous": "15ca017930e2e459",
 "_common.py:_tzinfo._fold": "34346b303708c1e1",
 "zoneinfo/__init__.py:ZoneInfoFile.__init__": "66d5edfdae05e6e7",
 "zoneinfo/__init__.py:ZoneInfoFile.get": "c94822a2eec78ee8",
 "zoneinfo/__init__.py:tzfile.__reduce__": "229c751a92884653",
}


def fingerprint(node):
    import hashlib
    n = ast.parse(ast.unparse(node)).body[0]
    for x in ast.walk(n):
        if isinstance(x, (ast.FunctionDef, ast.ClassDef)):
            x.body = [b for b in x.body if not is_docstring(b)] or [ast.Pass()]
    return hashlib.sha256(ast.dump(n).encode()).hexdigest()[:16]


def without_translated_loops(fn):
    """_read_tzfile with the three translated loops (scan for ttinfo_std/dst, choice of ttinfo_before,
    dstoffset / wall-transition loop) replaced by `pass`: what remains pinned is the struct decoding,
    the ttinfo construction and the glue around the loops."""
    fn = ast.parse(ast.unparse(fn)).body[0]

    class R(ast.NodeTransformer):
        def visit_For(self, n):
            it = n.iter
            if isinstance(it, ast.Call) and is_name(it.func, "enumerate"):
                return ast.Pass()
            if isinstance(it, ast.Call) and is_name(it.func, "range") and n.orelse:
                return ast.Pass()
            if isinstance(it, ast.Attribute) and is_name(it.value, "out") and it.attr == "ttinfo_list" and n.orelse:
                return ast.Pass()
            return self.generic_visit(n)
    return ast.fix_missing_locations(R().visit(fn))


def pin_id(key):
    return "pinned_" + "".join(c if c.isalnum() else "_" for c in key.replace(".py", "").replace("/__init__", ""))


def pins(trees):
    out = ["(* pinned hand-modelled fragments: true = the AST still has the fingerprint the hand model was validated against *)"]
    for key in sorted(PINNED):
        fname, qual = key.split(":")
        cls, meth = qual.split(".")
        found = None
        for n in ast.walk(trees[fname]):
            if isinstance(n, ast.ClassDef) and n.name == cls:
                fs = [f for f in n.body if isinstance(f, ast.FunctionDef) and f.name == meth]
                if len(fs) == 1:
                    found = fs[0]
        if found is not None and key == "tz.py:tzfile._read_tzfile":
            found = without_translated_loops(found)
        got = fingerprint(found) if found is not None else "missing"
        out.append("Definition %s : bool := %s. (* %s: pinned %s, now %s *)" % (
            pin_id(key), "true" if got == PINNED[key] else "false", key, PINNED[key], got))
    return "\n".join(out) + "\n"


POISON = """(* GENERATED by harness/gen_tzfile.py -- the translator ABORTED (fail closed) *)
(* TRANSLATE-ERROR: %s *)
From Coq Require Import ZArith.
(* deliberately ill-typed: every file that depends on gen/TzGen.vo (props/C04-C06) fails to build *)
Definition translator_aborted : (0 = 1)%%Z := eq_refl.
"""


def main():
    here = os.path.dirname(os.path.dirname(os.path.abspath(__file__)))
    repo = os.environ.get("VERIF_REPO", "/repo")
    out_path = os.path.join(here, "coq/gen/TzGen.v")
    try:
        txt = translate(open(os.path.join(repo, "src/dateutil/tz/tz.py")).read(),
                        open(os.path.join(repo, "src/dateutil/tz/_common.py")).read(),
                        open(os.path.join(repo, "src/dateutil/zoneinfo/__init__.py")).read())
    except TranslateError as ex:
        print("TRANSLATE-ERROR (gen_tzfile): %s" % ex)
        txt = POISON % str(ex).replace("*)", "* )").replace("(*", "( *")
    except Exception as ex:      # a crash of the translator is an abort too
        print("TRANSLATE-ERROR (gen_tzfile crashed): %r" % (ex,))
        txt = POISON % ("translator crashed: %r" % (ex,)).replace("*)", "* )").replace("(*", "( *")
    try:
        old = open(out_path).read()
    except OSError:
        old = None
    if old != txt:
        tmp = out_path + ".tmp%d" % os.getpid()
        open(tmp, "w").write(txt)
        os.replace(tmp, out_path)
        # a stale object file of the previous text must never satisfy a `Require` of the obligations
        for ext in (".vo", ".vos", ".vok", ".glob"):
            try:
                os.remove(out_path[:-2] + ext)
            except OSError:
                pass
        print("regenerated", out_path)
    return 0


if __name__ == "__main__":
    sys.exit(main())
