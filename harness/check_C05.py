#!/usr/bin/env python3
"""C05 -- tzfile area; see harness/tzfile_driver.py (shared driver) and notes/tzfile.md."""
import os
import sys

sys.path.insert(0, os.path.dirname(os.path.abspath(__file__)))
import common as C

C.reexec_under_impl_python()
import tzfile_driver

if __name__ == "__main__":
    sys.exit(tzfile_driver.main("C05"))
