"""Shared pieces of the C08 / C17 checks: rule generator, encodings for oracle_posix,
implementation observers, VTIMEZONE text generation."""
import datetime as _dt
import os
import time

DAY = 86400
EPOCH_ORD = 719163          # date(1970,1,1).toordinal()

# oracle entries (coq/extract/ExtractPosix.v)
E_TZSTR_ZONE, E_TZSTR_UTC, E_TZSTR_WALL = 10, 11, 12
E_TZRANGE_ZONE, E_TZRANGE_UTC, E_TZRANGE_WALL = 13, 14, 15
E_PARSE, E_TRANS = 16, 17
E_SPEC_UTC, E_SPEC_WALL, E_RENDER, E_GUARDS, E_EVENTS, E_LOCAL_WALL, E_SPEC_FOLD = 20, 21, 22, 23, 24, 25, 26
E_LOCAL_UTC, E_LOCAL_INIT = 27, 28
E_ICAL_UTC, E_ICAL_WALL, E_ICAL_CACHED, E_ICAL_PARSE, E_ICAL_OFFSET, E_ICAL_GET, E_ICAL_CONC = 30, 31, 32, 33, 34, 35, 36

ERR = {1: "ValueError", 2: "TypeError", 3: "IndexError", 9: "OutOfFuel"}


def secs_of(dt):
    return dt.toordinal() * DAY + dt.hour * 3600 + dt.minute * 60 + dt.second


def dt_of(s):
    return _dt.datetime.fromordinal(s // DAY) + _dt.timedelta(seconds=s % DAY)


def ystart(y):
    return _dt.date(y, 1, 1).toordinal() * DAY


def exc_code(ex):
    if isinstance(ex, ValueError):
        return 1
    if isinstance(ex, TypeError):
        return 2
    if isinstance(ex, IndexError):
        return 3
    return "EXC:" + type(ex).__name__


def estr(s):
    return [len(s)] + [ord(c) for c in s]


def eostr(s):
    return [-1] if s is None else estr(s)


def eoz(v):
    return [0] if v is None else [1, int(v)]


# ------------------------------------------------------------------------------------------
# rule AST (python mirror of PosixSpec.posix): dict(name, off, dst=None|dict(name, off, start, end))
# a rule date is ('J', n) | ('N', n) | ('M', m, w, d); a rule = (date, time_seconds)

def enc_date(d):
    if d[0] == 'J':
        return [0, d[1], 0, 0]
    if d[0] == 'N':
        return [1, d[1], 0, 0]
    return [2, d[1], d[2], d[3]]


def enc_posix(r):
    out = [r["off"]] + estr(r["name"])
    if r["dst"] is None:
        return out + [0]
    ds = r["dst"]
    return (out + [1] + estr(ds["name"]) + [ds["off"]] + enc_date(ds["start"][0]) + [ds["start"][1]] +
            enc_date(ds["end"][0]) + [ds["end"][1]])


def hms(t):
    h, m, s = t // 3600, (t // 60) % 60, t % 60
    if s:
        return "%d:%02d:%02d" % (h, m, s)
    if m or h >= 100:
        return "%d:%02d" % (h, m)
    return "%d" % h


def date_text(d):
    if d[0] == 'J':
        return "J%d" % d[1]
    if d[0] == 'N':
        return "%d" % d[1]
    return "M%d.%d.%d" % (d[1], d[2], d[3])


def render_variant(r, rng):
    """A TZ string for r with syntactic variation the canonical renderer does not use:
    explicit '+', two-digit hours, hhmm offsets, omitted default dst offset, omitted /time when 2:00."""
    def off(east, allow_omit=False):
        v = -east
        sign = "-" if v < 0 else rng.choice(["", "", "+"])
        a = abs(v)
        h, m = a // 3600, (a // 60) % 60
        k = rng.randrange(4)
        if m == 0 and k == 0:
            body = "%02d" % h
        elif k == 1 and h < 100:
            body = "%02d%02d" % (h, m)
        elif k == 2:
            body = "%d:%02d" % (h, m)
        else:
            body = hms(a)
        return sign + body

    def rule(x):
        d, t = x
        if t == 7200 and rng.random() < 0.5:
            return date_text(d)
        if t % 3600 == 0 and t < 100 * 3600 and rng.random() < 0.3:
            return date_text(d) + "/%02d" % (t // 3600)
        if t % 60 == 0 and t < 100 * 3600 and rng.random() < 0.2:
            return date_text(d) + "/%02d%02d" % (t // 3600, (t // 60) % 60)
        return date_text(d) + "/" + hms(t)

    s = r["name"] + off(r["off"])
    ds = r["dst"]
    if ds is not None:
        s += ds["name"]
        if not (ds["off"] == r["off"] + 3600 and rng.random() < 0.5):
            s += off(ds["off"])
        s += "," + rule(ds["start"]) + "," + rule(ds["end"])
    return s


NAMES_STD = ["EST", "CET", "AEST", "NZST", "XYZ", "WART", "abc", "PST", "IST", "GMT", "UTC", "Foo"]
NAMES_DST = ["EDT", "CEST", "AEDT", "NZDT", "XYD", "WARST", "abd", "PDT", "IDT", "BST", "Bar"]


def gen_date(rng, month_lo, month_hi):
    k = rng.random()
    if k < 0.6:
        m = rng.randint(month_lo, month_hi)
        w = rng.choice([1, 2, 3, 4, 5, 5, 1])
        d = rng.randrange(7)
        return ('M', m, w, d)
    lo = _dt.date(2001, month_lo, 1).timetuple().tm_yday
    hi = _dt.date(2001, month_hi, 28).timetuple().tm_yday
    n = rng.choice([rng.randint(lo, hi), 59, 60, 61, lo, hi]) if month_lo <= 3 else rng.randint(lo, hi)
    n = max(lo, min(hi, n))
    if k < 0.8:
        return ('J', n)
    return ('N', n - 1 if rng.random() < 0.5 else n)


TIMES = [0, 3600, 7200, 7200, 7200, 10800, 1800, 5400, 9000, 86400, 90000, 79200, 84600, 9015, 1,
         3599, 93600, 26 * 3600, 47 * 3600, 100 * 3600, 167 * 3600 + 59 * 60 + 59, 45 * 60,
         7200, 10800, 14400, 3600, 7200, 12600, 18000, 36000, 43200, 7200]


def gen_rule(rng, std_only_p=0.08):
    name = rng.choice(NAMES_STD)
    off = rng.choice([0, 3600, -3600, -18000, 36000, 19800, 20700, -12600, 43200, -39600, 46800,
                      12 * 3600 + 45 * 60, -9 * 3600 - 30 * 60, 50400, -43200, 60, -60, 79140, -86340])
    if rng.random() < std_only_p:
        return {"name": name, "off": off, "dst": None}
    saving = rng.choice([3600, 3600, 3600, 1800, 7200, 1200, 5400, 3600, 3600, -3600, -1800, 3600, 0])
    if not (-86400 < off + saving < 86400):
        saving = 3600 if off < 0 else -3600
    k = rng.random()
    if k < 0.40:        # northern
        s = gen_date(rng, 2, 5)
        e = gen_date(rng, 8, 11)
    elif k < 0.80:      # southern
        e = gen_date(rng, 2, 5)
        s = gen_date(rng, 8, 11)
    elif k < 0.90:      # daylight window between the January and the July sample of CPython's time module
        s = gen_date(rng, 2, 3)
        e = gen_date(rng, 5, 6)
    else:               # daylight window containing both samples (standard time only in autumn)
        s = gen_date(rng, 11, 11)
        e = gen_date(rng, 8, 9)
    ts = rng.choice(TIMES)
    te = rng.choice(TIMES)
    return {"name": name, "off": off,
            "dst": {"name": rng.choice(NAMES_DST), "off": off + saving, "start": (s, ts), "end": (e, te)}}


# ------------------------------------------------------------------------------------------
# tzrange arguments equivalent to a rule (the documented recipe: weekday rule + hours in
# STANDARD time for both start and end)

def rd_kwargs(date, secs, rng=None):
    kw = {}
    if date[0] == 'M':
        _, m, w, d = date
        kw["month"] = m
        if w == 5:
            kw["day"] = 31
            kw["weekday"] = ((d - 1) % 7, -1)
        else:
            kw["day"] = 1
            kw["weekday"] = ((d - 1) % 7, w)
    elif date[0] == 'J':
        kw["nlyearday"] = date[1]
    else:
        kw["yearday"] = date[1] + 1
    style = rng.randrange(3) if rng is not None else 0
    if style == 0:
        kw["seconds"] = secs
    elif style == 1:
        sg = -1 if secs < 0 else 1
        a = abs(secs)
        kw["hours"], kw["minutes"], kw["seconds"] = sg * (a // 3600), sg * ((a // 60) % 60), sg * (a % 60)
    else:
        sg = -1 if secs < 0 else 1
        a = abs(secs)
        kw["days"], kw["seconds"] = sg * (a // DAY), sg * (a % DAY)
    return kw


def enc_darg(kw):
    if kw is None:
        return [0]
    if kw is False:
        return [1]
    wd = kw.get("weekday")
    return ([2, kw.get("days", 0), kw.get("hours", 0), kw.get("minutes", 0), kw.get("seconds", 0)] +
            eoz(kw.get("month")) + eoz(kw.get("day")) +
            ([0] if wd is None else [1, wd[0], wd[1]]) + eoz(kw.get("yearday")) + eoz(kw.get("nlyearday")))


def make_rd(kw):
    from dateutil import relativedelta as R
    if kw is None or kw is False:
        return kw
    kw = dict(kw)
    if "weekday" in kw:
        wd, n = kw["weekday"]
        kw["weekday"] = R.weekday(wd, n)
    return R.relativedelta(**kw)


def tzrange_args(r, rng):
    ds = r["dst"]
    if ds is None:
        return (r["name"], r["off"], None, None, None, None)
    sk = rd_kwargs(ds["start"][0], ds["start"][1], rng)
    ek = rd_kwargs(ds["end"][0], ds["end"][1] - (ds["off"] - r["off"]), rng)
    dstoff = ds["off"]
    if ds["off"] == r["off"] + 3600 and rng.random() < 0.3:
        dstoff = None
    return (r["name"], r["off"], ds["name"], dstoff, sk, ek)


def enc_tzrange_args(a):
    sa, so, da, do, sk, ek = a
    return eostr(sa) + eoz(so) + eostr(da) + eoz(do) + enc_darg(sk) + enc_darg(ek)


# ------------------------------------------------------------------------------------------
# implementation observers

def impl_obs_utc(z, u):
    from dateutil import tz
    try:
        d = dt_of(u).replace(tzinfo=tz.UTC).astimezone(z)
        off, dst, nm = d.utcoffset(), d.dst(), d.tzname()
        return [0, secs_of(d), d.fold, int(off.total_seconds()), int(dst.total_seconds()), nm]
    except Exception as ex:
        return [exc_code(ex)]


def impl_obs_wall(z, w, f):
    try:
        d = dt_of(w).replace(tzinfo=z, fold=f)
        off, dst, nm = d.utcoffset(), d.dst(), d.tzname()
        return [0, int(off.total_seconds()), int(dst.total_seconds()), nm]
    except Exception as ex:
        return [exc_code(ex)]


def read_name(v, i):
    n = v[i]
    if n < 0:
        return None, i + 1
    return "".join(chr(c) for c in v[i + 1:i + 1 + n]), i + 1 + n


def dec_utc_batch(v, k):
    """decode model answer of E_*_UTC -> list of k records like impl_obs_utc"""
    if not isinstance(v, list):
        return [["ORACLE", v]] * k
    if v[0] != 0:
        return [[v[0]]] * k
    out, i = [], 1
    for _ in range(k):
        if v[i] != 0:
            out.append([v[i]])
            i += 1
            continue
        nm, j = read_name(v, i + 5)
        out.append([0, v[i + 1], v[i + 2], v[i + 3], v[i + 4], nm])
        i = j
    return out


def dec_wall_batch(v, k, zone_status=True):
    if not isinstance(v, list):
        return [["ORACLE", v]] * k
    i = 0
    if zone_status:
        if v[0] != 0:
            return [[v[0]]] * k
        i = 1
    out = []
    for _ in range(k):
        if v[i] != 0:
            out.append([v[i]])
            i += 1
            continue
        nm, j = read_name(v, i + 3)
        out.append([0, v[i + 1], v[i + 2], nm])
        i = j
    return out


def dec_ical_utc(v, k):
    if not isinstance(v, list):
        return [["ORACLE", v]] * k
    out, i = [], 0
    for _ in range(k):
        if v[i] != 0:
            out.append([v[i]])
            i += 1
            continue
        nm, j = read_name(v, i + 5)
        out.append([0, v[i + 1], v[i + 2], v[i + 3], v[i + 4], nm])
        i = j
    return out


def dec_spec_utc(v, k):
    out, i = [], 0
    for _ in range(k):
        nm, j = read_name(v, i + 2)
        out.append([v[i], v[i + 1], nm])
        i = j
    return out


# ------------------------------------------------------------------------------------------
# TZ environment

class tz_env(object):
    """with tz_env('EST5EDT,...'): time.tzset() done; restored afterwards"""

    def __init__(self, s):
        self.s = s

    def __enter__(self):
        self.old = os.environ.get("TZ")
        os.environ["TZ"] = self.s
        time.tzset()

    def __exit__(self, *a):
        if self.old is None:
            os.environ.pop("TZ", None)
        else:
            os.environ["TZ"] = self.old
        time.tzset()


def cpython_time_module_samples(now=None):
    """the two instants at which CPython's time module samples localtime() (timemodule.c
    init_timezone): (time() / YEAR) * YEAR and half a YEAR later, YEAR = 365.25 days; as PTime seconds"""
    year = (365 * 24 + 6) * 3600
    t = (int(time.time() if now is None else now) // year) * year
    return EPOCH_ORD * DAY + t, EPOCH_ORD * DAY + t + year // 2


def libc_obs(u):
    """glibc's answer at PTime-seconds UTC reading u: [gmtoff, isdst, zone]"""
    t = time.localtime(u - EPOCH_ORD * DAY)
    return [t.tm_gmtoff, 1 if t.tm_isdst > 0 else 0, t.tm_zone]
