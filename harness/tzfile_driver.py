"""Driver shared by check_C04 / check_C05 / check_C06 (area tzfile)."""
import copy
import datetime as D
import io
import json
import multiprocessing
import os
import pickle
import sys
import tarfile
import time

sys.path.insert(0, os.path.dirname(os.path.abspath(__file__)))
import common as C
import tzfile_common as T

VO = {"C04": ["props/C04.vo"] + T.VO_BASE, "C05": ["props/C05.vo"] + T.VO_BASE,
      "C06": ["props/C06.vo"] + T.VO_BASE}
PARAMS = {
    # zones beyond the tricky list, synthetic zones, max transitions probed per zone,
    # random instants per zone, thinning of wall intervals
    "quick": {"nz": 90, "nsynth": 240, "max_trans": 50, "nrand": 40, "thin": 8},
    "thorough": {"nz": None, "nsynth": 1200, "max_trans": None, "nrand": 150, "thin": 12},
}
_ORACLE = None


def oracle():
    global _ORACLE
    if _ORACLE is None:
        _ORACLE = C.Oracle(T.AREA)
    return _ORACLE


def usec_of(u):
    return 999999 if u % 7 == 0 else (1 if u % 11 == 0 else 0)


# ------------------------------------------------------------------------------ loading routes (C06)
def routes(name, b, names, archive):
    """Load the same data through every route; returns [(route, zone)]."""
    from dateutil import tz
    from dateutil.tz import tz as tzmod
    out = []
    out.append(("stream", T.guard(lambda: tz.tzfile(io.BytesIO(b)))))
    if name in names:
        path = os.path.join(T.ZI, name)
        out.append(("path", T.guard(lambda: tz.tzfile(path))))
        with open(path, "rb") as f:
            out.append(("openfile", T.guard(lambda: tz.tzfile(f))))
        out.append(("abspath-gettz", T.guard(lambda: tz.gettz(path))))
        old = list(tzmod.TZPATHS)
        tzmod.TZPATHS[:] = [T.ZI]
        try:
            tz.gettz.cache_clear()
            out.append(("gettz", T.guard(lambda: tz.gettz(name))))
            out.append(("gettz-colon", T.guard(lambda: tz.gettz(":" + name))))
            out.append(("gettz-nocache", T.guard(lambda: tz.gettz.nocache(name))))
            for a in [x for x, n in names.items() if n == name and x != name][:2]:
                out.append(("gettz-alias:" + a, T.guard(lambda: tz.gettz(a))))
        finally:
            tzmod.TZPATHS[:] = old
            tz.gettz.cache_clear()
    if archive is not None:
        for key in (name, "hard/" + name, "sym/" + name):
            out.append(("archive:" + key.split("/")[0] if key != name else "archive",
                        archive.get(key) if archive.get(key) is not None else ("X", "missing in archive")))
    base = out[0][1]
    if T.is_ok(base):
        out.append(("pickle", T.guard(lambda: pickle.loads(pickle.dumps(base)))))
        out.append(("pickle0", T.guard(lambda: pickle.loads(pickle.dumps(base, 0)))))
        out.append(("copy", T.guard(lambda: copy.copy(base))))
        out.append(("deepcopy", T.guard(lambda: copy.deepcopy(base))))
        if archive is not None and archive.get(name) is not None:
            out.append(("archive-pickle", T.guard(lambda: pickle.loads(pickle.dumps(archive.get(name))))))
    return out


def build_archive(members):
    """A dateutil-zoneinfo style tar.gz built in memory: regular members, hard links, symlinks,
    a METADATA member."""
    from dateutil.zoneinfo import ZoneInfoFile
    bio = io.BytesIO()
    with tarfile.open(fileobj=bio, mode="w:gz") as tf:
        for name, b in members:
            ti = tarfile.TarInfo(name)
            ti.size = len(b)
            tf.addfile(ti, io.BytesIO(b))
        for name, b in members:
            ti = tarfile.TarInfo("hard/" + name)
            ti.type = tarfile.LNKTYPE
            ti.linkname = name
            tf.addfile(ti)
            ti = tarfile.TarInfo("sym/" + name)
            ti.type = tarfile.SYMTYPE
            ti.linkname = name
            tf.addfile(ti)
        meta = json.dumps({"tzversion": "verif"}).encode()
        ti = tarfile.TarInfo("METADATA")
        ti.size = len(meta)
        tf.addfile(ti, io.BytesIO(meta))
    bio.seek(0)
    return ZoneInfoFile(bio)


# ------------------------------------------------------------------------------ worker
def work(task):
    try:
        return work1(task)
    except Exception as ex:     # never lose a zone: report the crash as an observable
        import traceback
        return {"name": task[2], "crash": "%s: %s" % (type(ex).__name__, ex),
                "trace": traceback.format_exc()[-1500:]}


def work1(task):
    cid, tier, name, bhex, is_corpus, seedtag = task
    p = PARAMS[tier]
    b = bytes.fromhex(bhex)
    o = oracle()
    r = C.rng("inst/%s/%s" % (seedtag, name))
    res = {"name": name, "size": len(b)}
    inf = T.info(o, b)
    res["info"] = {k: v for k, v in inf.items() if k not in ("trans", "wall")}
    res["ntrans"] = len(inf.get("trans", []))
    z = T.load_impl(b)
    if inf["err"] != 0 or not T.is_ok(z):
        # load errors: the exception CLASS is the observable
        im = z if not T.is_ok(z) else ("OK",)
        mo = ("E", inf["err"]) if inf["err"] else ("OK",)
        res["load"] = {"impl": im, "model": mo}
        return res
    # the SPEC (entries 3 / 4) is evaluated on a reference stream decoded independently of the model's decoder
    ref = T.py_reference(b)
    sb = None
    if ref is not None:
        rinf = T.info(o, ref[2])
        same = (rinf.get("err") == 0 and rinf["init"] == inf["init"] and rinf["trans"] == inf["trans"]
                and [tuple(x) for x in rinf["trans"]] == [tuple(x) for x in ref[1]] and rinf["init"] == ref[0])
        res["reference_decoder"] = "agrees" if same else "DISAGREES"
        if same:
            sb = ref[2]
        else:
            res["reference_diff"] = {"model_init": inf["init"], "ref_init": ref[0],
                                     "first_difference": next(((i, a, b_) for i, (a, b_) in enumerate(zip(inf["trans"], ref[1])) if tuple(a) != tuple(b_)), None),
                                     "lengths": [len(inf["trans"]), len(ref[1])]}
    else:
        res["reference_decoder"] = "not applicable"
    if cid in ("C04", "C06"):
        us = T.utc_instants(inf, r, p["nrand"], p["max_trans"])
        res["utc"] = T.examine_utc(o, name, b, z, inf, us, usec_of, sb)
    if cid == "C05":
        us = T.utc_instants(inf, r, p["nrand"] // 2, None if p["max_trans"] is None else p["max_trans"] // 2)
        res["utc"] = T.examine_utc(o, name, b, z, inf, us, usec_of, sb)
        ws = T.wall_instants(inf, r, p["nrand"], p["max_trans"], p["thin"])
        res["wall"] = T.examine_wall(o, name, b, z, inf, ws, sb)
    if cid == "C06":
        names = T.unpack_corpus() if is_corpus else {}
        arch = build_archive([(name, b)])
        rs = routes(name, b, names, arch)
        probe = us[:: max(1, len(us) // 60)]
        ref = [T.impl_obs_utc(z, u, 0) for u in probe]
        rd = []
        for rn, zz in rs:
            if not T.is_ok(zz):
                rd.append({"route": rn, "why": "load failed", "detail": zz})
                continue
            eq = T.guard(lambda: bool(zz == z) and not bool(zz != z))
            if eq is not True:
                rd.append({"route": rn, "why": "not equal to the zone read from the stream", "detail": eq})
                continue
            got = [T.impl_obs_utc(zz, u, 0) for u in probe]
            if got != ref:
                k = [i for i in range(len(probe)) if got[i] != ref[i]][0]
                rd.append({"route": rn, "why": "answers differ", "u": probe[k], "got": got[k], "ref": ref[k]})
        res["routes"] = {"n": len(rs), "names": [x[0] for x in rs], "diff": rd, "probes": len(probe)}
    for part in ("utc", "wall"):
        if part in res:
            for k, v in list(res[part].items()):
                if isinstance(v, list) and len(v) > 6:
                    res[part]["n_" + k] = len(v)
                    res[part][k] = v[:6]
                elif isinstance(v, list):
                    res[part]["n_" + k] = len(v)
    return T.proj_json(res)


# ------------------------------------------------------------------------------ fixed zones
def fixed_stream(o, tier):
    from dateutil import tz
    r = C.rng("fixed")
    offs = [0, 1, -1, 59, 60, 61, 1799, 3600, -3600, 19800, 20700, 45900, 50400, -43200, 86399, -86399,
            1521, -1521, -2670]
    offs += [r.randint(-86399, 86399) for _ in range(20 if tier == "quick" else 400)]
    n, bad = 0, []
    for off in offs:
        zs = [("tzoffset", tz.tzoffset("X", off)), ("tzoffset-td", tz.tzoffset(None, D.timedelta(seconds=off)))]
        if off == 0:
            zs += [("tzutc", tz.tzutc()), ("UTC", tz.UTC)]
        for u in [0, 1, -1, 951782400, 2147483647, -2147483648] + [r.randint(-5 * 10 ** 9, 8 * 10 ** 9) for _ in range(6)]:
            m = o.call(7, [off, u])
            for zn, z in zs:
                n += 1
                im = T.impl_obs_utc(z, u, usec_of(u))
                dt = (T.EPOCH + D.timedelta(seconds=u + off)).replace(tzinfo=z)
                amb = int(tz.datetime_ambiguous(dt))
                ex = int(tz.datetime_exists(dt))
                ri = T.naive_s(tz.resolve_imaginary(dt))[0]
                ok = (T.is_ok(im) and im[0] == m[0] and im[1] == m[1] and im[2] == m[2] == off and im[5] == u
                      and m[3] == u and amb == m[4] == 0 and ex == m[5] == 1 and ri == u + off
                      and im[3] == 0)
                if not ok:
                    bad.append({"zone": zn, "offset": off, "u": u, "impl": im, "model": m,
                                "ambiguous": amb, "exists": ex})
    return n, bad


# ------------------------------------------------------------------------------ other zone classes
VTZ = """BEGIN:VCALENDAR
BEGIN:VTIMEZONE
TZID:US-Eastern
BEGIN:STANDARD
DTSTART:19671029T020000
RRULE:FREQ=YEARLY;BYDAY=-1SU;BYMONTH=10
TZOFFSETFROM:-0400
TZOFFSETTO:-0500
TZNAME:EST
END:STANDARD
BEGIN:DAYLIGHT
DTSTART:19870405T020000
RRULE:FREQ=YEARLY;BYDAY=1SU;BYMONTH=4
TZOFFSETFROM:-0500
TZOFFSETTO:-0400
TZNAME:EDT
END:DAYLIGHT
END:VTIMEZONE
BEGIN:VTIMEZONE
TZID:Europe-Half
BEGIN:STANDARD
DTSTART:19701025T030000
RRULE:FREQ=YEARLY;BYDAY=-1SU;BYMONTH=10
TZOFFSETFROM:+0200
TZOFFSETTO:+0130
TZNAME:XST
END:STANDARD
BEGIN:DAYLIGHT
DTSTART:19700329T020000
RRULE:FREQ=YEARLY;BYDAY=-1SU;BYMONTH=3
TZOFFSETFROM:+0130
TZOFFSETTO:+0200
TZNAME:XDT
END:DAYLIGHT
END:VTIMEZONE
END:VCALENDAR
"""


def other_zones():
    import time as _time
    from dateutil import tz
    from dateutil.relativedelta import relativedelta, SU
    zs = []
    for s in ["EST5EDT", "EST5EDT,M3.2.0/2,M11.1.0/2", "AEST-10AEDT-11,M10.1.0/2,M4.1.0/3",
              "CET-1CEST,M3.5.0,M10.5.0/3", "NZST-12NZDT,M9.5.0,M4.1.0/3", "UTC+3", "EST5",
              "LHST-10:30LHDT-11,M10.1.0,M4.1.0"]:
        zs.append(("tzstr:" + s, tz.tzstr(s)))
    zs.append(("tzrange:EST/EDT", tz.tzrange("EST", -18000, "EDT", -14400)))
    zs.append(("tzrange:custom", tz.tzrange("AAA", 3600, "BBB", 7200,
                                             relativedelta(hours=+3, month=3, day=31, weekday=SU(-1)),
                                             relativedelta(hours=+3, month=10, day=31, weekday=SU(-1)))))
    zs.append(("tzrange:nodst", tz.tzrange("FIX", 12345)))
    ic = tz.tzical(io.StringIO(VTZ))
    for k in ic.keys():
        zs.append(("tzical:" + k, ic.get(k)))
    old = os.environ.get("TZ")
    for t in ["America/New_York", "Europe/London", "Australia/Sydney", "Asia/Kolkata", "UTC",
              "EST5EDT,M3.2.0,M11.1.0"]:
        p = os.path.join(T.ZI, t)
        os.environ["TZ"] = (":" + p) if os.path.exists(p) else t
        _time.tzset()
        zs.append(("tzlocal:" + t, tz.tzlocal()))
    if old is None:
        os.environ.pop("TZ", None)
    else:
        os.environ["TZ"] = old
    _time.tzset()
    return zs


def zone_changes(z, lo, hi, step=6 * 3600):
    """UTC instants in [lo, hi] where the zone's offset changes (bisection to the second)."""
    from dateutil import tz

    def off(u):
        return T.td_s((D.datetime(1970, 1, 1, tzinfo=tz.UTC) + D.timedelta(seconds=u)).astimezone(z).utcoffset())
    out = []
    u = lo
    po = off(u)
    while u < hi:
        v = u + step
        vo = off(v)
        if vo != po:
            a, b = u, v
            while b - a > 1:
                m = (a + b) // 2
                if off(m) == po:
                    a = m
                else:
                    b = m
            out.append((b, po, vo))
        u, po = v, vo
    return out


def other_stream(cid, tier):
    """tzstr / tzrange / tzical / tzlocal: implementation against the property predicate
    (UTC -> local -> UTC identity; pre-image counting).  Theorems for these classes belong to
    C08 / C17; here they are differential tests only."""
    from dateutil import tz
    r = C.rng("other")
    n, bad, per = 0, [], {}
    years = (1999, 2000, 2011, 2024) if tier == "quick" else tuple(range(1995, 2031, 3))
    for zn, z in other_zones():
        cnt0 = n
        if zn.startswith("tzlocal:"):
            import time as _time
            t = zn.split(":", 1)[1]
            p = os.path.join(T.ZI, t)
            os.environ["TZ"] = (":" + p) if os.path.exists(p) else t
            _time.tzset()
        for y in years:
            lo = int((D.datetime(y, 1, 1) - T.EPOCH).total_seconds()) + 40 * 86400
            hi = lo + 320 * 86400 - 80 * 86400
            ch = zone_changes(z, lo, hi)
            us = set(r.randint(lo, hi) for _ in range(12))
            for (t, po, vo) in ch:
                d = vo - po
                for k in (0, 1, -1, d, -d, d - 1, -d - 1, -d + 1, 3600, -3600, 1800, 7200, -7200):
                    us.add(t + k)
            seen = {}
            for u in sorted(us):
                n += 1
                im = T.impl_obs_utc(z, u, usec_of(u))
                why = None
                if not T.is_ok(im) or not all(T.is_ok(x) for x in im):
                    why = "exception"
                elif im[2] != im[0] - u:
                    why = "utcoffset != wall - utc"
                elif im[5] != u:
                    why = "return trip does not give the instant back"
                elif (im[0], im[1]) in seen and seen[(im[0], im[1])] != u:
                    why = "two instants share (wall, fold)"
                else:
                    seen[(im[0], im[1])] = u
                if why and cid == "C04":
                    bad.append({"zone": zn, "u": u, "why": why, "impl": im})
            if cid == "C05":
                # pre-image counting by brute force over the offsets seen in this year
                offs = set([T.td_s((D.datetime(1970, 1, 1, tzinfo=tz.UTC) + D.timedelta(seconds=lo)).astimezone(z).utcoffset())])
                for (t, po, vo) in ch:
                    offs.update((po, vo))
                ws = set()
                for (t, po, vo) in ch:
                    a, b = t + min(po, vo), t + max(po, vo)
                    for x in (a, b):
                        for k in (-2, -1, 0, 1, 2):
                            ws.add(x + k)
                    ws.add((a + b) // 2)
                    ws.update(r.randint(a, b) for _ in range(4))
                ws.update(r.randint(lo + 90000, hi - 90000) for _ in range(6))
                for w in sorted(ws):
                    pre = []
                    for oo in offs:
                        uu = w - oo
                        loc = (D.datetime(1970, 1, 1, tzinfo=tz.UTC) + D.timedelta(seconds=uu)).astimezone(z)
                        if T.naive_s(loc)[0] == w:
                            pre.append((uu, loc.fold))
                    pre.sort()
                    for f in (0, 1):
                        n += 1
                        im = T.impl_obs_wall(z, w, f)
                        why = None
                        if not all(T.is_ok(x) for x in im):
                            why = "exception"
                        elif im[4] != int(len(pre) >= 1):
                            why = "datetime_exists disagrees with the number of UTC pre-images"
                        elif im[3] != int(len(pre) == 2):
                            why = "datetime_ambiguous disagrees with the number of UTC pre-images"
                        elif len(pre) > 2:
                            why = "more than two pre-images"
                        elif pre and w - im[0] != (pre[-1][0] if f else pre[0][0]):
                            why = "fold does not select the earlier/later instant"
                        elif len(pre) == 2 and (pre[0][1], pre[1][1]) != (0, 1):
                            why = "fromutc does not set fold on the later instant only"
                        elif pre and im[5] != (w, f):
                            why = "resolve_imaginary changed an existing wall time"
                        elif not pre:
                            g = [vo - po for (t, po, vo) in ch if t + po <= w < t + vo]
                            if len(g) == 1 and im[5][0] != w + g[0]:
                                why = "resolve_imaginary does not move forward by the width of the gap"
                        if why:
                            bad.append({"zone": zn, "w": w, "fold": f, "why": why, "impl": im, "preimages": pre})
        per[zn] = n - cnt0
    os.environ["TZ"] = "UTC"
    import time as _time
    _time.tzset()
    return n, bad, per


def generic_layer_stream(o, tier):
    """_tzinfo.fromutc/_fold_status (generic layer of tz/_common.py) vs the extracted model
    g_fromutc (entry 9).  The zone's own utcoffset()/dst() are supplied to the model on demand as a
    finite table; only classes that do not override fromutc / is_ambiguous qualify (iCalendar zones)."""
    from dateutil import tz
    from dateutil.tz import _common
    r = C.rng("generic")
    n, bad = 0, []
    for zn, z in other_zones():
        if type(z).fromutc is not _common._tzinfo.fromutc or type(z).is_ambiguous is not _common._tzinfo.is_ambiguous:
            continue
        for y in ((2000, 2011) if tier == "quick" else tuple(range(1996, 2030, 3))):
            lo = int((D.datetime(y, 1, 1) - T.EPOCH).total_seconds()) + 40 * 86400
            hi = lo + 240 * 86400
            us = set(r.randint(lo, hi) for _ in range(10))
            for (t, po, vo) in zone_changes(z, lo, hi):
                dd = vo - po
                for k in (0, 1, -1, dd, -dd, dd - 1, -dd - 1, -dd + 1, 3600, -3600, 1800, 7200, -7200):
                    us.add(t + k)
            for u in sorted(us):
                n += 1
                dt = (T.EPOCH + D.timedelta(seconds=u)).replace(tzinfo=z)
                loc = T.guard(lambda: z.fromutc(dt))
                im = (T.naive_s(loc)[0], loc.fold) if T.is_ok(loc) else loc
                tbl = []
                mo = None
                for _ in range(6):
                    rep = o.call(9, [u] + [x for q in tbl for x in q])
                    if rep[0] == 0:
                        mo = (rep[1], rep[2])
                        break
                    x, f = rep[1], rep[2]
                    q = (T.EPOCH + D.timedelta(seconds=x)).replace(tzinfo=z, fold=f)
                    tbl.append((x, f, T.td_s(q.utcoffset()), T.td_s(q.dst())))
                if im != mo:
                    bad.append({"zone": zn, "u": u, "impl": im, "model": mo, "table": tbl})
    return n, bad


# ------------------------------------------------------------------------------ malformed streams (C06)
def malformed_stream(o, zones, tier):
    """Truncations, bad magic, type index out of range, negative counts: exception class of
    tz.tzfile(BytesIO(bytes)) vs the model's error constructor."""
    r = C.rng("malformed")
    cases = []
    for name, b in zones[:6 if tier == "quick" else 40]:
        v1 = 44
        import struct
        cnt = struct.unpack(">6l", b[20:44])
        end = 44 + cnt[3] * 5 + cnt[4] * 6 + cnt[5] + cnt[2] * 8 + cnt[1] + cnt[0]
        cuts = sorted(set([0, 1, 3, 4, 5, 19, 20, 43, 44, 45, end - 1, end, end + 1] +
                          [r.randint(0, end) for _ in range(12)]))
        for c in cuts:
            cases.append((name + "[:%d]" % c, b[:c]))
        cases.append((name + "/magic", b"TZiF" + b[4:]))
        cases.append((name + "/magic-nonascii", b"\xff\xfeif" + b[4:]))
        for pos in range(6):
            for val in (-1, 0, 1, 300):
                hb = bytearray(b[:end])
                hb[20 + 4 * pos:24 + 4 * pos] = struct.pack(">l", val)
                cases.append((name + "/hdr%d=%d" % (pos, val), bytes(hb)))
        if cnt[3]:
            hb = bytearray(b[:end])
            hb[44 + cnt[3] * 4 + r.randrange(cnt[3])] = cnt[4] + r.choice([0, 1, 100])
            cases.append((name + "/typeidx", bytes(hb)))
    n, bad, hist = 0, [], {}
    for cname, b in cases:
        n += 1
        z = T.load_impl(b)
        inf = T.info(o, b)
        im = z if not T.is_ok(z) else ("OK",)
        mo = ("E", inf["err"]) if inf["err"] else ("OK",)
        key = "impl=%s model=%s" % (im[1] if im[0] != "OK" else "OK", mo[1] if mo[0] != "OK" else "OK")
        hist[key] = hist.get(key, 0) + 1
        if mo == ("E", T.E_OTHER):
            continue          # outside the model (non-ASCII abbreviations, negative leapcnt)
        if im != mo:
            bad.append({"case": cname, "bytes_hex": b.hex() if len(b) < 4000 else None, "impl": im, "model": mo})
            continue
        if im == ("OK",):
            # behaviour of a successfully loaded damaged file still has to agree
            us = [0, 86400 * 365 * 30, -86400 * 365 * 60, r.randint(-2 * 10 ** 9, 2 * 10 ** 9)]
            mm = T.model_obs_utc(o, b, us)
            for k, u in enumerate(us):
                ii = T.impl_obs_utc(z, u, 0)
                if ii != mm[k] and not (isinstance(ii, tuple) and ii[0] == "X"):
                    bad.append({"case": cname, "bytes_hex": b.hex() if len(b) < 4000 else None, "u": u,
                                "impl": ii, "model": mm[k]})
    return n, bad, hist


# ------------------------------------------------------------------------------ replay
def replay(cid, path):
    data = json.load(open(path))
    C.ensure_built([T.AREA], VO[cid])
    o = oracle()
    names = T.unpack_corpus()
    inp = data.get("input") or {}
    if "bytes_hex" in inp and inp["bytes_hex"]:
        b = bytes.fromhex(inp["bytes_hex"])
    elif inp.get("zone") in names:
        b = T.zone_bytes(inp["zone"], names)
    elif str(inp.get("zone", "")).split(":")[0] in ("tzical", "tzstr", "tzrange", "tzlocal"):
        # generated non-tzfile zone: rebuild the description, show implementation and expected values
        import tzfile_genzones as G
        descs = G.posix_descs(("tzlocal", "tzstr", "tzrange", "tzical")) + G.extra_descs()
        r = C.rng("genzones/" + cid)
        descs += [d for d in (G.multi_era_desc(r, k) for k in range(400)) if d is not None]
        cand = [d for d in descs if d.name == inp["zone"] and (not inp.get("vtimezone") or getattr(d, "text", None) == inp["vtimezone"])]
        if not cand:
            print("zone description not regenerated (other VERIF_SEED?):", json.dumps(data, indent=1)[:3000])
            return 0
        d = cand[0]
        ref = bytes(o.call(6, T.raw_args(d.raw()))[1:])
        zz = d.make()
        if "u" in inp:
            print("input      zone=%s u=%d" % (d.name, inp["u"]))
            print("impl      ", T.impl_obs_utc(zz, inp["u"], 0))
            print("expected  ", T.spec_utc(o, ref, [inp["u"]]), "(off, local, fold) from the zone's definition")
        if "w" in inp:
            print("input      zone=%s w=%d fold=%d" % (d.name, inp["w"], inp.get("fold", 0)))
            print("impl      ", T.impl_obs_wall(zz, inp["w"], inp.get("fold", 0)))
            print("expected  ", T.spec_wall(o, ref, [inp["w"]]))
        return 0
    else:
        print("replay without a tzfile input:", json.dumps(data, indent=1)[:3000])
        return 0
    z = T.load_impl(b)
    print("zone      ", inp.get("zone"), "info", {k: v for k, v in T.info(o, b).items() if k not in ("trans", "wall")})
    if "u" in inp:
        u = inp["u"]
        print("input      u=%d" % u)
        print("impl      ", T.impl_obs_utc(z, u, 0) if T.is_ok(z) else z)
        print("model     ", T.model_obs_utc(o, b, [u]))
        print("spec      ", T.spec_utc(o, b, [u]), "(off, local, fold)")
        print("data      ", T.spec_data(o, b, [u]), "(in_range, gmtoff, isdst, abbr)")
    if "w" in inp:
        w, f = inp["w"], inp.get("fold", 0)
        print("input      w=%d fold=%d" % (w, f))
        print("impl      ", T.impl_obs_wall(z, w, f) if T.is_ok(z) else z)
        print("model     ", T.model_obs_wall(o, b, [(w, f)]))
        print("spec      ", T.spec_wall(o, b, [w]))
    return 0


def preimages_of_instant(o, b, u):
    """number of UTC pre-images of the wall reading the SPEC assigns to instant u"""
    sp = T.spec_utc(o, b, [u])
    if not isinstance(sp, list):
        return None
    return len(T.spec_wall(o, b, [sp[0][1]])[0]["pre"])


class OrderedVerdict(object):
    """Buffers the violations of a run and hands them to common.Verdict with the CONCRETE ones first
    (common.Verdict prints the first five): a concrete failing input must not be hidden behind
    model/implementation differences found earlier in the zone list."""

    def __init__(self, real):
        self.real, self.buf = real, []

    def violation(self, payload, concrete=True):
        self.buf.append((payload, concrete))
        return True

    def flush(self):
        conc = [pc for pc in self.buf if pc[1]]
        brk = [pc for pc in self.buf if not pc[1] and str(pc[0].get("kind", "")).startswith("broken proof obligation")]
        rest = [pc for pc in self.buf if not pc[1] and pc not in brk]
        # common.Verdict prints five: up to four concrete inputs, then the broken obligations, then the rest
        for payload, concrete in conc[:4] + brk + conc[4:] + rest:
            self.real.violation(payload, concrete)
        self.buf = []

    @property
    def violations(self):
        self.flush()
        return self.real.violations

    @property
    def known_hits(self):
        return self.real.known_hits

    def finish(self):
        self.flush()
        return self.real.finish()


# ------------------------------------------------------------------------------ main
def main(cid):
    argv = sys.argv[1:]
    if "--replay" in argv:
        return replay(cid, argv[argv.index("--replay") + 1])
    tier = C.tier_from_argv(argv)
    p = PARAMS[tier]
    t0 = time.time()
    import tzfile_findings
    verdict = OrderedVerdict(C.Verdict(cid, tzfile_findings.MATCHERS))
    build_err = None
    try:
        C.ensure_built([T.AREA], VO[cid])
    except C.BuildError as ex:
        build_err = ex
    # the regenerated model must be the translation of THIS run's source (coq/gen is shared: a check of
    # another area running concurrently regenerates it from its own VERIF_REPO)
    import gen_tzfile
    gen_abort = None
    try:
        want_gen = gen_tzfile.translate(open(os.path.join(C.SRC, "dateutil/tz/tz.py")).read(),
                                        open(os.path.join(C.SRC, "dateutil/tz/_common.py")).read(),
                                        open(os.path.join(C.SRC, "dateutil/zoneinfo/__init__.py")).read())
    except gen_tzfile.TranslateError as ex:
        gen_abort = "TRANSLATE-ERROR: %s" % ex
        want_gen = None
    except Exception as ex:
        gen_abort = "TRANSLATE-ERROR: translator crashed: %r" % (ex,)
        want_gen = None
    for _retry in range(2):
        try:
            have = open(os.path.join(C.COQ, "gen", "TzGen.v")).read()
        except OSError:
            have = ""
        if build_err is not None or (want_gen is not None and have == want_gen) or (want_gen is None and "TRANSLATE-ERROR" in have[:300]):
            break
        try:
            C.ensure_built([T.AREA], VO[cid])
        except C.BuildError as ex:
            build_err = ex
    if build_err is None:
        props = C.compile_props(cid)
    else:
        props = {"obligations": 1, "discharged": 0, "theorems": [], "assumptions": {},
                 "cmd": "coqc props/%s.v" % cid, "log": build_err.log, "ok": False}
    t_built = time.time()
    if not os.path.exists(os.path.join(C.BIN, "oracle_" + T.AREA)):
        verdict.violation({"kind": "model does not build; no oracle", "input": None,
                           "log_tail": props["log"][-3000:]}, concrete=False)
        rc = verdict.finish()
        C.write_evidence(cid, tier, t0, props, {"evaluations": 0, "distinct_nontrivial": 0, "rule": "n/a"},
                         [], len(verdict.violations))
        return rc
    o = oracle()
    names = T.unpack_corpus()
    znames = T.select_zones(tier, names, cid, p["nz"])
    zones = [(n, T.zone_bytes(n, names)) for n in znames]
    synth, render_bad = T.synth_zones(o, cid, p["nsynth"])
    for rb in render_bad[:3]:
        verdict.violation({"kind": "model render_tzif differs from struct.pack rendering (harness/model glue)",
                           "input": rb}, concrete=False)
    # regression corpus first
    tasks = []
    regp = os.path.join(C.VERIF, "corpus", "regressions", cid + ".jsonl")
    nreg = 0
    if os.path.exists(regp):
        for line in open(regp):
            line = line.strip()
            if line:
                e = json.loads(line)
                nreg += 1
                if e.get("zone") in names:
                    tasks.append((cid, tier, names[e["zone"]], T.zone_bytes(e["zone"], names).hex(), True, "reg"))
    tasks += [(cid, tier, n, b.hex(), True, str(C.seed())) for n, b in zones]
    tasks += [(cid, tier, n, b.hex(), False, str(C.seed())) for n, b, _raw in synth]
    ctx = multiprocessing.get_context("fork")
    global _ORACLE
    _ORACLE.close()
    _ORACLE = None
    with ctx.Pool(min(T.JOBS, 16)) as pool:
        results = pool.map(work, tasks, chunksize=1)
    o = oracle()
    t_zones = time.time()

    # ---- grading
    evals = 0
    nontrivial = 0
    n_model_diff = n_spec_diff = 0
    outside_wf, not_good, load_errs = [], [], []
    samples, hist = [], {"corpus_zones": len(zones), "synthetic_zones": len(synth), "regressions": nreg,
                         "right_zones": sum(1 for n, _ in zones if n.startswith("right/")),
                         "transitions_total": 0, "utc_instants": 0, "wall_queries": 0,
                         "folds_observed": 0, "instants_in_data_range": 0,
                         "preimage_count": {"0": 0, "1": 0, "2": 0, "more": 0},
                         "resolve_imaginary_checked": 0, "gaps_outside_isolation_hypothesis": 0,
                         "synthetic_shapes": {}, "failures_outside_wf_zone_reported": 0,
                         "failures_outside_wf_zone_unsatisfiable": 0, "failures_outside_wf_zone_not_sampled": 0,
                         "instants_from_last_transition_on": 0, "from_last_transition_on_not_the_data_type": 0}
    not_isolated = []
    zone_bytes_map = dict(zones)

    def zone_bytes_of(nm):
        if nm in zone_bytes_map:
            return zone_bytes_map[nm]
        if nm in names:
            return T.zone_bytes(nm, names)
        return bytes.fromhex(synth_hex[nm])
    synth_hex = dict((n, b.hex()) for n, b, _ in synth)
    for res in results:
        name = res["name"]
        zin = {"zone": name} if name in names else {"zone": name, "bytes_hex": synth_hex.get(name)}
        if name.startswith("synthetic/"):
            sh = name.split("/")[1]
            hist["synthetic_shapes"][sh] = hist["synthetic_shapes"].get(sh, 0) + 1
        if "crash" in res:
            n_model_diff += 1
            verdict.violation({"kind": "the check could not evaluate a zone (exception while observing the implementation)",
                               "input": zin, "crash": res["crash"], "trace": res["trace"]}, concrete=False)
            continue
        if "load" in res:
            load_errs.append({"zone": name, **res["load"]})
            if res["load"]["impl"] != res["load"]["model"] and res["load"]["model"] != ["E", T.E_OTHER]:
                n_model_diff += 1
                verdict.violation({"kind": "correspondence: loading differs (exception class)", "input": zin,
                                   "impl": res["load"]["impl"], "model": res["load"]["model"]}, concrete=False)
            continue
        inf = res["info"]
        hist["reference_decoder_" + res.get("reference_decoder", "not applicable").replace(" ", "_")] = \
            hist.get("reference_decoder_" + res.get("reference_decoder", "not applicable").replace(" ", "_"), 0) + 1
        if res.get("reference_decoder") == "DISAGREES":
            verdict.violation({"kind": "the model's decoder (zone_of) disagrees with the harness's independent struct decoding "
                                       "of the same bytes", "input": zin, "detail": res.get("reference_diff")}, concrete=False)
        hist["transitions_total"] += res["ntrans"]
        guard_ok = bool(inf["wf_zone"]) and bool(inf["good"])
        if not inf["wf_zone"]:
            outside_wf.append(name)
        if not inf["good"]:
            not_good.append(name)
            verdict.violation({"kind": "decoder invariant `good` fails on a decoded zone (model/theorem glue)",
                               "input": zin}, concrete=False)
        concrete_found = False
        if "utc" in res:
            ut = res["utc"]
            evals += ut["n"]
            hist["utc_instants"] += ut["n"]
            hist["folds_observed"] += ut["folds"]
            hist["instants_in_data_range"] += ut["in_range"]
            nontrivial += ut["nontrivial"]
            samples += ut["samples"][:1]
            if cid == "C04":
                conc = [("property: " + x["why"], x) for x in ut["prop_fail"]] + \
                       [("two instants map to the same (wall, fold)", x) for x in ut["collisions"]] + \
                       [("implementation differs from the executable specification (offset in force / wall / fold)", x)
                        for x in ut["spec_diff"]] + \
                       [("offset/abbreviation reported is not the one the data assigns to the instant", x)
                        for x in ut["data_diff"]]
            elif cid == "C05":
                conc = [("fromutc sets fold differently from the specification", x) for x in ut["spec_diff"]
                        if x["impl"][2] != x["spec"][2]]
            else:
                conc = [("tzfile does not report what the TZif data says", x) for x in ut["data_diff"]]
                if not inf["wf_data"]:
                    conc = []
                # even outside wf_zone the wall reading itself must be u + the data's offset
                for x in ut["data_diff"]:
                    if inf["wf_data"] and x.get("wall_minus_u") != x["data"][0]:
                        concrete_found = True
                        verdict.violation({"kind": "fromutc: wall reading is not the instant plus the data's offset",
                                           "input": dict(zin, u=x["u"]), "detail": x})
            if not guard_ok:
                # outside the theorem guard nothing is dropped: a failure at an instant whose wall reading has at
                # most two pre-images (the property is satisfiable there) is reported as a violation carrying
                # outside_wf_zone (class of finding F-C0x-short-regime); with three or more pre-images no tzinfo
                # can answer, those are counted as unsatisfiable
                for kind, x in conc:
                    npre = preimages_of_instant(o, zone_bytes_of(name), x["u"])
                    if npre is not None and npre <= 2:
                        hist["failures_outside_wf_zone_reported"] += 1
                        n_spec_diff += 1
                        concrete_found = True
                        verdict.violation({"kind": kind, "input": dict(zin, u=x["u"], outside_wf_zone=True,
                                                                      preimages_of_wall=npre), "detail": x})
                    else:
                        hist["failures_outside_wf_zone_unsatisfiable"] += 1
                conc = []
            for kind, x in conc[:2]:
                concrete_found = True
                n_spec_diff += 1
                verdict.violation({"kind": kind, "input": dict(zin, u=x["u"]), "detail": x})
            # from the last transition on dateutil applies ttinfo_std by design (version-1 data does not determine
            # local time after its last transition, RFC 8536 3.2; the footer is ignored): stated scope, not a finding.
            # There the implementation is compared with the MODEL and the round-trip predicate only; the number of
            # such instants whose answer differs from the data's last type is a statistic.
            hist["instants_from_last_transition_on"] += ut.get("after_last_n", 0)
            hist["from_last_transition_on_not_the_data_type"] += ut.get("n_after_last", 0)
            if ut["n_model_diff"] and not concrete_found:
                n_model_diff += ut["n_model_diff"]
                x = ut["model_diff"][0]
                verdict.violation({"kind": "correspondence: model differs from implementation (UTC instant)",
                                   "input": dict(zin, u=x["u"]), "impl": x["impl"], "model": x["model"],
                                   "count": ut["n_model_diff"]}, concrete=False)
        if "wall" in res:
            wl = res["wall"]
            evals += wl["n"]
            nontrivial += wl["nontrivial"]
            hist["wall_queries"] += wl["n"]
            for k in ("0", "1", "2", "more"):
                hist["preimage_count"][k] += wl["count"].get(k, 0)
            hist["resolve_imaginary_checked"] += wl["resolve_checked"]
            hist["gaps_outside_isolation_hypothesis"] += wl["n_not_isolated"]
            for x in wl["not_isolated"][:2]:
                not_isolated.append(dict(x, zone=name))
            samples += wl["samples"][:1]
            if guard_ok:
                for x in wl["spec_diff"][:2]:
                    concrete_found = True
                    n_spec_diff += 1
                    verdict.violation({"kind": "property: " + x["why"], "input": dict(zin, w=x["w"], fold=x["fold"]),
                                       "detail": x})
            else:
                for x in wl["spec_diff"]:
                    npre = len(x["spec"]["pre"])
                    if npre <= 2:
                        hist["failures_outside_wf_zone_reported"] += 1
                        n_spec_diff += 1
                        concrete_found = True
                        verdict.violation({"kind": "property: " + x["why"],
                                           "input": dict(zin, w=x["w"], fold=x["fold"], outside_wf_zone=True,
                                                         preimages_of_wall=npre), "detail": x})
                    else:
                        hist["failures_outside_wf_zone_unsatisfiable"] += 1
                hist["failures_outside_wf_zone_not_sampled"] += max(0, wl["n_spec_diff"] - len(wl["spec_diff"]))
            if wl["n_model_diff"] and not concrete_found:
                n_model_diff += wl["n_model_diff"]
                x = wl["model_diff"][0]
                verdict.violation({"kind": "correspondence: model differs from implementation (wall time)",
                                   "input": dict(zin, w=x["w"], fold=x["fold"]), "impl": x["impl"],
                                   "model": x["model"], "count": wl["n_model_diff"]}, concrete=False)
        if "routes" in res:
            evals += res["routes"]["n"] * res["routes"]["probes"]
            for x in res["routes"]["diff"][:2]:
                n_spec_diff += 1
                verdict.violation({"kind": "loading routes disagree: " + x["why"],
                                   "input": dict(zin, route=x["route"], **({"u": x["u"]} if "u" in x else {})),
                                   "detail": x})
    cov_extra = {}
    # ---- fixed zones and other zone classes (C04 / C05)
    if cid in ("C04", "C05"):
        nf, fbad = fixed_stream(o, tier)
        evals += nf
        cov_extra["fixed_zone_cases"] = nf
        for x in fbad[:2]:
            verdict.violation({"kind": "fixed-offset zone violates the round trip / classification", "input": x})
        no, obad, per = other_stream(cid, tier)
        evals += no
        cov_extra["other_zone_classes"] = {"cases": no, "per_zone": per, "failures": len(obad),
                                           "note": "tzstr/tzrange/tzical/tzlocal: implementation vs property predicate "
                                                   "only (differential); theorems belong to C08/C17"}
        for x in obad[:2]:
            verdict.violation({"kind": "property (other zone class): " + x["why"], "input": x})
        import tzfile_genzones as G
        nz_, zbad, zstats = G.run(cid, o, tier)
        evals += nz_
        cov_extra["generated_zone_classes"] = {
            "cases": nz_, "zones": len(zstats), "failures": len(zbad),
            "per_kind": dict((k, sum(v for n_, v in zstats.items() if n_.split(":")[0] == k))
                             for k in sorted(set(n_.split(":")[0] for n_ in zstats))),
            "note": "tzical from multi-era component lists (2-4 eras, std offsets negative/zero/positive incl. "
                    "sub-hour, DST at offset 0, shuffled component order), tzical/tzstr/tzrange/tzlocal from POSIX "
                    "rules of both hemispheres incl. the Azores rule; tzical with +-HHMMSS TZOFFSETFROM/TZOFFSETTO (non-zero "
                    "seconds, both signs; DST rules and rule-less multi-era); day-of-year rules in both POSIX forms "
                    "(Jn and zero-based n, n >= 59 included) as tzstr/tzlocal/tzrange/tzical, instants in 2 leap + 2 "
                    "common years; one zone OBJECT per description, instants in "
                    "shuffled order + a second pass; expected values from an independent piecewise-constant offset "
                    "function evaluated by the extracted SPEC; positive saving only (negative saving: F-C08-3/4, F-C17-1)"}
        shown = 0
        for x in zbad:
            if x.get("near_std_change") or shown < 3:
                shown += 0 if x.get("near_std_change") else 1
                verdict.violation({"kind": "property (generated zone): " + x["why"], "input": x})
        if cid == "C05":
            nfz, fbad2 = G.run_foreign(o, tier)
            evals += nfz
            cov_extra["zones_without_is_ambiguous"] = {
                "cases": nfz, "failures": len(fbad2),
                "imaginary_times_reported_ambiguous_by_the_fallback": G.run_foreign.gap_reported_ambiguous,
                "note": "stdlib zoneinfo.ZoneInfo read from corpus bytes and a hand-written PEP 495 tzinfo: the module-level "
                        "fallback of datetime_ambiguous, datetime_exists, resolve_imaginary against the extracted SPEC; "
                        "datetime_ambiguous is graded on existing wall times only"}
            for x in fbad2[:3]:
                verdict.violation({"kind": "property (zone without is_ambiguous): " + x["why"], "input": x})
        if cid == "C04":
            nt, tbad = G.thread_stress(1.5 if tier == "quick" else 6.0)
            evals += nt
            cov_extra["two_thread_stress_conversions"] = nt
            for x in tbad[:1]:
                verdict.violation({"kind": "property (one zone object, several threads): " + x["why"], "input": x})
        ng, gbad = generic_layer_stream(o, tier)
        evals += ng
        cov_extra["generic_layer_cases"] = ng
        if gbad and not obad:
            n_model_diff += len(gbad)
            verdict.violation({"kind": "correspondence: generic _tzinfo.fromutc differs from the model g_fromutc",
                               "input": gbad[0], "count": len(gbad)}, concrete=False)
    if cid == "C06":
        nm, mbad, mh = malformed_stream(o, zones + [(n, b) for n, b, _ in synth[:10]], tier)
        evals += nm
        cov_extra["malformed_stream"] = {"cases": nm, "outcomes": mh, "disagreements": len(mbad)}
        for x in mbad[:2]:
            verdict.violation({"kind": "correspondence: malformed stream handled differently", "input": x},
                              concrete=False)
        # several members in one archive + equality across different data
        sub = zones[:12]
        arch = build_archive(sub)
        neq = 0
        for i, (n1, b1) in enumerate(sub):
            for j, (n2, b2) in enumerate(sub):
                evals += 1
                e_impl = int(arch.get(n1) == arch.get("sym/" + n2))
                e_model = o.call(8, T.bytes_args(b1) + T.bytes_args(b2))
                if e_model[0] != 0 or e_impl != e_model[1]:
                    neq += 1
                    verdict.violation({"kind": "zone equality differs between implementation and model",
                                       "input": {"zone": n1, "other": n2}, "impl": e_impl, "model": e_model},
                                      concrete=False)
        # equality must see the isstd / isgmt indicators (and hence the leap-second skip before them)
        nflip = 0
        for (n1, b1, raw) in synth:
            if not raw["isstd"] and not raw["isgmt"]:
                continue
            if nflip >= (40 if tier == "quick" else 400):
                break
            nflip += 1
            raw2 = dict(raw)
            key = "isstd" if raw["isstd"] else "isgmt"
            fl = list(raw[key])
            fl[-1] = 1 - fl[-1]
            raw2[key] = fl
            b1, b2 = T.py_render(raw), T.py_render(raw2)
            za, zb = T.load_impl(b1), T.load_impl(b2)
            if not (T.is_ok(za) and T.is_ok(zb)):
                continue
            evals += 1
            e_impl = int(za == zb)
            e_model = o.call(8, T.bytes_args(b1) + T.bytes_args(b2))
            if e_model[0] != 0 or e_impl != e_model[1]:
                verdict.violation({"kind": "zone equality differs between implementation and model "
                                           "(isstd/isgmt indicator flipped)",
                                   "input": {"zone": n1, "bytes_hex": b1.hex(), "other_hex": b2.hex()},
                                   "impl": e_impl, "model": e_model}, concrete=False)
        cov_extra["equality_indicator_flips"] = nflip
        cov_extra["equality_pairs"] = len(sub) ** 2
        cov_extra["archive_metadata_ok"] = arch.metadata == {"tzversion": "verif"}

    if not props["ok"]:
        # the regenerated model (harness/gen_tzfile.py) no longer equals the hand model, or the translator
        # aborted, or another obligation broke: reported next to any concrete failing input found above
        verdict.violation({"kind": "broken proof obligation" + (" (translator harness/gen_tzfile.py aborted)" if gen_abort else
                                                                " (regenerated model coq/gen/TzGen.v vs hand model, or another theorem)"),
                           "theorem_file": "coq/props/%s.v" % cid, "translator": gen_abort,
                           "theorems": props["theorems"], "discharged": props["discharged"], "input": None,
                           "log_tail": props["log"][-2500:]}, concrete=False)
    rc = verdict.finish()
    if not props["ok"]:
        print("BROKEN-OBLIGATIONS property=%s discharged=%d/%d%s" % (
            cid, props["discharged"], props["obligations"], " translator-abort: " + gen_abort[:200] if gen_abort else ""))
    cov = {
        "evaluations": evals,
        "distinct_nontrivial": nontrivial,
        "rule": "one evaluation = one (zone, UTC instant) or (zone, wall time, fold) or (zone, route, instant) or "
                "fixed/other-class case, compared between implementation, extracted model and extracted spec; "
                "instants / wall times are de-duplicated per zone (sets) and zones are distinct files, so every "
                "(zone, instant) pair is distinct; a pair is counted non-trivial when the instant lies within 2 h "
                "of one of the zone's UTC transitions, resp. the wall time is imaginary, ambiguous or within 2 h "
                "of a wall-clock transition (measured per case by bisection in the zone's transition list); "
                "fixed zones, other zone classes, routes and malformed streams are not counted as non-trivial",
        "samples": samples[:10],
        "input_distribution": hist,
        "model_vs_impl_disagreements": n_model_diff,
        "spec_vs_impl_disagreements": n_spec_diff,
        "zones_outside_wf_zone": {"count": len(outside_wf), "names": outside_wf[:40],
                                  "note": "wf_zone evaluated by the extracted checker on every zone; for zones "
                                          "outside it only model-vs-implementation is compared"},
        "zones_failing_decoder_invariant": not_good,
        "load_errors": load_errs[:10],
        "gaps_outside_isolation_hypothesis_samples": not_isolated[:10],
        "known_findings_hit": verdict.known_hits,
        "regenerated_model": {"generator": "harness/gen_tzfile.py (fail-closed Python-ast translator, run on this check)",
                              "output": "coq/gen/TzGen.v", "translator_abort": gen_abort,
                              "obligations": [t for t in props["theorems"] if "_gen_" in t]},
        "tier_parameters": p,
        "phase_seconds": {"build_and_props_incl_lock_wait": round(t_built - t0, 1),
                          "zones": round(t_zones - t_built, 1), "rest": round(time.time() - t_zones, 1)},
        "partial_theorems": [t for t in props["theorems"] if t.endswith("_partial")],
        "refuted_theorems": [t for t in props["theorems"] if t.endswith("_refuted")],
        "tie_only_theorems": {
            "names": [t for t in props["theorems"] if t.endswith("_pinned_fragments_unchanged")
                      or t.endswith("_gen_ttinfo_before") or t.endswith("_gen_datetime_to_timestamp")],
            "note": "proved by reflexivity on constants / literal text the (trusted) generator wrote after a shape or "
                    "AST-fingerprint check of the source: they tie the hand model to the source text, they prove nothing "
                    "about behaviour; obligations_substantive excludes them"},
        "obligations_substantive": len([t for t in props["theorems"] if not (t.endswith("_pinned_fragments_unchanged")
                                        or t.endswith("_gen_ttinfo_before") or t.endswith("_gen_datetime_to_timestamp"))]),
        "theorem_guards": {
            "scope": "property-level theorems exist for tzfile and the fixed zones; the generic _tzinfo layer (iCalendar zones) "
                     "has conditional theorems (C04_generic_*, instantiated for piecewise zones with constant standard "
                     "offset); tzlocal (overrides is_ambiguous), tzrange / tzstr (own fromutc; C08 proves their POSIX "
                     "semantics) have NO C04/C05 theorem here: differential only",
            "stated_scope": "C04's 'offset in force' clause and C06 are claimed on [first, last); from the last transition on "
                            "dateutil applies ttinfo_std by design (v1 data; footer ignored); there the check compares the "
                            "implementation with the model and the round-trip predicate only "
                            "(statistic: input_distribution.from_last_transition_on_not_the_data_type)",
            "tzfile theorems": "good d = true (executable decoder invariant, proved for every decoded file with >= 1 "
                               "type: C06_decoder_invariant; also evaluated on every zone by this run) and "
                               "wf_zone (zone_of d) = true (executable: strictly increasing instants, every regime at least as "
                               "long as the repeated intervals at its two ends together and as the gap at either end, "
                               "|offset| < 24 h; evaluated on every zone by this run; outside it failures at wall times with "
                               "<= 2 pre-images are REPORTED through finding F-C0x-short-regime (refuted witness "
                               "C05_short_regime_refuted), with >= 3 pre-images counted as unsatisfiable)",
            "C05_resolve_imaginary_gap_width": "none beyond good/wf_zone (after fix 7f58098; before it the +-24 h probe "
                                               "forced the hypothesis `isolated`, still reported per gap as "
                                               "gaps_outside_isolation_hypothesis for information)",
            "C06 data theorems": "wf_data r = true; instants before the last transition of the data",
            "C04_generic_roundtrip": "five explicit obligations on the zone's utcoffset/dst (to be met by tzical/tzlocal: C17/C08)"},
        "differential_only": ["tzstr/tzrange/tzical/tzlocal round trips and pre-image counts",
                              "tarfile / pickle / copy / os.path glue (C06 routes)",
                              "microsecond pass-through", "malformed-stream exception classes"],
    }
    cov.update(cov_extra)
    C.write_evidence(cid, tier, t0, props, cov,
                     ["float timestamps of _datetime_to_timestamp compare like their integer floor (32-bit range)",
                      "CPython astimezone protocol: utc = wall - utcoffset(); tz.fromutc(utc)",
                      "bisect.bisect_right = CPython's binary search (modelled, proved equal to counting on sorted lists)",
                      "struct.unpack big-endian decoding (modelled)"],
                     len(verdict.violations))
    print("%s %s: obligations %d/%d, %d zones (+%d synthetic), %d evaluations, model-diff %d, spec-diff %d, "
          "outside wf %d, %.1fs" % (cid, tier, props["discharged"], props["obligations"], len(zones), len(synth),
                                    evals, n_model_diff, n_spec_diff,
                                    len(outside_wf), time.time() - t0))
    return rc
