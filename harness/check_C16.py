#!/usr/bin/env python3
"""C16 -- relativedelta is a well-behaved value: normalised, comparable, hashable; operators.

Theorems: coq/rd/RdAlgThm.v (statements in coq/props/C16.v) over the hand model coq/rd/RdModel.v +
RdAlgModel.v; executable spec coq/rd/RdAlgSpec.v.  This check ties the model to the running
relativedelta class (differential correspondence through bin/oracle_rdalg), compares the
implementation with the extracted SPEC and with every LAW of the property itself, and turns a
disagreement into a replayable failing input.

Streams (every case is reproducible from VERIF_SEED and is JSON in the replay file):
  ctor   keyword constructor (int / weekday / weekday(n) forms, weeks, yearday, large signed
         fields) + every unary law on the constructed value
  prog   straight-line programs of operators (+ - neg abs * / normalized, timedelta) over 2-3
         constructed deltas; the model is chained on its own results
  pair   equality / hash / bool laws on pairs and triples (equal by construction, nearly
         equal, independent), equal deltas added to dates
  frac   years / months given as Fraction or float (rejected iff not integral)
  float  float-valued day/hour/... fields and normalized(): implementation against an exact
         rational reference and the laws only (NOT modelled in Coq: partial)
  diff   relativedelta(dt1, dt2), the other constructor form: normalised + every unary law
  foreign  == / - / * / / against operands that are not relativedeltas or numbers (laws only)
  nonfinite  inf / NaN arguments: years / months must give ValueError (open finding F-C16-inf-years), the rest
         is recorded
  huge   integer fields beyond the double range (outside the theorems' domain): OverflowError or float-free laws
A failing case is shrunk (keys dropped, integers moved toward 0, program steps dropped) while it
still violates the same law before it is written as the replay.
"""
import json
import math
import os
import sys
import time
import warnings
import datetime as _dt
from fractions import Fraction

sys.path.insert(0, os.path.dirname(os.path.abspath(__file__)))
import common as C

C.reexec_under_impl_python()
import rd_common as R

CID = "C16"
AREA = "rdalg"
VO = ["props/C16.vo", "gen/RdTables.vo", "rd/RdBase.vo", "rd/RdModel.vo", "rd/RdAlgModel.vo",
      "rd/RdAlgSpec.vo", "rd/RdAlgQModel.vo", "rd/RdGenBase.vo"]
E_MKFRAC, E_ROUNDTRIP, E_ADDTD, E_MULQ = 30, 31, 32, 33
S_FIX, S_EQB, S_PRED, S_CANON = 40, 41, 42, 43
E_CTORQ, E_NORMQ, E_NEGQ, E_ABSQ, E_ADDQ, E_SUBQ = 50, 51, 52, 53, 54, 55
EXACT_DENS = (1, 2, 4, 8, 16, 64, 256)   # float arithmetic of _fix / normalized() is exact on k/den
BASES = {"months": 12, "hours": 24, "minutes": 60, "seconds": 60, "microseconds": 10 ** 6}
EXACT = 1 << 52          # |x| below this: float products of integers are exact

warnings.simplefilter("ignore")


def RD():
    from dateutil.relativedelta import relativedelta
    return relativedelta


# ------------------------------------------------------------------ small helpers

def tot_us(rel):
    y, mo, d, h, mi, s, us = rel[:7]
    return (((d * 24 + h) * 60 + mi) * 60 + s) * 10 ** 6 + us


def tot_mo(rel):
    return rel[0] * 12 + rel[1]


def is_normal(rel):
    return (abs(rel[1]) < 12 and abs(rel[3]) < 24 and abs(rel[4]) < 60 and abs(rel[5]) < 60
            and abs(rel[6]) < 10 ** 6)


def no_rel(rel):
    return all(x == 0 for x in rel[:7])


def kw_rel_in(kw):
    """the seven relative values the constructor starts from (days + 7*weeks)"""
    v = [kw.get(a, 0) for a in R.REL]
    v[2] = v[2] + kw.get("weeks", 0) * 7
    return v


def fields_kw(d):
    """constructor arguments 'its own fields' (relative, leapdays, absolute, weekday)"""
    kw = {a: getattr(d, a) for a in R.REL}
    kw["leapdays"] = d.leapdays
    for a in R.ABS:
        kw[a] = getattr(d, a)
    kw["weekday"] = d.weekday
    return kw


def build(kw):
    try:
        return ("ok", RD()(**kw))
    except Exception as ex:
        return ("err", R.exc_code(ex))


def outcome(f):
    try:
        return ("ok", f())
    except Exception as ex:
        return ("err", R.exc_code(ex))


def proj_out(o):
    return ("ok", R.rd_proj(o[1])) if o[0] == "ok" else o


def dtout(o):
    return ("ok", R.dt_proj(o[1])) if o[0] == "ok" else o


def scalar_val(s):
    if s[0] == "int":
        return s[1]
    if s[0] == "float":
        return float.fromhex(s[1])
    return Fraction(s[1], s[2])


def pj(p):
    """projection -> JSON-friendly"""
    if isinstance(p, tuple) and len(p) == 3 and isinstance(p[0], tuple):
        return {"rel+leapdays": list(p[0]), "abs": list(p[1]), "weekday": None if p[2] is None else list(p[2])}
    if isinstance(p, tuple):
        return [pj(x) for x in p]
    return p


class Case:
    """collects what one case found"""

    def __init__(self, stream, inp):
        self.stream, self.inp = stream, inp
        self.viol = []        # (payload, concrete)
        self.notes = {}       # printed by --replay
        self.nontrivial = False
        self.tags = []

    def law(self, name, ok, **detail):
        """a law of the property evaluated on the IMPLEMENTATION"""
        if not ok:
            self.viol.append(({"kind": "implementation violates the property: " + name,
                               "input": self.inp, "stream": self.stream, "detail": detail}, True))
        return ok

    def spec(self, name, impl, spec):
        if impl != spec:
            self.viol.append(({"kind": "implementation differs from the executable specification: " + name,
                               "input": self.inp, "stream": self.stream, "impl": pj(impl), "spec": pj(spec)}, True))
            return False
        return True

    def model(self, name, impl, model):
        if impl != model:
            self.viol.append(({"kind": "correspondence: model differs from implementation: " + name,
                               "input": self.inp, "stream": self.stream, "impl": pj(impl), "model": pj(model)},
                              False))
            return False
        return True


def finalize(case):
    """a model/implementation disagreement is reported as 'no failing input found' only when no
    law / spec comparison of the same case failed (then the case itself is the failing input)"""
    conc = [v for v in case.viol if v[1]]
    return conc if conc else case.viol


# ------------------------------------------------------------------ independent reference for * and /

def fl(q):
    """the double nearest to the exact rational q (ties to even): Fraction -> float is one correctly
    rounded int / int division in CPython; OverflowError beyond the double range like float(int)"""
    return float(Fraction(q))


def ref_products(fields, k, op):
    """What `int(field * f)` is for f = float(k) (`*`) or f = 1 / float(k) (`/`), computed WITHOUT the float
    multiplication / division of the implementation: exact Fraction arithmetic, one correct rounding per IEEE
    operation (int -> double, the division, the product), then truncation toward zero.
    -> list of ints, or "OverflowError" / "ZeroDivisionError"."""
    try:
        f = fl(Fraction(k))
        if op == "div":
            if f == 0:
                return "ZeroDivisionError"
            f = fl(Fraction(1) / Fraction(f))
        out = []
        for x in fields:
            a = fl(Fraction(x))
            p = fl(Fraction(a) * Fraction(f))
            out.append(math.trunc(Fraction(p)))
        return out
    except OverflowError:
        return "OverflowError"


def mul_exact(fields, k):
    """the bound of coq/rd/RdAlgBound.v: k and every product fit 53 bits"""
    return abs(k) < (1 << 53) and all(abs(x * k) < (1 << 53) for x in fields)


# ------------------------------------------------------------------ generators

def gen_kw16(r):
    c = r.random()
    if c < 0.45:
        kw = R.gen_kwargs(r)
        mode = "mixed-sparse"
    elif c < 0.75:
        # every relative field set, one sign or mixed signs, values around the carry bases
        sign_mode = r.choice(["pos", "neg", "mixed"])
        kw = {}
        for name in R.REL:
            b = BASES.get(name, 7 if name == "days" else 1)
            k = r.choice([0, 0, 1, 1, 2, 3, r.randint(0, 50), r.randint(0, 10 ** 4)])
            v = b * k + r.choice([0, 0, 1, b - 1, b - 1, r.randint(0, max(b - 1, 1))])
            if sign_mode == "neg" or (sign_mode == "mixed" and r.random() < 0.5):
                v = -v
            if r.random() < 0.15:
                v = 0
            kw[name] = v
        if r.random() < 0.2:
            kw["weeks"] = r.randint(-60, 60)
        if r.random() < 0.3:
            kw["weekday"] = R.gen_weekday(r)
        if r.random() < 0.3:
            nm = r.choice(R.ABS)
            kw[nm] = R.gen_abs_value(r, nm)
        if r.random() < 0.15:
            kw["leapdays"] = r.choice([-1, 1, 2])
        mode = "dense-" + sign_mode
    elif c < 0.9:
        # exact boundaries of every carry
        kw = {}
        for name in R.REL:
            if r.random() < 0.6:
                b = BASES.get(name, 7)
                kw[name] = r.choice([-1, 1]) * r.choice([b - 1, b, b + 1, 2 * b - 1, 2 * b, 0, 1])
        mode = "boundary"
    elif c < 0.97:
        kw = R.gen_kwargs(r, p_rel=0.6, p_abs=0.4)
        mode = "mixed-dense"
    else:
        # around and above the float-exactness bound 2^53 (below 2^61, so the oracle can still follow)
        kw = {}
        for name in r.sample(R.REL, r.choice([1, 1, 2])):
            kw[name] = r.choice([-1, 1]) * (r.choice([1 << 53, 1 << 54, (1 << 60) - 7, 3 * (1 << 52)]) + r.choice([-2, -1, 0, 1, 2, 3]))
        mode = "around-2^53"
    return kw, mode


def gen_scalar(r):
    c = r.random()
    if c < 0.4:
        return ["int", r.choice([0, 1, -1, 2, -2, 3, 7, 10, -12, 24, 60, 100, -1000, r.randint(-50, 50)])]
    if c < 0.55:
        return ["float", float(r.randint(-40, 40)).hex()]                       # integral float
    if c < 0.75:
        return ["float", (r.randint(-200, 200) / r.choice([2, 4, 8, 16])).hex()]   # dyadic
    if c < 0.85:
        return ["float", r.choice([0.1, -0.1, 1 / 3, 2.5, -0.7, 1e-3, 1.1, 0.999999, 49.0, 1 / 49.0, 1e-9]).hex()]
    p, q = r.randint(-60, 60), r.randint(1, 12)
    return ["frac", p, q]


def gen_td(r):
    c = r.random()
    if c < 0.5:
        return [r.randint(-40, 40), r.randint(0, 86399), r.randint(0, 999999)]
    if c < 0.8:
        return [r.choice([-1, 0, 1]), r.choice([0, 59, 60, 3599, 3600, 86399]), r.choice([0, 1, 999999])]
    return [r.randint(-10 ** 6, 10 ** 6), r.randint(0, 86399), r.randint(0, 999999)]


# ------------------------------------------------------------------ stream: ctor

def check_ctor(o, kw, case=None):
    case = case or Case("ctor", {"kw": R.kw_json(kw)})
    enc = R.enc_kw(kw)
    if not R.fits(enc):
        case.tags.append("skipped-too-large")
        return case
    res = build(kw)
    impl = proj_out(res)
    reqs = [(R.E_MK, enc), (S_FIX, kw_rel_in(kw))]
    m_mk, s_fix = o.call_many(reqs)
    model = R.dec_res_rd(m_mk)
    case.notes.update({"impl": pj(impl), "model": pj(model), "spec_fix(relative inputs)": s_fix})
    if impl[0] != "ok":
        case.tags.append("ctor-raises")
        case.model("constructor outcome", impl, model)
        return case
    d, p = res[1], impl[1]
    if not R.proj_is_int(p):
        case.tags.append("non-int-fields")
        return case
    rel_in = kw_rel_in(kw)
    rel = p[0]
    case.nontrivial = (list(rel[:7]) != rel_in) or p[2] is not None or any(x is not None for x in p[1])
    if list(rel[:7]) != rel_in:
        case.tags.append("carried")
    # --- implementation against the executable spec and the laws
    case.spec("relative fields after construction = truncating carries of the arguments",
              list(rel[:7]), list(s_fix))
    case.law("fields normalised after construction", is_normal(rel), fields=list(rel))
    case.law("carries preserve the total duration", tot_us(rel) == tot_us(rel_in),
             before=tot_us(rel_in), after=tot_us(rel))
    case.law("carries preserve the total months", tot_mo(rel) == tot_mo(rel_in),
             before=tot_mo(rel_in), after=tot_mo(rel))
    if all(x >= 0 for x in rel_in):
        case.law("non-negative arguments give non-negative fields", all(x >= 0 for x in rel[:7]), fields=list(rel))
    if all(x <= 0 for x in rel_in):
        case.law("non-positive arguments give non-positive fields", all(x <= 0 for x in rel[:7]), fields=list(rel))
    case.model("constructor result", impl, model)
    unary_laws(o, case, d, p)
    return case


def unary_laws(o, case, d, p):
    """laws on one implementation value d (projection p): round trip, reflexivity, hash,
    bool, neg, d + (-d), d - d, abs, * 1 / 0 / -1, normalized; each also against the model"""
    ep = R.enc_proj(p)
    if not R.fits(ep):
        return
    d2 = build(fields_kw(d))
    nd = outcome(lambda: -d)
    nnd = outcome(lambda: -(-d))
    s = outcome(lambda: d + (-d))
    s2 = outcome(lambda: (-d) + d)
    z = outcome(lambda: d - d)
    a = outcome(lambda: abs(d))
    m1 = outcome(lambda: d * 1)
    m0 = outcome(lambda: d * 0)
    mm = outcome(lambda: d * -1)
    nz = outcome(lambda: d.normalized())
    outs = [d2, nd, nnd, s, s2, z, a, m1, m0, mm, nz]
    if any(x[0] != "ok" for x in outs):
        case.law("operators / reconstruction do not raise on a constructed delta", False,
                 outcomes=[x if x[0] != "ok" else "ok" for x in outs])
        return
    pn = R.rd_proj(nd[1])
    reqs = [(E_ROUNDTRIP, ep), (R.E_NEG, ep), (R.E_ADDRD, ep + R.enc_proj(pn)), (R.E_SUBRD, ep + ep),
            (R.E_ABS, ep), (R.E_MULINT, ep + [1]), (R.E_MULINT, ep + [0]), (R.E_MULINT, ep + [-1]),
            (R.E_NORMALIZED, ep), (R.E_BOOL, ep), (S_PRED, ep), (R.E_ADDRD, R.enc_proj(pn) + ep)]
    (m_rt, m_neg, m_add, m_sub, m_abs, m_m1, m_m0, m_mm, m_nz, m_bool, s_pred, m_add2) = o.call_many(reqs)
    # constructor round trip
    case.law("constructing a delta from its own fields gives an equal object",
             (d2[1] == d) and (d == d2[1]) and R.rd_proj(d2[1]) == p, rebuilt=pj(R.rd_proj(d2[1])))
    case.model("round trip mk(fields_of d)", ("ok", R.rd_proj(d2[1])), R.dec_res_rd(m_rt))
    # equality reflexive, hash stable
    case.law("d == d", (d == d) is True and (d != d) is False)
    case.law("equal deltas hash equal (rebuilt copy)", hash(d) == hash(d2[1]))
    # bool
    empty = bool(s_pred[2])
    case.spec("bool(d) is false exactly when no field is set", bool(d), not empty)
    case.model("bool", [1 if bool(d) else 0], m_bool)
    case.law("bool(d) is false exactly when d == relativedelta()", bool(d) == (not (d == RD()())))
    # neg
    case.law("-(-d) == d", (nnd[1] == d) and R.rd_proj(nnd[1]) == p, got=pj(R.rd_proj(nnd[1])))
    case.law("-d: totals negated", tot_us(pn[0]) == -tot_us(p[0]) and tot_mo(pn[0]) == -tot_mo(p[0]))
    case.law("-d normalised", is_normal(pn[0]))
    case.model("neg", pn, R.dec_rd(m_neg))
    # d + (-d), d - d
    for nm, val, mod in (("d + (-d)", s, m_add), ("(-d) + d", s2, m_add2), ("d - d", z, m_sub)):
        pv = R.rd_proj(val[1])
        case.law(nm + " has no relative part", no_rel(pv[0]), got=list(pv[0]))
        case.law(nm + " keeps leapdays, the absolute fields and the weekday of d",
                 (pv[0][7], pv[1], pv[2]) == (p[0][7], p[1], p[2]), got=pj(pv))
        case.model(nm, pv, R.dec_rd(mod))
    # abs
    pa = R.rd_proj(a[1])
    case.law("abs(d): fields non-negative and normalised", all(x >= 0 for x in pa[0][:7]) and is_normal(pa[0]),
             got=list(pa[0]))
    case.law("abs(d): total of |fields| preserved",
             tot_us(pa[0]) == tot_us([abs(x) for x in p[0][:7]]) and tot_mo(pa[0]) == tot_mo([abs(x) for x in p[0][:7]]))
    case.model("abs", pa, R.dec_rd(m_abs))
    # multiplication by 1, 0, -1: always against the independent float reference; the laws d*1 == d,
    # d*0, d*-1 == -d (theorem C16_scalar_mul_laws_bounded) only inside the bound mul_exact
    for kk, val, mod in ((1, m1, m_m1), (0, m0, m_m0), (-1, mm, m_mm)):
        prods = ref_products(p[0][:7], kk, "mul")
        if isinstance(prods, str):
            case.law("d * %d raises exactly when the reference says so" % kk, False, got=pj(R.rd_proj(val[1])))
            continue
        mw = R.dec_rd(o.call(R.E_MULWITH, ep + prods))
        case.model("d * %d = _fix of the reference float products" % kk, R.rd_proj(val[1]), mw)
    if mul_exact(p[0][:7], 1):
        case.law("d * 1 == d", m1[1] == d, got=pj(R.rd_proj(m1[1])))
        case.law("d * 0 has no relative part", no_rel(R.rd_proj(m0[1])[0]))
        case.law("d * -1 == -d", mm[1] == nd[1], got=pj(R.rd_proj(mm[1])))
        case.model("d * 1", R.rd_proj(m1[1]), R.dec_rd(m_m1))
        case.model("d * 0", R.rd_proj(m0[1]), R.dec_rd(m_m0))
        case.model("d * -1", R.rd_proj(mm[1]), R.dec_rd(m_mm))
    else:
        case.tags.append("fields-above-2^53")
    # normalized() on integer fields
    case.law("normalized() of an integer-valued delta is an equal delta", nz[1] == d, got=pj(R.rd_proj(nz[1])))
    case.model("normalized", R.rd_proj(nz[1]), R.dec_rd(m_nz))


# ------------------------------------------------------------------ stream: prog

OPS = ["neg", "abs", "add", "sub", "mul", "rmul", "div", "normalized", "add_td", "radd_td"]


def gen_prog(r):
    nreg = r.choice([1, 2, 2, 3])
    regs = []
    while len(regs) < nreg:
        kw, _ = gen_kw16(r)
        kw.pop("yearday", None)
        kw.pop("nlyearday", None)
        regs.append(R.kw_json(kw))
    steps = []
    n = nreg
    for _ in range(r.choice([1, 2, 3, 3, 4, 5, 6])):
        op = r.choice(OPS)
        i = r.randrange(n)
        if op in ("add", "sub"):
            steps.append([op, i, r.randrange(n)])
        elif op in ("mul", "rmul", "div"):
            sc = gen_scalar(r)
            if op == "div" and scalar_val(sc) == 0:
                sc = ["int", 2]
            steps.append([op, i, sc])
        elif op in ("add_td", "radd_td"):
            steps.append([op, i, gen_td(r)])
        else:
            steps.append([op, i])
        n += 1
    return {"regs": regs, "steps": steps}


def check_prog(o, prog, case=None):
    case = case or Case("prog", prog)
    impl_regs, model_regs = [], []
    for j in prog["regs"]:
        kw = R.kw_from_json(j)
        enc = R.enc_kw(kw)
        if not R.fits(enc):
            case.tags.append("skipped-too-large")
            return case
        res = build(kw)
        m = R.dec_res_rd(o.call(R.E_MK, enc))
        if res[0] != "ok" or m[0] != "ok":
            if not case.model("constructor outcome", proj_out(res), m):
                return case
            case.tags.append("ctor-raises")
            return case
        if not case.model("constructor result", R.rd_proj(res[1]), m[1]):
            return case
        impl_regs.append(res[1])
        model_regs.append(m[1])
    trace = []
    for st in prog["steps"]:
        op, i = st[0], st[1]
        d, mp = impl_regs[i], model_regs[i]
        em = R.enc_proj(mp)
        law_tot = None
        if op == "neg":
            res = outcome(lambda: -d)
            req = (R.E_NEG, em)
            law_tot = (-tot_us(mp[0]), -tot_mo(mp[0]))
        elif op == "abs":
            res = outcome(lambda: abs(d))
            req = (R.E_ABS, em)
            law_tot = (tot_us([abs(x) for x in mp[0][:7]]), tot_mo([abs(x) for x in mp[0][:7]]))
        elif op in ("add", "sub"):
            d2, mp2 = impl_regs[st[2]], model_regs[st[2]]
            if op == "add":
                res = outcome(lambda: d + d2)
                req = (R.E_ADDRD, em + R.enc_proj(mp2))
                law_tot = (tot_us(mp[0]) + tot_us(mp2[0]), tot_mo(mp[0]) + tot_mo(mp2[0]))
            else:
                res = outcome(lambda: d - d2)
                req = (R.E_SUBRD, em + R.enc_proj(mp2))
                law_tot = (tot_us(mp[0]) - tot_us(mp2[0]), tot_mo(mp[0]) - tot_mo(mp2[0]))
        elif op in ("mul", "rmul", "div"):
            k = scalar_val(st[2])
            f = float(k)
            if op == "div":
                f = 1 / f
                res = outcome(lambda: d / k)
            elif op == "mul":
                res = outcome(lambda: d * k)
            else:
                res = outcome(lambda: k * d)
            # the truncated float products come from the independent reference (exact rational arithmetic +
            # correct rounding), not from the implementation's own float expression
            prods = ref_products(mp[0][:7], k, op)
            if isinstance(prods, str):
                case.law("%s by %s raises %s exactly when the reference says so" % (op, st[2], prods),
                         res[0] == "err" and res[1] == {"OverflowError": 2}.get(prods, "EXC:" + prods), got=proj_out(res))
                case.tags.append("scalar-" + prods)
                break
            req = (R.E_MULWITH, em + prods)
            # exact rational scalar (int, dyadic float, Fraction with a power-of-two denominator; for /
            # only +-2^j): the model computes the truncated products itself
            f = float(k) if op != "div" else 1 / float(k)
            fq = Fraction(f)
            if (fq.denominator & (fq.denominator - 1)) == 0 and Fraction(k) == (fq if op != "div" else 1 / fq) \
                    and fq.denominator <= 1 << 20 and all(abs(x * fq.numerator) < EXACT for x in mp[0][:7]):
                mq = R.dec_rd(o.call(E_MULQ, em + [fq.numerator, fq.denominator]))
                case.model("%s by the exact scalar %s (mul_q)" % (op, fq), proj_out(res), ("ok", mq))
                case.tags.append("mul_q-compared")
            else:
                case.tags.append("scalar-reference-only")
            kk = None
            if op != "div" and Fraction(k).denominator == 1:
                kk = int(k)
                if mul_exact(mp[0][:7], kk):
                    law_tot = (kk * tot_us(mp[0]), kk * tot_mo(mp[0]))
                    # inside the bound mul_exact of RdAlgBound.v: the model's own product must agree as well
                    mi = R.dec_rd(o.call(R.E_MULINT, em + [kk]))
                    case.model("d * %d (exact products)" % kk, proj_out(res), ("ok", mi))
                else:
                    case.tags.append("int-scalar-above-2^53")
        elif op == "normalized":
            res = outcome(lambda: d.normalized())
            req = (R.E_NORMALIZED, em)
            law_tot = (tot_us(mp[0]), tot_mo(mp[0]))
        else:
            td = _dt.timedelta(days=st[2][0], seconds=st[2][1], microseconds=st[2][2])
            res = outcome((lambda: d + td) if op == "add_td" else (lambda: td + d))
            req = (E_ADDTD, em + [0, 0, st[2][0], 0, 0, st[2][1], st[2][2]])
            law_tot = (tot_us(mp[0]) + ((st[2][0] * 86400 + st[2][1]) * 10 ** 6 + st[2][2]), tot_mo(mp[0]))
        if not R.fits(req[1]):
            case.tags.append("truncated-too-large")
            break
        mres = R.dec_rd(o.call(*req))
        impl = proj_out(res)
        trace.append({"step": st, "impl": pj(impl), "model": pj(mres)})
        if impl[0] != "ok":
            case.law("operator %s does not raise" % op, False, step=st, outcome=impl)
            break
        p = impl[1]
        if not R.proj_is_int(p):
            case.law("operator %s keeps integer fields integer" % op, False, step=st, got=pj(p))
            break
        case.law("result of %s is normalised" % op, is_normal(p[0]), step=st, got=list(p[0]))
        if law_tot is not None:
            case.law("%s: carries preserve the totals" % op,
                     (tot_us(p[0]), tot_mo(p[0])) == law_tot, step=st, got=[tot_us(p[0]), tot_mo(p[0])],
                     expected=list(law_tot))
        if op == "abs":
            case.law("abs: fields non-negative", all(x >= 0 for x in p[0][:7]), got=list(p[0]))
        if not case.model("step %s" % (st,), p, mres):
            break
        impl_regs.append(res[1])
        model_regs.append(mres)
        case.tags.append(op)
    case.notes["trace"] = trace
    case.nontrivial = len(impl_regs) - len(prog["regs"]) >= 2
    return case


# ------------------------------------------------------------------ stream: pair

def wd_variants(w):
    """weekday arguments equal to w under the documented reading (n absent = 0 = +1)"""
    from dateutil._common import weekday
    if R.is_int(w):
        if not -7 <= w < 7:
            return [w]
        k = w % 7
        return [w, weekday(k), weekday(k, 1), weekday(k, 0), k]
    if w.n in (None, 0, 1):
        out = [weekday(w.weekday, None), weekday(w.weekday, 0), weekday(w.weekday, 1)]
        if 0 <= w.weekday <= 6:
            from dateutil.relativedelta import weekdays
            base = weekdays[w.weekday]                    # MO .. SU and the call form MO(n)
            out += [w.weekday, base, base(None), base(0), base(1), base(+1)(None)]
        return out
    if 0 <= w.weekday <= 6:
        from dateutil.relativedelta import weekdays
        return [w, weekday(w.weekday, w.n), weekdays[w.weekday](w.n)]
    return [w, weekday(w.weekday, w.n)]


def gen_pair(r):
    """(kind, kwA, kwB, kwC): kind says whether A == B is expected by construction"""
    from dateutil._common import weekday
    c = r.random()
    kw, _ = gen_kw16(r)
    kw.pop("yearday", None)
    kw.pop("nlyearday", None)
    if c < 0.3:
        if "weekday" not in kw or r.random() < 0.5:
            kw["weekday"] = weekday(r.randint(0, 6), r.choice([None, 0, 1, 1, None, 0, 2, -1]))
        vs = wd_variants(kw["weekday"])
        a, b, c3 = dict(kw), dict(kw), dict(kw)
        a["weekday"], b["weekday"], c3["weekday"] = r.choice(vs), r.choice(vs), r.choice(vs)
        return "equal-weekday-variants", a, b, c3
    if c < 0.45:
        # one-sign duration written in one unit or spread over the units
        sgn = r.choice([-1, 1])
        t = r.randint(0, 10 ** 7) if r.random() < 0.7 else r.randint(0, 10 ** 13)
        us = r.randint(0, 999999)
        a = {"seconds": sgn * t, "microseconds": sgn * us}
        b = {"days": sgn * (t // 86400), "hours": sgn * (t // 3600 % 24), "minutes": sgn * (t // 60 % 60),
             "seconds": sgn * (t % 60), "microseconds": sgn * us}
        c3 = {"minutes": sgn * (t // 60), "seconds": sgn * (t % 60), "microseconds": sgn * us}
        mo = r.randint(0, 500)
        a["months"] = sgn * mo
        b["years"], b["months"] = sgn * (mo // 12), sgn * (mo % 12)
        c3["years"], c3["months"] = sgn * (mo // 12 - (1 if mo >= 12 else 0)), sgn * (mo % 12 + (12 if mo >= 12 else 0))
        for x in (a, b, c3):
            for k2 in ("weekday", "year", "day", "leapdays"):
                if k2 in kw:
                    x[k2] = kw[k2]
        return "equal-units", a, b, c3
    if c < 0.55:
        a, b = dict(kw), dict(kw)
        w = a.pop("weeks", r.randint(-5, 5))
        a["weeks"] = w
        b.pop("weeks", None)
        b["days"] = b.get("days", 0) + 7 * w
        return "equal-weeks", a, b, dict(a)
    if c < 0.85:
        # nearly equal: exactly one thing differs
        b = dict(kw)
        what = r.choice(["rel", "rel", "abs", "absnone", "wd-n", "wd-k", "wd-none", "leapdays"])
        if what == "rel":
            nm = r.choice(R.REL)
            b[nm] = b.get(nm, 0) + r.choice([-1, 1])
        elif what == "abs":
            nm = r.choice(R.ABS)
            b[nm] = (b.get(nm) or 0) + 1
        elif what == "absnone":
            nm = r.choice(R.ABS)
            if b.get(nm) is None:
                b[nm] = 0
            else:
                b[nm] = None
        elif what == "leapdays":
            b["leapdays"] = b.get("leapdays", 0) + 1
        else:
            w = kw.get("weekday")
            if w is None or R.is_int(w):
                w = weekday(r.randint(0, 6), r.choice([None, 0, 1, 2, -1]))
                kw["weekday"] = w
            if what == "wd-n":
                n2 = r.choice([x for x in (None, 0, 1, 2, -1, -2, 3) if x != w.n])
                b["weekday"] = weekday(w.weekday, n2)     # may still be equal (None/0/1)
            elif what == "wd-k":
                b["weekday"] = weekday((w.weekday + 1) % 7, w.n)
            else:
                b["weekday"] = None
        return "near-" + what, dict(kw), b, dict(kw)
    kw2, _ = gen_kw16(r)
    kw2.pop("yearday", None)
    kw2.pop("nlyearday", None)
    kw3, _ = gen_kw16(r)
    kw3.pop("yearday", None)
    kw3.pop("nlyearday", None)
    return "independent", kw, kw2, kw3


def key_tuple(h):
    """the tuple the model says is handed to hash(): decoded from oracle entry E_HASH"""
    wdk = (h[1], h[2]) if h[0] else None
    rel = h[3:10]
    lp = h[10]
    ab = [h[12 + 2 * i] if h[11 + 2 * i] else None for i in range(7)]
    return (wdk,) + tuple(rel) + (lp,) + tuple(ab)


def py_eq(a, b):
    return outcome(lambda: (a == b, a != b))


def check_pair(o, inp, case=None):
    """inp = {"kind":, "a": kwjson, "b": kwjson, "c": kwjson, "dts": [dtjson...]}"""
    case = case or Case("pair", inp)
    kws = [R.kw_from_json(inp[k]) for k in ("a", "b", "c")]
    if not all(R.fits(R.enc_kw(k)) for k in kws):
        case.tags.append("skipped-too-large")
        return case
    bs = [build(k) for k in kws]
    if any(b[0] != "ok" for b in bs):
        case.tags.append("ctor-raises")
        return case
    A, B, Cc = [b[1] for b in bs]
    ps = [R.rd_proj(x) for x in (A, B, Cc)]
    if not all(R.proj_is_int(p) for p in ps):
        return case
    ea, eb, ec = [R.enc_proj(p) for p in ps]
    reqs = [(R.E_EQB, ea + eb), (R.E_EQB, eb + ea), (S_EQB, ea + eb), (R.E_HASH, ea), (R.E_HASH, eb),
            (S_CANON, ea), (S_CANON, eb), (R.E_EQB, eb + ec), (R.E_EQB, ea + ec), (S_EQB, eb + ec), (S_EQB, ea + ec)]
    (m_ab, m_ba, s_ab, h_a, h_b, c_a, c_b, m_bc, m_ac, s_bc, s_ac) = o.call_many(reqs)
    ab, ba, bc, ac = py_eq(A, B), py_eq(B, A), py_eq(B, Cc), py_eq(A, Cc)
    if any(x[0] != "ok" for x in (ab, ba, bc, ac)):
        case.law("== does not raise", False, outcomes=[ab, ba, bc, ac])
        return case
    eq_ab, eq_ba, eq_bc, eq_ac = ab[1][0], ba[1][0], bc[1][0], ac[1][0]
    case.notes.update({"a": pj(ps[0]), "b": pj(ps[1]), "c": pj(ps[2]), "impl a==b": eq_ab, "model eqb": m_ab,
                       "spec_eqb": s_ab, "hash(a)==hash(b)": hash(A) == hash(B),
                       "model hash_key a": h_a, "model hash_key b": h_b})
    wa, wb = A.weekday, B.weekday
    if wa is not None and wb is not None:
        same = (wa.weekday, wa.n) == (wb.weekday, wb.n)
        case.law("weekday objects: == iff same (weekday, n), != its negation, equal => equal hash",
                 (wa == wb) == same and (wa != wb) == (not same) and (not same or hash(wa) == hash(wb))
                 and wa(wa.n) is wa and (wa == 5) is False,
                 wa=[wa.weekday, wa.n], wb=[wb.weekday, wb.n])
    case.law("== returns a bool and != is its negation",
             all(isinstance(x[1][0], bool) and x[1][1] == (not x[1][0]) for x in (ab, ba, bc, ac)))
    case.law("== is symmetric", eq_ab == eq_ba, ab=eq_ab, ba=eq_ba)
    if eq_ab and eq_bc:
        case.law("== is transitive", eq_ac is True)
    if eq_ab:
        case.law("equal deltas hash equal", hash(A) == hash(B), hash_a=hash(A), hash_b=hash(B))
    if eq_bc:
        case.law("equal deltas hash equal", hash(B) == hash(Cc))
    # the implementation's hash is the hash of exactly the model's key tuple
    case.model("hash(a) == hash(model hash_key a)", hash(A), hash(key_tuple(h_a)))
    case.model("hash(b) == hash(model hash_key b)", hash(B), hash(key_tuple(h_b)))
    case.spec("a == b iff same canonical form", [int(eq_ab)], s_ab)
    case.spec("b == c iff same canonical form", [int(eq_bc)], s_bc)
    case.spec("a == c iff same canonical form", [int(eq_ac)], s_ac)
    case.model("eqb a b", [int(eq_ab)], m_ab)
    case.model("eqb b a", [int(eq_ba)], m_ba)
    case.model("eqb b c", [int(eq_bc)], m_bc)
    case.model("eqb a c", [int(eq_ac)], m_ac)
    # the model's hash key separates exactly what == separates (theorem eqb_iff_hash_key), and
    # the implementation's hash() must not separate equal keys
    if (h_a == h_b) != eq_ab:
        case.model("hash_key a = hash_key b iff a == b", eq_ab, h_a == h_b)
    if (c_a == c_b) != eq_ab:
        case.spec("canonical forms equal iff a == b", eq_ab, c_a == c_b)
    if inp["kind"].startswith("equal"):
        case.law("deltas equal by construction (%s) compare equal" % inp["kind"], eq_ab and eq_bc,
                 a=pj(ps[0]), b=pj(ps[1]), c=pj(ps[2]))
    case.nontrivial = (eq_ab and inp["a"] != inp["b"]) or inp["kind"].startswith("near")
    case.tags.append(inp["kind"] + ("/eq" if eq_ab else "/ne"))
    # equal deltas added to / subtracted from any date give the same result
    if eq_ab:
        for j in inp.get("dts", []):
            dt = R.dt_from_json(j)
            r1, r2 = outcome(lambda: dt + A), outcome(lambda: dt + B)
            q1, q2 = outcome(lambda: dt - A), outcome(lambda: dt - B)
            case.law("equal deltas added to a date give the same result", r1 == r2, dt=j,
                     a=dtout(r1), b=dtout(r2))
            case.law("equal deltas subtracted from a date give the same result", q1 == q2, dt=j,
                     a=dtout(q1), b=dtout(q2))
            if j.get("tz") is None:
                ma = R.dec_res_dt(o.call(R.E_ADD, ea + R.enc_dt(dt)))
                mb = R.dec_res_dt(o.call(R.E_ADD, eb + R.enc_dt(dt)))
                case.model("model: add_dt a dt = add_dt b dt", ma, mb)
                i1 = dtout(r1)
                if not (i1[0] == "err" and isinstance(i1[1], str)):
                    case.model("add_dt (date + delta)", i1, ma)
    return case


# ------------------------------------------------------------------ stream: frac

def gen_frac(r):
    def q():
        c = r.random()
        if c < 0.35:
            k = r.randint(-30, 30)
            m = r.randint(1, 9)
            return [k * m, m]                      # integral, unreduced
        if c < 0.7:
            return [r.randint(-100, 100), r.choice([2, 4, 8, 16, 3, 5, 7, 12])]
        return [r.randint(-10 ** 6, 10 ** 6), r.randint(1, 1000)]
    kw = R.gen_kwargs(r, allow_yearday=False)
    kw.pop("years", None)
    kw.pop("months", None)
    as_ = r.choice(["frac", "frac", "float"])
    if as_ == "float":
        def q2():
            c = r.random()
            if c < 0.4:
                return [r.randint(-40, 40), 1]
            return [r.randint(-200, 200), r.choice([2, 4, 8, 16])]
        return {"years": q2(), "months": q2(), "as": "float", "kw": R.kw_json(kw)}
    return {"years": q(), "months": q(), "as": as_, "kw": R.kw_json(kw)}


def check_frac(o, inp, case=None):
    case = case or Case("frac", inp)
    (yn, yd), (mn, md) = inp["years"], inp["months"]
    kw = R.kw_from_json(inp["kw"])
    as_float = inp["as"] == "float"
    if as_float:
        # only dyadic denominators are exact as floats
        for q in (yd, md):
            if q & (q - 1):
                as_float = False
    if as_float:
        y, m = yn / yd, mn / md
    else:
        y, m = Fraction(yn, yd), Fraction(mn, md)
    enc = R.enc_kw(kw)
    if not R.fits(enc):
        return case
    full = dict(kw)
    full["years"], full["months"] = y, m
    res = build(full)
    impl = proj_out(res)
    model = R.dec_res_rd(o.call(E_MKFRAC, [yn, yd, mn, md] + enc))
    integral = yn % yd == 0 and mn % md == 0
    case.notes.update({"impl": pj(impl), "model": pj(model), "integral": integral})
    case.tags.append(("float" if as_float else "Fraction") + ("/integral" if integral else "/non-integral"))
    case.nontrivial = True
    if not integral:
        case.law("non-integer years / months are rejected with ValueError", impl == ("err", 1), got=pj(impl))
    else:
        ikw = dict(kw)
        ikw["years"], ikw["months"] = yn // yd, mn // md
        ref = build(ikw)
        case.law("integral Fraction/float years and months behave like the integer",
                 ref[0] == impl[0] and (ref[0] != "ok" or (ref[1] == res[1] and R.rd_proj(ref[1]) == impl[1]
                                                          and hash(ref[1]) == hash(res[1]))),
                 got=pj(impl), expected=pj(proj_out(ref)))
        if impl[0] == "ok":
            case.law("years / months are stored as int", R.is_int(res[1].years) and R.is_int(res[1].months))
    case.model("constructor with rational years / months", impl, model)
    return case


# ------------------------------------------------------------------ stream: float (not modelled)

def gen_float(r):
    den = r.choice([1, 2, 4, 8, 8, 16, 64, 256, 1024]) if r.random() < 0.85 else 0
    kw = {}
    for nm in ("days", "hours", "minutes", "seconds", "microseconds"):
        if r.random() < 0.6:
            mag = {"days": 50, "hours": 100, "minutes": 200, "seconds": 200, "microseconds": 10 ** 6}[nm]
            if r.random() < 0.15:
                mag = {"days": 3, "hours": 24, "minutes": 60, "seconds": 60, "microseconds": 2 * 10 ** 6}[nm]
            if den and (nm != "microseconds" or r.random() < 0.4):
                kw[nm] = float(r.randint(-mag * den, mag * den)) / den
            elif den:
                kw[nm] = r.randint(-mag, mag)
            else:
                kw[nm] = r.uniform(-mag, mag) if nm != "microseconds" else r.randint(-mag, mag)
    if r.random() < 0.3:
        kw["years"] = r.randint(-3, 3)
        kw["months"] = r.randint(-14, 14)
    if r.random() < 0.2:
        kw["weekday"] = R.gen_weekday(r)
    if r.random() < 0.1:
        kw["leapdays"] = r.choice([-1, 1])
    if r.random() < 0.03:
        kw[r.choice(["hour", "second", "day"])] = r.choice([1.5, 2.0, 0.25])   # deprecated, warns; passed through
    out = {"den": den, "kw": {k: (v.hex() if isinstance(v, float) else v) for k, v in R.kw_json(kw).items()}}
    if den and "kw2" not in out and r.random() < 0.6:
        kw2 = {}
        for nm in ("days", "hours", "minutes", "seconds"):
            if r.random() < 0.5:
                kw2[nm] = float(r.randint(-60 * den, 60 * den)) / den
        if r.random() < 0.3:
            kw2["microseconds"] = r.randint(-10 ** 6, 10 ** 6)
        if r.random() < 0.2:
            kw2["months"] = r.randint(-14, 14)
        out["kw2"] = {k: (v.hex() if isinstance(v, float) else v) for k, v in kw2.items()}
    return out


def _unhex(j):
    kw = {}
    for k, v in j.items():
        kw[k] = float.fromhex(v) if isinstance(v, str) else v
    return R.kw_from_json(kw)


def check_float(o, inp, case=None):
    case = case or Case("float", inp)
    kw = _unhex(inp["kw"])
    res = build(kw)
    if res[0] != "ok":
        if not (R.is_int(kw.get("weekday")) and not -7 <= kw["weekday"] < 7):
            case.law("float-valued day/hour/... fields are accepted", False, got=res)
        return case
    d = res[1]
    nz = outcome(lambda: d.normalized())
    if nz[0] != "ok":
        case.law("normalized() does not raise", False, got=nz)
        return case
    n = nz[1]
    p = R.rd_proj(n)
    exact_in = sum(Fraction(getattr(d, nm)) * f for nm, f in
                   (("days", 86400 * 10 ** 6), ("hours", 3600 * 10 ** 6), ("minutes", 60 * 10 ** 6),
                    ("seconds", 10 ** 6), ("microseconds", 1)))
    case.notes.update({"constructed": pj(R.rd_proj(d)), "normalized": pj(p), "exact total us": str(exact_in)})
    case.law("normalized() returns integer relative fields", all(R.is_int(x) for x in p[0]), got=pj(p))
    if not all(R.is_int(x) for x in p[0]):
        return case
    case.law("normalized() result is normalised", is_normal(p[0]), got=list(p[0]))
    den = inp["den"]
    exact = den in EXACT_DENS
    abs_int = all(v is None or R.is_int(v) for v in R.rd_proj(d)[1])
    if exact and abs_int and not R.is_int(kw.get("weekday")):
        # rational idealisation (coq/rd/RdAlgQModel.v): numerators over den
        def num(v):
            f = Fraction(v) * den
            return int(f) if f.denominator == 1 else None
        nin = [kw.get("years", 0), kw.get("months", 0)] + [num(kw.get(nm, 0)) for nm in R.REL[2:]]
        pd = R.rd_proj(d)
        nimpl = [pd[0][0], pd[0][1]] + [num(v) for v in pd[0][2:7]]
        if None not in nin and None not in nimpl and R.is_int(pd[0][7]):
            e_in = R.enc_proj((tuple(nin) + (pd[0][7],), pd[1], pd[2]))
            if R.fits(e_in):
                mq = R.dec_rd(o.call(E_CTORQ, [den] + e_in))
                case.model("float-valued constructor (rational model, denominator %d)" % den,
                           (tuple(nimpl) + (pd[0][7],), pd[1], pd[2]), mq)
                mn = R.dec_rd(o.call(E_NORMQ, [den] + R.enc_proj(mq)))
                case.model("normalized() (rational model, denominator %d)" % den, p, mn)
                case.tags.append("rational-model-compared")

                def nproj(x):
                    px = R.rd_proj(x)
                    nums = [num(v) for v in px[0][2:7]]
                    if None in nums:
                        return None
                    return ((px[0][0], px[0][1]) + tuple(nums) + (px[0][7],), px[1], px[2])
                emq = R.enc_proj(mq)
                case.model("-d (rational model)", nproj(-d), R.dec_rd(o.call(E_NEGQ, [den] + emq)))
                case.model("abs(d) (rational model)", nproj(abs(d)), R.dec_rd(o.call(E_ABSQ, [den] + emq)))
                if "kw2" in inp:
                    d2 = build(_unhex(inp["kw2"]))
                    if d2[0] == "ok" and nproj(d2[1]) is not None:
                        e2 = R.enc_proj(nproj(d2[1]))
                        case.model("d + d2 (rational model)", nproj(d + d2[1]),
                                   R.dec_rd(o.call(E_ADDQ, [den] + emq + e2)))
                        case.model("d - d2 (rational model)", nproj(d - d2[1]),
                                   R.dec_rd(o.call(E_SUBQ, [den] + emq + e2)))
                        case.law("d + d2 normalised (float-valued)", all(
                            abs(v) < b for v, b in zip(R.rd_proj(d + d2[1])[0][1:7], (12, 10 ** 30, 24, 60, 60, 10 ** 6))))
                        case.tags.append("rational-binary-ops-compared")
        else:
            case.law("dyadic float fields stay dyadic with the same denominator", False, got=pj(pd))
    diff = abs(Fraction(tot_us(p[0])) - exact_in)
    case.law("normalized() preserves the total (%s)" % ("to half a microsecond" if exact else "to the microsecond"),
             diff <= (Fraction(1, 2) if exact else 1), total_after=tot_us(p[0]), exact_before=str(exact_in))
    case.law("normalized() keeps years/months/leapdays/absolute/weekday",
             (n.years, n.months, n.leapdays, n.weekday, n.year, n.day) == (d.years, d.months, d.leapdays, d.weekday, d.year, d.day))
    nn = outcome(lambda: n.normalized())
    case.law("normalized() is idempotent", nn[0] == "ok" and nn[1] == n)
    case.law("d == d, hash stable for float-valued fields", (d == d) and hash(d) == hash(build(kw)[1]))
    case.law("-(-d) == d for float-valued fields", -(-d) == d)
    case.law("d + (-d) has no relative part (float-valued fields)", no_rel(R.rd_proj(d + (-d))[0]),
             got=pj(R.rd_proj(d + (-d))))
    # integral floats are the same value as the integers
    if den == 1 and abs_int:
        ikw = {k: (int(v) if isinstance(v, float) else v) for k, v in kw.items()}
        di = build(ikw)[1]
        case.law("integral float fields: equal to and hashing like the integer-valued delta",
                 di == d and d == di and hash(di) == hash(d) and bool(di) == bool(d))
        # the model applies to the normalised integer value
        pi = R.rd_proj(di)
        if R.proj_is_int(pi) and R.fits(R.enc_proj(pi)):
            case.model("normalized() of integral floats", p, R.dec_rd(o.call(R.E_NORMALIZED, R.enc_proj(pi))))
    case.nontrivial = den != 1
    case.tags.append("den=%s" % den)
    return case



# ------------------------------------------------------------------ stream: diff (the other constructor form)

def gen_diff(r):
    kinds = r.choice([("date", "date"), ("naive", "naive"), ("date", "naive"), ("naive", "date")])
    a, b = R.gen_operand(r, kinds=(kinds[0],)), R.gen_operand(r, kinds=(kinds[1],))
    if r.random() < 0.3:
        # close together: same month / adjacent days
        try:
            b = a.replace(day=min(28, a.day)) if r.random() < 0.5 else b.replace(year=a.year, day=min(28, b.day))
        except (ValueError, TypeError):
            pass
    return {"dt1": R.dt_json(a), "dt2": R.dt_json(b)}


def check_diff(o, inp, case=None):
    case = case or Case("diff", inp)
    dt1, dt2 = R.dt_from_json(inp["dt1"]), R.dt_from_json(inp["dt2"])
    res = outcome(lambda: RD()(dt1, dt2))
    impl = proj_out(res)
    model = R.dec_res_rd(o.call(R.E_MKDIFF, R.enc_dt(dt1) + R.enc_dt(dt2)))
    case.notes.update({"impl": pj(impl), "model": pj(model)})
    if impl[0] != "ok":
        case.law("relativedelta(dt1, dt2) does not raise on two dates", False, got=impl)
        return case
    p = impl[1]
    case.law("relativedelta(dt1, dt2) has integer fields", R.proj_is_int(p), got=pj(p))
    if not R.proj_is_int(p):
        return case
    case.law("relativedelta(dt1, dt2) is normalised", is_normal(p[0]), got=list(p[0]))
    case.model("relativedelta(dt1, dt2)", impl, model)
    case.nontrivial = not no_rel(p[0])
    unary_laws(o, case, res[1], p)
    return case



# ------------------------------------------------------------------ stream: foreign operands (laws only)

FOREIGN = [5, 0, 1.5, "x", None, (1, 2), _dt.date(2000, 1, 1), object]


def gen_foreign(r):
    kw, _ = gen_kw16(r)
    kw.pop("yearday", None)
    kw.pop("nlyearday", None)
    return {"kw": R.kw_json(kw), "other": r.randrange(len(FOREIGN))}


def check_foreign(o, inp, case=None):
    """a relativedelta against something that is not a relativedelta / number: == is False (no
    exception), - and * / by a non-number raise TypeError.  Not part of the Coq model."""
    case = case or Case("foreign", inp)
    res = build(R.kw_from_json(inp["kw"]))
    if res[0] != "ok":
        return case
    d, x = res[1], FOREIGN[inp["other"]]
    eq = outcome(lambda: (d == x, x == d))
    if isinstance(x, _dt.date):
        return case
    case.law("d == <not a relativedelta> is False, without raising", eq == ("ok", (False, False)), got=repr(eq))
    sub = outcome(lambda: d - x)
    case.law("d - <not a relativedelta> raises TypeError", sub == ("err", "EXC:TypeError"), got=repr(sub))
    if x is None or isinstance(x, tuple) or x is object:
        mul = outcome(lambda: d * x)
        div = outcome(lambda: d / x)
        case.law("d * <not a number> and d / <not a number> raise TypeError",
                 mul == ("err", "EXC:TypeError") and div == ("err", "EXC:TypeError"), got=repr((mul, div)))
    case.law("hash(d) is an int and stable", isinstance(hash(d), int) and hash(d) == hash(d))
    case.nontrivial = True
    return case


# ------------------------------------------------------------------ stream: nonfinite (inf / NaN arguments)

def gen_nonfinite(r):
    field = r.choice(["years", "months", "years", "months"] + list(R.REL[2:]))
    kw = R.gen_kwargs(r, p_rel=0.2, p_abs=0.1, allow_yearday=False)
    kw.pop(field, None)
    kw.pop("weekday", None)
    return {"field": field, "value": r.choice(["inf", "-inf", "nan"]), "kw": R.kw_json(kw)}


def check_nonfinite(o, inp, case=None):
    """inf / NaN arguments (not modelled in Coq).  years / months: the property demands ValueError for every
    non-integer value.  Other relative fields: the constructor's behaviour is recorded (NaN fields make a delta
    unequal to itself -- outside the domain 'finite values', stated in notes/rdalg.md), never a violation."""
    case = case or Case("nonfinite", inp)
    kw = R.kw_from_json(inp["kw"])
    kw[inp["field"]] = float(inp["value"])
    res = build(kw)
    case.notes.update({"outcome": res[0] if res[0] == "ok" else ("err", res[1])})
    case.nontrivial = True
    if inp["field"] in ("years", "months"):
        case.law("non-integer years / months are rejected with ValueError", res == ("err", 1),
                 got=(res[0] if res[0] == "ok" else ["err", res[1]]), field=inp["field"], value=inp["value"])
        case.tags.append("years/months=%s -> %s" % (inp["value"], "ok" if res[0] == "ok" else R.ERRNAME.get(res[1], res[1])))
        return case
    if res[0] != "ok":
        case.tags.append("%s -> %s" % (inp["value"], R.ERRNAME.get(res[1], res[1])))
        return case
    d = res[1]
    refl = outcome(lambda: d == d)
    case.tags.append("%s=%s -> ok, d==d %s" % ("field", inp["value"], refl[1] if refl[0] == "ok" else refl))
    return case


# ------------------------------------------------------------------ stream: huge (integers beyond the double range)

HUGE = [10 ** 400, -10 ** 400, 2 ** 1024, 2 ** 1024 - 1, -(2 ** 1024), 10 ** 309, 2 ** 1023]


def gen_huge(r):
    kw = {r.choice(R.REL): r.choice(HUGE)}
    if r.random() < 0.4:
        kw[r.choice(R.REL)] = r.choice(HUGE + [1, -1, 59, 60])
    return {"kw": kw}


def check_huge(o, inp, case=None):
    """Python ints beyond the double range: outside the domain of the theorems (RdAlgBound.float_range).  The
    code may raise OverflowError (copysign / float()); any other exception class, or a failing float-free law
    on a delta that was constructed, is reported."""
    case = case or Case("huge", inp)
    res = build(dict(inp["kw"]))
    if res[0] != "ok":
        case.law("a huge integer field is accepted or raises OverflowError (nothing else)", res[1] == 2, got=res[1])
        case.tags.append("constructor -> " + str(R.ERRNAME.get(res[1], res[1])))
        return case
    d = res[1]
    case.tags.append("constructor -> ok")
    for nm, f in (("d == d", lambda: d == d), ("-(-d) == d", lambda: -(-d) == d),
                  ("d + (-d) has no relative part", lambda: no_rel(R.rd_proj(d + (-d))[0])),
                  ("d - d has no relative part", lambda: no_rel(R.rd_proj(d - d)[0])),
                  ("hash stable", lambda: hash(d) == hash(build(dict(inp["kw"]))[1])), ("bool(d)", lambda: bool(d) is True)):
        r1 = outcome(f)
        if r1[0] == "ok":
            case.law(nm + " (huge fields)", r1[1] is True)
        else:
            case.law(nm + " raises only OverflowError (huge fields)", r1[1] == 2, got=r1[1])
    m = outcome(lambda: d * 1)
    case.tags.append("d * 1 -> " + ("ok" if m[0] == "ok" else str(R.ERRNAME.get(m[1], m[1]))))
    if m[0] != "ok":
        case.law("d * 1 raises only OverflowError (huge fields)", m[1] == 2, got=m[1])
    case.nontrivial = True
    return case


# ------------------------------------------------------------------ driver

CHECKS = {"ctor": lambda o, inp: check_ctor(o, R.kw_from_json(inp["kw"])),
          "prog": check_prog, "pair": check_pair, "frac": check_frac, "float": check_float,
          "diff": check_diff, "foreign": check_foreign, "nonfinite": check_nonfinite, "huge": check_huge}


def gen_case(stream, r):
    if stream == "ctor":
        kw, mode = gen_kw16(r)
        return {"kw": R.kw_json(kw)}, mode
    if stream == "prog":
        return gen_prog(r), None
    if stream == "pair":
        kind, a, b, c3 = gen_pair(r)
        dts = [R.dt_json(R.gen_operand(r)) for _ in range(2)] if r.random() < 0.5 else []
        return {"kind": kind, "a": R.kw_json(a), "b": R.kw_json(b), "c": R.kw_json(c3), "dts": dts}, kind
    if stream == "frac":
        return gen_frac(r), None
    if stream == "diff":
        return gen_diff(r), None
    if stream == "foreign":
        return gen_foreign(r), None
    if stream == "nonfinite":
        return gen_nonfinite(r), None
    if stream == "huge":
        return gen_huge(r), None
    return gen_float(r), None



# ------------------------------------------------------------------ coverage of the anchored code

ANCHOR_RANGES = {"relativedelta.py": [(171, 263), (283, 362), (411, 583), (601, 602)],
                 "_common.py": [(6, 31)]}


def measure_anchor_coverage(n_per_stream=250):
    """line/branch coverage (coverage.py API) of the anchored source ranges while a sample of every
    stream runs in this process; shows in the evidence when a generator stops exercising a branch"""
    try:
        import coverage
    except ImportError:
        return {"error": "coverage module not available"}
    files = {k: os.path.join(C.SRC, "dateutil", k) for k in ANCHOR_RANGES}
    cov = coverage.Coverage(branch=True, include=list(files.values()), data_file=None)
    o = C.Oracle(AREA)
    cov.start()
    try:
        for stream in CHECKS:
            r = C.rng("C16/coverage/" + stream)
            for _ in range(n_per_stream):
                inp, _m = gen_case(stream, r)
                try:
                    CHECKS[stream](o, inp)
                except Exception:
                    pass
        for inp in small_scope_pairs()[:60]:
            check_pair(o, inp)
        for inp in small_scope_ctor()[-20:]:
            CHECKS["ctor"](o, inp)
    finally:
        cov.stop()
        o.close()
    out = {}
    for name, path in files.items():
        try:
            an = cov._analyze(path)
            stm, missing = set(an.statements), set(an.missing)
            arcs_missing = an.missing_branch_arcs()
        except Exception as ex:
            out[name] = {"error": repr(ex)}
            continue
        inr = lambda ln: any(a <= ln <= b for a, b in ANCHOR_RANGES[name])
        st_in = sorted(x for x in stm if inr(x))
        miss_in = sorted(x for x in missing if inr(x))
        br_missing = sorted((src, dst) for src, dsts in arcs_missing.items() if inr(src) for dst in dsts)
        out[name] = {"anchored_ranges": ANCHOR_RANGES[name], "statements": len(st_in),
                     "statements_executed": len(st_in) - len(miss_in), "missing_lines": miss_in,
                     "missing_branch_arcs": [list(x) for x in br_missing]}
    return out


# ------------------------------------------------------------------ shrinking

def _kw_candidates(kw):
    for k in list(kw):
        c = dict(kw)
        del c[k]
        yield c
    for k, v in kw.items():
        if R.is_int(v) and v != 0:
            for nv in (0, int(v / 2), v - (1 if v > 0 else -1)):
                if nv != v:
                    c = dict(kw)
                    c[k] = nv
                    yield c
        elif isinstance(v, dict) and v.get("n") not in (None,):
            c = dict(kw)
            c[k] = {"weekday": v["weekday"], "n": None}
            yield c


def candidates(stream, inp):
    if stream in ("ctor", "frac", "float"):
        for c in _kw_candidates(inp["kw"]):
            if stream == "float" and any(isinstance(v, int) and k != "microseconds" and k in ("days", "hours", "minutes", "seconds")
                                         for k, v in c.items()):
                continue
            n = dict(inp)
            n["kw"] = c
            yield n
    elif stream == "pair":
        if inp.get("dts"):
            n = dict(inp)
            n["dts"] = inp["dts"][:-1]
            yield n
        for which in ("a", "b", "c"):
            for c in _kw_candidates(inp[which]):
                n = dict(inp)
                n[which] = c
                yield n
        for k in set(inp["a"]) & set(inp["b"]) & set(inp["c"]):
            n = dict(inp)
            for which in ("a", "b", "c"):
                n[which] = {kk: vv for kk, vv in inp[which].items() if kk != k}
            yield n
    elif stream == "prog":
        for cut in range(len(inp["steps"]) - 1, 0, -1):
            yield {"regs": inp["regs"], "steps": inp["steps"][:cut]}
        nreg = len(inp["regs"])
        for j in range(len(inp["steps"]) - 1):
            # drop step j if no later step uses its result
            idx = nreg + j
            later = inp["steps"][j + 1:]
            if any(st[1] == idx or (st[0] in ("add", "sub") and st[2] == idx) for st in later):
                continue
            def ren(st):
                st = list(st)
                if st[1] > idx:
                    st[1] -= 1
                if st[0] in ("add", "sub") and st[2] > idx:
                    st[2] -= 1
                return st
            yield {"regs": inp["regs"], "steps": inp["steps"][:j] + [ren(st) for st in later]}
        for i, kw in enumerate(inp["regs"]):
            for c in _kw_candidates(kw):
                regs = list(inp["regs"])
                regs[i] = c
                yield {"regs": regs, "steps": inp["steps"]}


def shrink(o, stream, inp, kind, budget=400):
    """greedy: accept any simpler input that still gives a concrete violation of the same kind"""
    cur, used = inp, 0
    progress = True
    while progress and used < budget:
        progress = False
        for cand in candidates(stream, cur):
            used += 1
            if used > budget:
                break
            try:
                case = CHECKS[stream](o, cand)
            except Exception:
                continue
            if any(c and p["kind"] == kind for p, c in case.viol):
                cur, progress = cand, True
                break
    return cur, used



def small_scope_ctor():
    """exhaustive small scope: one relative field at a time, every value in [-2*base-1, 2*base+1]
    (every carry boundary with both signs), crossed with a neighbour field in {-1, 0, 1}"""
    out = []
    for nm, up in (("microseconds", "seconds"), ("seconds", "minutes"), ("minutes", "hours"),
                   ("hours", "days"), ("months", "years"), ("days", "weeks")):
        b = BASES.get(nm, 7)
        vals = list(range(-2 * b - 1, 2 * b + 2)) if b < 1000 else \
            [s * (k * b + e) for s in (-1, 1) for k in (0, 1, 2) for e in (-1, 0, 1, b - 1)]
        for v in vals:
            for u in (-1, 0, 1):
                out.append({"kw": {nm: v, up: u}})
    for yd in (1, 31, 32, 59, 60, 61, 365, 366, 367, -1):
        out.append({"kw": {"yearday": yd}})
        out.append({"kw": {"nlyearday": yd}})
    return out


def small_scope_pairs():
    """exhaustive small scope for equality/hash: weekday k in 0..1, n in {None,0,1,2,-1} on both
    sides (25 x 4 pairs) + int forms"""
    out = []
    ns = [None, 0, 1, 2, -1]
    for k1 in (0, 1):
        for k2 in (0, 1):
            for n1 in ns:
                for n2 in ns:
                    for n3 in (None, 1, 2):
                        out.append({"kind": "small-scope", "a": {"weekday": {"weekday": k1, "n": n1}, "days": 1},
                                    "b": {"weekday": {"weekday": k2, "n": n2}, "days": 1},
                                    "c": {"weekday": {"weekday": k2, "n": n3}, "days": 1},
                                    "dts": [{"v": ["date", 2024, 2, 28], "tz": None}]})
    for k in range(-7, 7):
        out.append({"kind": "small-scope", "a": {"weekday": k}, "b": {"weekday": {"weekday": k % 7, "n": None}},
                    "c": {"weekday": {"weekday": k % 7, "n": 1}}, "dts": []})
    return out


def run_job(job):
    stream, tag, n, fixed = job
    import hashlib
    o = C.Oracle(AREA)
    r = C.rng("C16/%s/%s" % (stream, tag))
    stats = {"evaluations": 0, "nontrivial_keys": set(), "tags": {}, "viol": [], "samples": [], "modes": {}}
    fn = CHECKS[stream]
    items = fixed if fixed is not None else None
    count = len(items) if items is not None else n
    for idx in range(count):
        if items is not None:
            inp, mode = items[idx], "fixed"
        else:
            inp, mode = gen_case(stream, r)
        try:
            case = fn(o, inp)
        except Exception as ex:   # harness/oracle failure: fail closed, not silently
            import traceback
            stats["viol"].append(({"kind": "check raised %s: %s" % (type(ex).__name__, ex), "input": inp,
                                   "stream": stream, "trace": traceback.format_exc()[-1500:]}, False))
            o.close()
            o = C.Oracle(AREA)
            continue
        stats["evaluations"] += 1
        if mode:
            stats["modes"][mode] = stats["modes"].get(mode, 0) + 1
        for t in case.tags:
            stats["tags"][t] = stats["tags"].get(t, 0) + 1
        if case.nontrivial:
            key = hashlib.blake2b(json.dumps(inp, sort_keys=True).encode(), digest_size=8).digest()
            stats["nontrivial_keys"].add(key)
        v = finalize(case)
        if v and len(stats["viol"]) < 20:
            stats["viol"].extend(v[:3])
        if len(stats["samples"]) < 2 and case.nontrivial and idx % 97 == 0:
            stats["samples"].append({"stream": stream, "input": inp, "observed": case.notes})
    o.close()
    stats["nontrivial_keys"] = b"".join(sorted(stats["nontrivial_keys"]))
    return stream, stats


BUDGET = {   # cases per stream
    "quick": {"ctor": 20000, "prog": 18000, "pair": 18000, "frac": 4000, "float": 5000, "diff": 4000, "foreign": 600, "nonfinite": 600, "huge": 300},
    "thorough": {"ctor": 900000, "prog": 800000, "pair": 900000, "frac": 150000, "float": 250000, "diff": 150000, "foreign": 5000, "nonfinite": 5000, "huge": 2000},
}


def translator_errors():
    """TRANSLATE-ERROR markers the translator left in the regenerated file"""
    path = os.path.join(C.COQ, "gen", "RdMethodsGen.v")
    try:
        txt = open(path).read()
    except OSError:
        return ["coq/gen/RdMethodsGen.v missing"]
    import re
    return [m.strip() for m in re.findall(r"\(\* TRANSLATE-ERROR (.*?) \*\)", txt, flags=re.S)]


def load_corpus():
    path = os.path.join(C.VERIF, "corpus", "regressions", CID + ".jsonl")
    out = []
    if os.path.exists(path):
        for line in open(path):
            line = line.strip()
            if line and not line.startswith("#"):
                out.append(json.loads(line))
    return out


def replay(path):
    data = json.load(open(path))
    C.ensure_built([AREA], VO)
    o = C.Oracle(AREA)
    inp, stream = data.get("input"), data.get("stream")
    if inp is None or stream not in CHECKS:
        print("replay names a broken obligation, no concrete input:", json.dumps(data, indent=1)[:3000])
        return 0
    case = CHECKS[stream](o, inp)
    print("stream   ", stream)
    print("input    ", json.dumps(inp))
    for k, v in case.notes.items():
        print("%-10s" % k, json.dumps(v, default=str))
    v = finalize(case)
    if not v:
        print("result    no violation on the current tree")
    for payload, conc in v:
        print("VIOLATES " if conc else "DIFFERS  ", payload["kind"], json.dumps(
            {k: payload[k] for k in payload if k in ("impl", "model", "spec", "detail")}, default=str))
    o.close()
    return 0


def m_inf_years(payload):
    """F-C16-inf-years: years / months = +-inf raise OverflowError instead of ValueError"""
    d = payload.get("detail") or {}
    return (payload.get("stream") == "nonfinite" and "rejected with ValueError" in payload.get("kind", "")
            and d.get("field") in ("years", "months") and d.get("value") in ("inf", "-inf") and d.get("got") == ["err", 2])


MATCHERS = {"inf_years_overflow": m_inf_years}


def main():
    argv = sys.argv[1:]
    if "--replay" in argv:
        return replay(argv[argv.index("--replay") + 1])
    tier = C.tier_from_argv(argv)
    t0 = time.time()
    verdict = C.Verdict(CID, MATCHERS)
    build_err = None
    build_log_tail = ""
    terrs_early = []
    try:
        _ok, blog = C.ensure_built([AREA], VO)
        errs = [l for l in blog.splitlines() if "Error" in l or "RdGenThm" in l or "TRANSLATE-ERROR" in l]
        build_log_tail = "\n".join(errs[-25:])
        # read at once: coq/gen is shared with concurrently running checks that regenerate it
        terrs_early = sorted(set([l.split("TRANSLATE-ERROR ", 1)[1].strip() for l in blog.splitlines()
                                  if l.startswith("TRANSLATE-ERROR ")] + translator_errors()))
    except C.BuildError as ex:
        build_err = ex
    if build_err is not None:
        props = {"obligations": 1, "discharged": 0, "theorems": [], "assumptions": {},
                 "cmd": "coqc props/C16.v", "log": build_err.log, "ok": False}
    else:
        props = C.compile_props(CID)
    # compile_props regenerates coq/gen from the tree under test, makes props/C16.vo and compiles it under
    # one hold of the build lock; the translators' TRANSLATE-ERROR lines are in its log when it fails
    priv_gen = None
    if not props["ok"]:
        terrs_early = sorted(set(terrs_early + [l.split("TRANSLATE-ERROR ", 1)[1].strip()
                                                for l in props["log"].splitlines() if l.startswith("TRANSLATE-ERROR ")]))
    else:
        terrs_early = []
    have_oracle = os.path.exists(os.path.join(C.BIN, "oracle_" + AREA))
    totals = {}
    allviol = []
    samples = []
    keys = set()
    exhaustive_counts = {}
    if have_oracle:
        procs = R.nprocs(tier)
        jobs = []
        corpus = load_corpus()
        by_stream = {}
        for e in corpus:
            by_stream.setdefault(e["stream"], []).append(e["input"])
        for s, items in by_stream.items():
            jobs.append((s, "corpus", 0, items))
        ss_c, ss_p = small_scope_ctor(), small_scope_pairs()
        exhaustive_counts = {"ctor small scope (one field x neighbour, all carry boundaries)": len(ss_c),
                             "pair small scope (weekday k,n forms on both sides)": len(ss_p)}
        jobs.append(("ctor", "small", 0, ss_c))
        jobs.append(("pair", "small", 0, ss_p))
        for s, n in BUDGET[tier].items():
            parts = max(1, min(procs * 3, n // 2000))
            for k in range(parts):
                jobs.append((s, "%s-%d" % (tier, k), n // parts, None))
        results = R.pool_map(run_job, jobs, procs)
        for stream, st in results:
            t = totals.setdefault(stream, {"evaluations": 0, "tags": {}, "modes": {}})
            t["evaluations"] += st["evaluations"]
            R.merge_hist(t["tags"], st["tags"])
            R.merge_hist(t["modes"], st["modes"])
            allviol.extend(st["viol"])
            if len(samples) < 10:
                samples.extend(st["samples"][:1])
            blob = st["nontrivial_keys"]
            for i in range(0, len(blob), 8):
                keys.add((stream, blob[i:i + 8]))
    n_model = n_conc = 0
    seen_kinds = {}
    shrinker = C.Oracle(AREA) if (have_oracle and allviol) else None
    for payload, conc in allviol:
        if conc:
            n_conc += 1
        else:
            n_model += 1
        k = (payload["kind"], conc)
        seen_kinds[k] = seen_kinds.get(k, 0) + 1
        if seen_kinds[k] <= 2 and len(verdict.violations) < 8:
            if conc and shrinker is not None and payload.get("stream") in CHECKS and seen_kinds[k] == 1:
                try:
                    small, used = shrink(shrinker, payload["stream"], payload["input"], payload["kind"])
                    if small != payload["input"]:
                        case = CHECKS[payload["stream"]](shrinker, small)
                        for p2, c2 in case.viol:
                            if c2 and p2["kind"] == payload["kind"]:
                                p2 = dict(p2)
                                p2["shrunk_from"] = payload["input"]
                                p2["shrink_evaluations"] = used
                                payload = p2
                                break
                except Exception as ex:
                    payload = dict(payload, shrink_error=repr(ex))
            verdict.violation(payload, concrete=conc)
    if shrinker is not None:
        shrinker.close()
    terrs = terrs_early
    if not props["ok"]:
        # reported ALWAYS (also next to concrete failing inputs found by the streams): the regenerated
        # definitions no longer match the hand model, or the translator rejected the source
        undis = props["theorems"][props["discharged"]:]
        gen_broken = [n for n in undis if n.startswith("C16_gen_")]
        what = ("translator harness/gen_rd_methods.py rejected the source: " + "; ".join(terrs)) if terrs else \
            ("regenerated definitions (coq/gen/RdMethodsGen.v) no longer equal the hand model: "
             "coq/rd/RdGenThm.v does not compile" if gen_broken and len(gen_broken) == len(undis) else
             "props/C16.v does not compile")
        payload = {"kind": "broken proof obligation: " + what, "theorem_file": "coq/props/C16.v",
                   "undischarged": undis, "discharged": props["discharged"], "translator_errors": terrs,
                   "input": None, "log_tail": (build_log_tail + "\n" + props["log"])[-3500:]}
        verdict.violations.insert(0, (payload, False))
    if not have_oracle and not verdict.violations:
        verdict.violation({"kind": "oracle_rdalg missing (build failed)", "input": None}, concrete=False)
    rc = verdict.finish()
    anchor_cov = measure_anchor_coverage() if have_oracle else {}
    evals = sum(t["evaluations"] for t in totals.values())
    partial = [n for n in props["theorems"] if n.endswith("_partial")]
    cov = {
        "evaluations": evals,
        "distinct_nontrivial": len(keys),
        "rule": "cases are generated from VERIF_SEED per stream (ctor/prog/pair/frac/float), plus the regression "
                "corpus and two exhaustive small-scope streams; distinct = distinct JSON input (8-byte hash); "
                "non-trivial: ctor = a carry happened or a weekday/absolute field is present; prog = at least two "
                "operator steps completed; pair = the two deltas compare equal although their constructor "
                "arguments differ, or they differ in exactly one field; frac = every case; float = non-integral "
                "float fields",
        "samples": samples[:10],
        "input_distribution": {s: {"evaluations": t["evaluations"], "modes": t["modes"], "tags": t["tags"]}
                               for s, t in totals.items()},
        "exhaustive": False,
        "small_scope_exhaustive": exhaustive_counts,
        "anchored_code_coverage_of_a_sample": anchor_cov,
        "model_vs_impl_disagreements": n_model,
        "law_or_spec_violations_on_impl": n_conc,
        "partial_theorems": partial,
        "regenerated_from_source": {
            "file": "coq/gen/RdMethodsGen.v (harness/gen_rd_methods.py, every run)",
            "methods": "_sign, _fix, _set_months, __neg__, __abs__, __bool__/__nonzero__, __eq__, __hash__, "
                       "__ne__, __add__/__sub__ (relativedelta operand), __add__ (timedelta operand), __mul__/__rmul__ "
                       "(integer factor), normalized() on integer fields, the keyword path of __init__ (head here, "
                       "yearday conversion by harness/gen_rd_add.py, composed in rd/RdGenInitThm.v), "
                       "_common.weekday.__init__/__call__, "
                       "_common.weekday.__eq__/__hash__",
            "translator_errors": terrs,
            "gen_obligations": [n for n in props["theorems"] if n.startswith("C16_gen_")],
            "gen_obligations_discharged": [n for n in props["theorems"][:props["discharged"]]
                                           if n.startswith("C16_gen_")]},
        "differential_only": ["float-valued relative fields (days=1.5 ...) and normalized()'s rounding cascade: "
                              "modelled only as exact rationals (coq/rd/RdAlgQModel.v, compared for dyadic values with "
                              "denominator <= 256); float rounding beyond that is compared with an exact rational "
                              "total and the laws only",
                              "* and / by float / Fraction scalars that are not exact dyadic rationals, and by integers with a "
                              "product >= 2^53: the products int(field * f) come from an independent reference (Fraction "
                              "arithmetic + correct rounding), the model only applies _fix to them (tags scalar-reference-only, "
                              "int-scalar-above-2^53, fields-above-2^53)"],
        "known_findings_hit": verdict.known_hits,
    }
    C.write_evidence(CID, tier, t0, props, cov,
                     ["tie model <-> code: the straight-line integer methods are regenerated from /repo's source on every "
                      "run (harness/gen_rd_methods.py -> coq/gen/RdMethodsGen.v) and proved equal to the hand model "
                      "(C16_gen_*); trusted: the translator's accepted subset and its INTEGER reading of float-mediated "
                      "operations (_sign/copysign valid for |x| < 2^1024, int(field * float(k)) for products below 2^53: "
                      "bounds stated in the theorems, both sides exercised by this check); everything else (timedelta/"
                      "date operands, /, float and Fraction scalars, float-valued fields) by differential correspondence",
                      "hash(): CPython's tuple/int hash maps equal keys to equal hashes (the implementation's "
                      "hash() is also compared directly on every equal pair)",
                      "float arithmetic of CPython is not modelled in Coq: * and / by float / Fraction scalars and by integers "
                      "above the 2^53 bound are compared with an independent Python reference (exact Fraction arithmetic "
                      "with one correct rounding per IEEE operation), normalized() on float fields with an exact rational "
                      "total; inf / NaN arguments: observed and classified (stream nonfinite)"],
                     len(verdict.violations))
    print("C16 %s: obligations %d/%d, %d cases (%d distinct non-trivial), model-diff %d, law/spec violations %d, %.1fs"
          % (tier, props["discharged"], props["obligations"], evals, len(keys), n_model, n_conc, time.time() - t0))
    return rc


if __name__ == "__main__":
    sys.exit(main())
