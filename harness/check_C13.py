#!/usr/bin/env python3
"""C13 -- rrulestr and str(rrule) are inverse; RFC text means the same as keywords.
Model (coq/rstr) + theorems (coq/props/C13.v) + correspondence with the real library."""
import calendar
import datetime
import json
import os
import re
import sys
import time

sys.path.insert(0, os.path.dirname(os.path.abspath(__file__)))
import common as C

# A local zone other than UTC: under TZ=UTC the generic parser reads 'Z' as tzlocal() (its zone
# name is in time.tzname), elsewhere as tz.UTC, which is the case the property talks about.
if os.environ.get("VERIF_REEXEC") != "1":
    os.environ["TZ"] = "Europe/Berlin"
C.reexec_under_impl_python()
import rstr_common as K  # noqa: E402

CID = "C13"
VO = ["props/C13.vo", "rstr/RstrPrim.vo", "rstr/RstrModel.vo", "rstr/RstrSpec.vo"]
NOW = datetime.datetime(2020, 2, 29, 12, 34, 56)


# datetime.now() is frozen for the whole run: a text without a start makes every rule it builds call
# datetime.datetime.now() on its own, and the keyword construction it is compared with calls it again; a
# second boundary between two of those calls would be a false alarm.  Only `now` is replaced, in the
# namespace `datetime` of dateutil.rrule; now(tz) gives the same wall clock fields with that tzinfo,
# which is also what the model's env says.
class _FrozenMeta(type):
    def __instancecheck__(cls, inst):            # isinstance(x, datetime.datetime) inside rrule.py
        return isinstance(inst, datetime.datetime)

    def __subclasscheck__(cls, sub):
        return issubclass(sub, datetime.datetime)


class _FrozenDatetime(datetime.datetime, metaclass=_FrozenMeta):
    @classmethod
    def now(cls, tz=None):
        return NOW.replace(tzinfo=tz)


def freeze_now():
    import types
    from dateutil import rrule as RR
    ns = types.SimpleNamespace(**{k: getattr(datetime, k) for k in dir(datetime) if not k.startswith("__")})
    ns.datetime = _FrozenDatetime
    RR.datetime = ns
NOCC = 6


# ------------------------------------------------------------------ JSON <-> python arguments

def dt_j(d):
    return None if d is None else K.e_dt(d)


def j_dt(j):
    if j is None:
        return None
    return datetime.datetime(j[0], j[1], j[2], j[3], j[4], j[5], j[6], tzinfo=K.tzobj(j[7]))


def kw_j(kw):
    out = {}
    for k, v in kw.items():
        if k == "until":
            out[k] = dt_j(v)
        elif k == "byweekday":
            single = isinstance(v, int) or hasattr(v, "n")
            vs = [v] if single else list(v)
            js = [w if isinstance(w, int) else [w.weekday, w.n] for w in vs]
            out[k] = {"single": js[0]} if single else js
        elif k == "wkst":
            out[k] = v if isinstance(v, int) else {"wd": v.weekday}
        elif k in K.LIST_KEYS:
            out[k] = v if isinstance(v, int) else {"t": "tuple" if isinstance(v, tuple) else "list", "v": list(v)}
        else:
            out[k] = v
    return out


def j_kw(j):
    from dateutil import rrule as RR

    def wd(x):
        return x if isinstance(x, int) else RR.weekdays[x[0]](x[1])
    out = {}
    for k, v in j.items():
        if k == "until":
            out[k] = j_dt(v)
        elif k == "byweekday":
            out[k] = wd(v["single"]) if isinstance(v, dict) else tuple(wd(x) for x in v)
        elif k == "wkst":
            out[k] = v if isinstance(v, int) else RR.weekdays[v["wd"]]
        elif k in K.LIST_KEYS:
            out[k] = v if isinstance(v, int) else (tuple(v["v"]) if v["t"] == "tuple" else list(v["v"]))
        else:
            out[k] = v
    return out


# ------------------------------------------------------------------ running the real library

def impl_opts(oj, text):
    """(kwargs for the real rrulestr, opts dict for the model encoder)"""
    from dateutil import tz
    kw = {}
    start = j_dt(oj.get("dtstart"))
    if start is not None:
        kw["dtstart"] = start
    for k in ("cache", "unfold", "forceset", "compatible", "ignoretz"):
        if oj.get(k):
            kw[k] = True
    ti = oj.get("tzinfos", 0)
    if ti == 1:
        kw["tzinfos"] = {"UTC": K.tzobj(3)}
    elif ti == 2:
        kw["tzinfos"] = lambda _name, _off: (K.tzobj(3) if _name else None)
    mode = oj.get("tzids", 0)
    if mode == 0:
        names = set(K.POOL_NAMES) | set(re.findall("(?i)TZID=([^:;]+)[:;]", text)) | \
            set(re.findall("(?i)TZID=([^:;]+)[:;]", text.replace("\r\n ", "").replace("\n ", "")))
        tzmap = {}
        for n in names:
            t = K.tztag(tz.gettz(n)) if all(ord(c) < 128 for c in n) and "\x00" not in n else 0
            if t:
                tzmap[n] = t
    else:
        d = {n: K.tzobj(t) for n, t in K.POOL_NAMES.items() if t}
        kw["tzids"] = d if mode == 1 else (lambda name, _d=d: _d.get(name))
        tzmap = {n: t for n, t in K.POOL_NAMES.items() if t}
    mo = {"dtstart": start, "tzmap": tzmap}
    for k in ("cache", "unfold", "forceset", "compatible", "ignoretz"):
        mo[k] = bool(oj.get(k))
    return kw, mo


def run_impl_text(text, oj):
    from dateutil import rrule as RR
    kw, mo = impl_opts(oj, text)
    try:
        res = RR.rrulestr(text, **kw)
    except Exception as ex:  # class is the observable
        res = ex
    return res, mo


def first_start(res):
    from dateutil import rrule as RR
    if isinstance(res, RR.rrule):
        return res._dtstart
    if isinstance(res, RR.rruleset):
        for r in list(res._rrule) + list(res._exrule):
            return r._dtstart
    return None


def model_text(o, text, mo, res=None, fwd=0):
    # `now` is frozen (freeze_now): the model gets the same constant
    return o.call(K.E_MODEL, K.e_env(fwd, NOW) + K.e_opts(mo) + K.e_str(text))


def is_ascii(s):
    return all(ord(c) < 128 for c in s)


# ------------------------------------------------------------------ stream 1: str / rrulestr round trip

def _eval_roundtrip(o, inp, issues, stats):
    """inp: {"start": dtjson, "kw": kwjson, "fwd": int}"""
    from dateutil import rrule as RR
    start, kw, fwd = j_dt(inp["start"]), j_kw(inp["kw"]), inp.get("fwd", 0)
    calendar.setfirstweekday(fwd)
    try:
        args = K.e_env(fwd, NOW) + K.e_optdt(start) + K.e_kw(kw)
        try:
            if inp.get("as_date"):
                # date objects for start / until: the constructor turns them into midnight datetimes
                ikw = dict(kw)
                if ikw.get("until") is not None:
                    ikw["until"] = ikw["until"].date()
                r = RR.rrule(dtstart=start.date(), **ikw)
            else:
                r = RR.rrule(dtstart=start, **kw)
            ir = [1] + K.p_rule(r)
        except Exception as ex:
            r, ir = None, K.exc_code(ex)
        mr = o.call(K.E_CTOR, args)
        stats["evaluations"] += 1
        if mr != ir:
            issues.append(("constructor model differs from rrule.__init__", False,
                           {"stream": "roundtrip", "input": inp, "impl": ir, "model": mr}))
            return None
        if r is None:
            stats["ctor_errors"] += 1
            return None
        text = str(r)
        ms = o.call(K.E_STR, args)
        if ms != [1] + K.e_str(text):
            issues.append(("__str__ model differs from str(rrule)", False,
                           {"stream": "roundtrip", "input": inp, "impl": text,
                            "model": "".join(map(chr, ms[2:])) if ms[:1] == [1] else ms}))
        try:
            r2 = RR.rrulestr(text)
        except Exception as ex:
            r2 = ex
        i2 = K.p_result(r2)
        m2 = o.call(K.E_MODEL, K.e_env(fwd, NOW) + K.e_opts({"tzmap": {}}) + K.e_str(text))
        if m2 != i2:
            issues.append(("rrulestr model differs from rrulestr(str(rule))", False,
                           {"stream": "roundtrip", "input": inp, "text": text, "impl": i2, "model": m2}))
        # the property itself, on the real library
        naive = start.tzinfo is None
        if inp.get("out_of_space"):
            stats["out_of_space"] += 1
            return text
        stats["naive" if naive else "aware"] += 1
        if isinstance(r2, BaseException):
            if naive:
                issues.append(("rrulestr(str(rule)) raises", True,
                               {"stream": "roundtrip", "input": inp, "text": text, "impl": i2}))
            else:
                stats["aware_not_reparsable"] += 1
            return text
        a = K.occurrences(r, NOCC)
        b = K.occurrences(r2, NOCC, 0.5) if a != "TIMEOUT" else a
        if a == "TIMEOUT" or b == "TIMEOUT":
            stats["occ_timeouts"] += 1
        elif naive:
            if a != b:
                issues.append(("rrulestr(str(rule)) has different occurrences", True,
                               {"stream": "roundtrip", "input": inp, "text": text, "rule": a, "reparsed": b,
                                "only_wkst_differs": only_wkst_differs(r, r2)}))
            else:
                stats["occ_compared"] += 1
                if isinstance(a, list) and len(a) >= 2:
                    stats["nontrivial"].add(text)
        else:
            # outside the property (aware start): str() drops the zone; wall fields still agree
            if isinstance(a, list) and isinstance(b, list) and [x[:7] for x in a] != [x[:7] for x in b]:
                stats["aware_wall_differs"] += 1
        # same rule state up to: until's microsecond, time zone (dropped by str)
        pr, p2 = K.p_iter_state(r), K.p_iter_state(r2)
        if naive and pr != p2:
            u = r._until
            if fwd != 0 and r._wkst == 0 and only_wkst_differs(r, r2):
                # F-C13-c's mechanism (WKST=MO is not written, the re-read rule takes calendar.firstweekday()):
                # the model predicts this state (compared above); the PROPERTY is about occurrences, which are
                # compared above -- a state difference alone is not reported
                stats["wkst_state_only"] += 1
            elif not (u is not None and u.microsecond and K.p_iter_state(r.replace(until=u.replace(microsecond=0))) == p2):
                issues.append(("rrulestr(str(rule)) is a different rule", True,
                               {"stream": "roundtrip", "input": inp, "text": text, "rule": pr, "reparsed": p2}))
        return text
    finally:
        calendar.setfirstweekday(0)


def only_wkst_differs(r, r2):
    """do the two rules differ in nothing but the week start?"""
    try:
        u = r._until
        if u is not None and u.microsecond:       # str() drops until's microsecond (allowed difference)
            r = r.replace(until=u.replace(microsecond=0))
        return r._wkst != r2._wkst and K.p_iter_state(r2.replace(wkst=r._wkst)) == K.p_iter_state(r)
    except Exception:
        return False


# ------------------------------------------------------------------ streams 2-4: text -> rule / set

def build_expected(exp, oj):
    """keyword construction on the real library of what the text says"""
    from dateutil import rrule as RR
    if exp["kind"] == "error":
        return ValueError("a TZID parameter on a value that already has a zone")
    start = j_dt(exp.get("start"))
    cache = bool(oj.get("cache"))
    forceset = bool(oj.get("forceset") or oj.get("compatible"))
    try:
        if exp["kind"] == "rule" and not forceset:
            return RR.rrule(dtstart=start, cache=cache, **j_kw(exp["kw"]))
        rs = RR.rruleset(cache=cache)
        kws = [exp["kw"]] if exp["kind"] == "rule" else exp["rrules"]
        for k in kws:
            rs.rrule(RR.rrule(dtstart=start, **j_kw(k)))
        for d in exp.get("rdates", []):
            rs.rdate(j_dt(d))
        for k in exp.get("exrules", []):
            rs.exrule(RR.rrule(dtstart=start, **j_kw(k)))
        for d in exp.get("exdates", []):
            rs.exdate(j_dt(d))
        if oj.get("compatible") and start is not None:
            rs.rdate(start)
        return rs
    except Exception as ex:
        return ex


def wire_ovf(m):
    """the oracle's wire format carries 63-bit integers: a model RESULT with a larger member cannot be
    transported (the driver answers OVF); such results are not compared (counted), the input itself
    travels as text and the property is still checked on the implementation"""
    return isinstance(m, str) and (m.startswith("OVF") or "int_of_string" in m)


def _eval_text(o, inp, issues, stats):
    """inp: {"stream", "text", "opts", optional "expect"}"""
    text, oj = inp["text"], inp["opts"]
    res, mo = run_impl_text(text, oj)
    ir = K.p_result(res)
    stats["evaluations"] += 1
    mr = model_text(o, text, mo, res) if (is_ascii(text) and not inp.get("no_model")) else [0, 9]
    cls = "ok" if ir[0] in (1, 2) else {1: "ValueError", 2: "TypeError", 3: "IndexError", 4: "KeyError", 5: "AttributeError", 6: "OverflowError"}.get(ir[1], str(ir[1])) if ir[0] == 0 else str(ir)
    stats["classes"][cls] = stats["classes"].get(cls, 0) + 1
    if mr == [0, 9]:
        stats["unmodelled"] += 1
    elif wire_ovf(mr) and ir[0] in (1, 2):
        stats["wire_overflow"] += 1
    elif mr != ir:
        issues.append(("rrulestr model differs from the implementation", None,
                       {"stream": inp["stream"], "input": inp, "impl": ir, "model": mr}))
    exp = inp.get("expect")
    if exp is not None:
        ref = build_expected(exp, oj)
        pe = K.p_result(ref)
        if pe != ir:
            issues.append(("RFC text is not read like the keyword construction", True,
                           {"stream": inp["stream"], "input": inp, "impl": ir, "keywords": pe}))
        elif not isinstance(ref, BaseException):
            a = K.occurrences(res, NOCC)
            b = K.occurrences(ref, NOCC, 0.5) if a != "TIMEOUT" else a
            if a == "TIMEOUT" or b == "TIMEOUT":
                stats["occ_timeouts"] += 1
            elif a != b:
                issues.append(("RFC text yields other occurrences / zone than the keywords", True,
                               {"stream": inp["stream"], "input": inp, "text_occ": a, "keyword_occ": b}))
            else:
                stats["occ_compared"] += 1
                if isinstance(a, list) and len(a) >= 2:
                    stats["nontrivial"].add(text)
    else:
        # malformed stream: the property demands ValueError (or a successful parse)
        if ir[0] not in (1, 2) and ir != [0, 1]:
            issues.append(("malformed text raises %s, not ValueError" % cls, True,
                           {"stream": inp["stream"], "input": inp, "impl": ir, "model": mr}))
    return ir, mr


def eval_roundtrip(o, inp, issues, stats):
    """fail closed: an exception inside the evaluation of one case (e.g. an object the projection
    cannot read) is itself a disagreement at that input"""
    try:
        return _eval_roundtrip(o, inp, issues, stats)
    except Exception as ex:  # noqa
        issues.append(("evaluation of the case failed: %s" % type(ex).__name__, False,
                       {"stream": "roundtrip", "input": inp, "error": repr(ex)[:300]}))
        return None


def eval_text(o, inp, issues, stats):
    try:
        return _eval_text(o, inp, issues, stats)
    except Exception as ex:  # noqa
        issues.append(("evaluation of the case failed: %s" % type(ex).__name__, False,
                       {"stream": inp.get("stream"), "input": inp, "error": repr(ex)[:300]}))
        return (["ERR"], ["ERR"])


# ------------------------------------------------------------------ generators of text cases

def spell(o, choice, tzname, start, kw):
    r = o.call(K.E_SPELL, K.e_choice(choice) + K.e_str(tzname) + K.e_optdt(start) + K.e_kw(kw))
    return "".join(map(chr, r[1:]))


def tag_name(tag):
    for n, t in K.POOL_NAMES.items():
        if t == tag and tag >= 2:
            return n
    return ""


def eff(d, ignoretz, via_text, tzid_ok=True):
    """how a datetime comes out of the text"""
    if d is None or not via_text:
        return d
    t = K.tztag(d.tzinfo)
    if t == 1 and ignoretz:
        return d.replace(tzinfo=None)
    if t >= 2 and not tzid_ok:
        return d.replace(tzinfo=None)
    return d


def gen_spelling(R, o):
    tag = R.choice([0, 0, 0, 1, 1, 2, 3, 4])
    mode = R.choice([0, 1, 2])
    if tag == 4 and mode == 0:
        tag = 2
    start = K.gen_dt(R, tag)
    kw = K.norm_kw_lists(K.gen_kw(R, tag, start, wf_only=True))
    if "until" in kw and tag >= 1:
        kw["until"] = kw["until"].replace(tzinfo=K.tzobj(1))
    nparts = len([k for k in kw])
    ch = K.gen_choice(R, nparts)
    restore_name = False
    if tag >= 2 and ch["case"]:
        # the TZID name keeps its case (it is looked up verbatim); everything else may be lower case
        if R.random() < 0.5:
            ch["case"] = []
        else:
            ch["folds"] = []
            restore_name = True
    oj = {"cache": R.random() < 0.2, "forceset": R.random() < 0.15, "compatible": R.random() < 0.1,
          "ignoretz": R.random() < 0.15, "tzids": mode, "unfold": bool(ch["folds"]) or R.random() < 0.1}
    if oj["compatible"]:
        oj["unfold"] = True
    if ch["inline"] == 0:
        oj["dtstart"] = dt_j(start)
        ch["prefix"] = ch["prefix"] or R.random() < 0.5
    elif R.random() < 0.2:
        oj["dtstart"] = dt_j(K.gen_dt(R, 0))          # overridden by the DTSTART line
    text = spell(o, ch, tag_name(tag), start, kw)
    if restore_name and ch["inline"] != 0:
        text = re.sub(re.escape(tag_name(tag)), lambda _m: tag_name(tag), text, flags=re.I)
    ekw = dict(kw)
    if "until" in ekw:
        ekw["until"] = eff(ekw["until"], oj["ignoretz"], True)
    exp = {"kind": "rule", "start": dt_j(eff(start, oj["ignoretz"], ch["inline"] != 0)), "kw": kw_j(ekw)}
    return {"stream": "spelling", "text": text, "opts": oj, "expect": exp, "choice": ch,
            "kw": kw_j(kw), "start": dt_j(start)}


def dates_text(R, ds):
    return ",".join(("%04d%02d%02d" % (d.year, d.month, d.day) if (d.hour, d.minute, d.second) == (0, 0, 0)
                     and d.tzinfo is None and R.random() < 0.5 else
                     "%04d%02d%02dT%02d%02d%02d" % (d.year, d.month, d.day, d.hour, d.minute, d.second)
                     + ("Z" if K.tztag(d.tzinfo) == 1 else "")) for d in ds)


def gen_set(R, o):
    tag = R.choice([0, 0, 0, 1])
    start = K.gen_dt(R, tag)
    plain = {"plus": False, "wdname": False, "styles": [], "dshort": False, "perm": [], "prefix": False,
             "inline": 0, "folds": [], "case": []}

    def rule():
        kw = K.norm_kw_lists(K.gen_kw(R, tag, start, wf_only=True))
        if "count" not in kw and "until" not in kw:
            kw["count"] = R.choice([1, 2, 5])
        ch = dict(plain)
        ch.update({"plus": R.random() < 0.3, "styles": [R.randrange(4) for _ in range(3)],
                   "wdname": R.random() < 0.3})
        return kw, spell(o, ch, "", None, kw)
    rr = [rule() for _ in range(R.choice([0, 1, 1, 2, 3]))]
    xr = [rule() for _ in range(R.choice([0, 0, 1, 2]))]

    def near():
        try:
            return (start + datetime.timedelta(days=R.randrange(0, 40), seconds=R.choice([0, 0, 3600]))).replace(
                tzinfo=K.tzobj(tag))
        except OverflowError:
            return start
    rd = [[near() for _ in range(R.choice([1, 2, 3]))] for _ in range(R.choice([0, 0, 1, 2]))]
    xd = [[near() for _ in range(R.choice([1, 2, 3]))] for _ in range(R.choice([0, 0, 1, 2]))]
    oj = {"cache": R.random() < 0.2, "forceset": R.random() < 0.3, "compatible": R.random() < 0.15,
          "ignoretz": False, "tzids": R.choice([0, 1, 2]), "unfold": R.random() < 0.3}
    items = []
    inline = R.random() < 0.8
    if inline:
        items.append(("start", None, "DTSTART:" + dates_text(R, [start])))
    else:
        oj["dtstart"] = dt_j(start)
    items += [("rr", k, ("RRULE:" if R.random() < 0.9 else "") + t) for k, t in rr]
    items += [("xr", k, "EXRULE:" + t) for k, t in xr]
    items += [("rd", g, "RDATE" + (";VALUE=DATE-TIME" if R.random() < 0.3 else "") + ":" + dates_text(R, g)) for g in rd]
    items += [("xd", g, "EXDATE" + (";VALUE=DATE-TIME" if R.random() < 0.3 else "") + ":" + dates_text(R, g)) for g in xd]
    R.shuffle(items)
    lines = [t for _a, _b, t in items]
    rr = [(k, "") for a, k, _t in items if a == "rr"]
    xr = [(k, "") for a, k, _t in items if a == "xr"]
    rd = [g for a, g, _t in items if a == "rd"]
    xd = [g for a, g, _t in items if a == "xd"]
    unfold = oj["unfold"] or oj["compatible"]
    sep = R.choice(["\n", "\r\n", "\n\n"]) if unfold else R.choice(["\n", " ", "\r\n", "\t", "\n  "])
    text = sep.join(lines)
    if R.random() < 0.2:
        text = text.lower() if R.random() < 0.5 else text.swapcase()
    if not lines:
        text = "RRULE:FREQ=DAILY;COUNT=1"
        rr = [({"freq": 3, "count": 1}, "")]
    n_rules = len(rr)
    is_set = (oj["forceset"] or oj["compatible"] or n_rules > 1 or rd or xd or xr)
    if not is_set and n_rules == 0:
        exp = None                      # DTSTART only: see the malformed stream
    elif not is_set:
        exp = {"kind": "rule", "start": dt_j(start), "kw": kw_j(rr[0][0])}
    else:
        exp = {"kind": "set", "start": dt_j(start), "rrules": [kw_j(k) for k, _ in rr],
               "exrules": [kw_j(k) for k, _ in xr],
               "rdates": [dt_j(d) for g in rd for d in g], "exdates": [dt_j(d) for g in xd for d in g]}
    if exp is None:
        return None
    return {"stream": "set", "text": text, "opts": oj, "expect": exp}


def fold_multi(R, line, sep):
    """fold a line at 2-4 arbitrary positions (never before its first character)"""
    if len(line) < 3:
        return line
    ps = sorted(set(R.randrange(1, len(line)) for _ in range(R.choice([2, 3, 4]))), reverse=True)
    for p in ps:
        line = line[:p] + sep + " " + line[p:]
    return line


def gen_zoned(R, o):
    """every line kind (RRULE / EXRULE / RDATE / EXDATE / DTSTART) may carry a zoned value (Z, or a
    TZID parameter on DTSTART / EXDATE), under every combination of ignoretz / tzids / tzinfos;
    with unfold every line is folded 2-4 times"""
    ignoretz = R.random() < 0.4
    ti = R.choice([0, 0, 1, 2])
    mode = R.choice([0, 1, 2])
    unfold = R.random() < 0.4
    oj = {"cache": R.random() < 0.1, "forceset": R.random() < 0.3, "compatible": R.random() < 0.1,
          "ignoretz": ignoretz, "tzids": mode, "tzinfos": ti, "unfold": unfold}
    ztz = None if ignoretz else (K.tzobj(3) if ti else K.tzobj(1))       # what a trailing Z means
    start_n = K.gen_dt(R, 0)
    aware_plan = R.random() < 0.5          # the zone-consistent plan; ignoretz also gets inconsistent ones
    plain = {"plus": False, "wdname": False, "styles": [], "dshort": False, "perm": [], "prefix": False,
             "inline": 0, "folds": [], "case": []}

    def zflag(consistent):
        if ignoretz and R.random() < 0.5:
            return R.random() < 0.5
        return consistent

    def out(d, z, tzid_tag=0):
        """(text value, datetime as read, error?)"""
        txt = "%04d%02d%02dT%02d%02d%02d" % (d.year, d.month, d.day, d.hour, d.minute, d.second) + ("Z" if z else "")
        if tzid_tag:
            if z and not ignoretz:
                return txt, None, True
            return txt, d.replace(tzinfo=K.tzobj(tzid_tag)), False
        return txt, (d.replace(tzinfo=ztz) if z else d), False

    err = False
    items = []
    # DTSTART
    stag = R.choice([0, 0, 2, 3, 4]) if mode else R.choice([0, 0, 2, 3])
    sz = zflag(aware_plan) if stag == 0 else (R.random() < 0.15)
    stxt, start_eff, e = out(start_n, sz, stag)
    err = err or e
    inline = R.random() < 0.85
    if inline:
        parms = []
        if stag:
            parms.append("TZID=" + tag_name(stag))
        if R.random() < 0.3:
            parms.insert(R.randrange(len(parms) + 1), "VALUE=DATE-TIME")
        items.append(("start", None, "DTSTART" + "".join(";" + p for p in parms) + ":" + stxt))
    else:
        start_eff = start_n.replace(tzinfo=K.tzobj(1)) if aware_plan else start_n
        oj["dtstart"] = dt_j(start_eff)
        err = False
    start_aware = (start_eff is not None and start_eff.tzinfo is not None) if not err else aware_plan

    def rule(kind):
        kw = K.norm_kw_lists(K.gen_kw(R, 0, start_n, wf_only=True))
        if "count" not in kw and "until" not in kw:
            kw["until"] = start_n + datetime.timedelta(days=R.choice([1, 30, 400])) if start_n.year < 9990 else start_n
        ekw = dict(kw)
        if "until" in kw:
            z = zflag(start_aware)
            u = kw["until"].replace(tzinfo=None)
            kw["until"] = u.replace(tzinfo=K.tzobj(1)) if z else u          # spelled with / without Z
            ekw["until"] = u.replace(tzinfo=ztz) if z else u
        ch = dict(plain)
        ch.update({"plus": R.random() < 0.3, "styles": [R.randrange(4) for _ in range(3)]})
        return ekw, spell(o, ch, "", None, kw)
    for _ in range(R.choice([1, 1, 2])):
        k, t = rule("rr")
        items.append(("rr", k, ("RRULE:" if R.random() < 0.9 else "") + t))
    for _ in range(R.choice([0, 1, 1, 2])):
        k, t = rule("xr")
        items.append(("xr", k, "EXRULE:" + t))

    def near():
        try:
            return start_n + datetime.timedelta(days=R.randrange(0, 40), seconds=R.choice([0, 3600]))
        except OverflowError:
            return start_n
    for _ in range(R.choice([0, 1, 1, 2])):
        vals = [out(near(), zflag(start_aware)) for _ in range(R.choice([1, 2, 3]))]
        items.append(("rd", [v[1] for v in vals],
                      "RDATE" + (";VALUE=DATE-TIME" if R.random() < 0.3 else "") + ":" + ",".join(v[0] for v in vals)))
    for _ in range(R.choice([0, 1, 1, 2])):
        xtag = R.choice([0, 0, 2, 3, 4]) if mode else R.choice([0, 0, 2, 3])
        vals = [out(near(), (R.random() < 0.15) if xtag else zflag(start_aware), xtag) for _ in range(R.choice([1, 2, 3]))]
        parms = []
        if xtag:
            parms.append("TZID=" + tag_name(xtag))
        if R.random() < 0.3:
            parms.insert(R.randrange(len(parms) + 1), R.choice(["VALUE=DATE-TIME", "VALUE=DATE-TIME", "VALUE=DATE"]))
        items.append(("xd", vals, "EXDATE" + "".join(";" + p for p in parms) + ":" + ",".join(v[0] for v in vals)))
    R.shuffle(items)
    # errors are raised in text order for EXDATE / DTSTART lines (both during the property loop)
    xd_err = any(v[2] for a, vs, _t in items if a == "xd" for v in vs)
    lines = [t for _a, _b, t in items]
    names = [tag_name(t) for t in (2, 3, 4)]
    if R.random() < 0.25:
        lines = [ln.lower() if R.random() < 0.5 else ln.swapcase() for ln in lines]
        lines = [re.sub("|".join(re.escape(n) for n in names), lambda m: [n for n in names if n.lower() == m.group(0).lower()][0],
                        ln, flags=re.I) for ln in lines]
    if unfold or oj["compatible"]:
        fsep = R.choice(["\n", "\r\n"])
        lines = [fold_multi(R, ln, fsep) for ln in lines]
        text = R.choice(["\n", "\r\n", "\n\n"]).join(lines)
    else:
        text = R.choice(["\n", " ", "\r\n"]).join(lines)
    rr = [k for a, k, _t in items if a == "rr"]
    xr = [k for a, k, _t in items if a == "xr"]
    rd = [d for a, ds, _t in items if a == "rd" for d in ds]
    xd = [v[1] for a, vs, _t in items if a == "xd" for v in vs]
    is_set = oj["forceset"] or oj["compatible"] or len(rr) > 1 or rd or xd or xr
    if (err and inline) or xd_err:
        exp = {"kind": "error"}
    elif not is_set:
        exp = {"kind": "rule", "start": dt_j(start_eff), "kw": kw_j(rr[0])}
    else:
        exp = {"kind": "set", "start": dt_j(start_eff), "rrules": [kw_j(k) for k in rr], "exrules": [kw_j(k) for k in xr],
               "rdates": [dt_j(d) for d in rd], "exdates": [dt_j(d) for d in xd]}
    return {"stream": "zoned", "text": text, "opts": oj, "expect": exp, "no_model": bool(ti)}


JUNK = ["X=1", "FOO=BAR", "BYFOO=1", "FREQ=NEVER", "COUNT=", "COUNT=X", "COUNT=1.5", "INTERVAL=1E3",
        "BYDAY=XX", "BYDAY=0MO", "BYDAY=MO(0)", "BYDAY=", "BYDAY=,MO", "BYDAY=+", "BYDAY=12", "BYDAY=MO(",
        "BYDAY=MO()", "BYDAY=(1)", "BYDAY=1(MO)", "BYDAY=+-1MO", "BYDAY=MO(+1", "BYDAY=M", "BYDAY=1_0MO",
        "BYMONTH=1,,2", "BYMONTH=", "BYMONTH=A", "WKST=", "WKST=1", "WKST=MON", "FREQ=", "FREQ", "=", "==",
        "COUNT=1=2", "", "BYSETPOS=0", "BYSETPOS=367", "BYSETPOS=-367", "BYHOUR=24", "BYMINUTE=60",
        "BYSECOND=-1", "UNTIL=20001301", "UNTIL=20000230T000000", "UNTIL=20000101T250000",
        "UNTIL=00000101", "UNTIL=20000101T000000Z", "UNTIL=2000010", "UNTIL=", "COUNT=+3", "COUNT=-3",
        "COUNT=1_0", "COUNT=_1", "COUNT=1__0", "INTERVAL=0", "BYMONTHDAY=0", "BYEASTER=X", "BYWEEKNO=1;",
        "BYWEEKDAY=TU", "BYDAY=MO,TU(-1),+2WE", "FREQ=daily", "freq=DAILY"]
# integers beyond 32 / 64 bits in every numeric part (fb1f638: datetime.time() raised OverflowError for
# BYHOUR / BYMINUTE / BYSECOND), and overlong digit strings where a date is expected (c15ba85)
BIG = ["99999999999999999999", "-99999999999999999999", "2147483648", "-2147483649", "2147483647",
       "9223372036854775808", "1" + "0" * 40, "+00000000000000000000000000000007"]
JUNK += ["%s=%s" % (p_, b_) for p_ in ("BYHOUR", "BYMINUTE", "BYSECOND", "BYMONTH", "BYMONTHDAY", "BYYEARDAY", "BYWEEKNO",
                                     "BYEASTER", "BYSETPOS", "INTERVAL", "COUNT") for b_ in BIG]
JUNK += ["BYHOUR=1,99999999999999999999", "BYMINUTE=99999999999999999999,61", "BYSECOND=61,99999999999999999999",
         "BYHOUR=24;BYMINUTE=99999999999999999999", "BYDAY=99999999999999999999MO", "BYDAY=MO(99999999999999999999)",
         "UNTIL=99999999999999999999", "UNTIL=199901019000000", "UNTIL=1999010190000000000000",
         "UNTIL=123456789012345", "UNTIL=012345678901234567"]
PROPS = ["RRULE", "EXRULE", "RDATE", "EXDATE", "DTSTART", "FOO", "RRULE;X=1", "EXRULE;X", "RDATE;VALUE=DATE",
         "RDATE;VALUE=DATE-TIME", "RDATE;TZID=UTC", "EXDATE;VALUE=DATE", "EXDATE;VALUE=DATE;VALUE=DATE-TIME",
         "EXDATE;TZID=UTC", "EXDATE;FOO=1", "DTSTART;VALUE=DATE-TIME", "DTSTART;TZID=America/New_York",
         "DTSTART;TZID=Nowhere/Land", "DTSTART;TZID=UTC;VALUE=DATE", "DTSTART;X=Y", "", ";", "RRULE:RRULE"]
DATEV = ["20000101", "20000101T000000", "20000101T000000Z", "20000101,20000102", "20001301", "2000010",
         "20000101T", "20000101T0000", "", "20000230", "99991231T235959", "00010101", "00000101",
         "20000101T240000", "20000101T000060", "20000101X000000", "20000101T000000X",
         "99999999999999999999", "123456789012345", "1234567890123456", "200001011111111111111111111",
         "20000101,99999999999999999999", "1" + "0" * 40, "012345678901234567", "999999999999999"]


def gen_malformed(R, o, base_texts):
    oj = {"cache": False, "forceset": R.random() < 0.2, "compatible": R.random() < 0.1,
          "ignoretz": R.random() < 0.1, "tzids": R.choice([0, 1]), "unfold": R.random() < 0.3}
    if R.random() < 0.5:
        oj["dtstart"] = dt_j(K.gen_dt(R, R.choice([0, 0, 1])))
    x = R.random()
    if x < 0.35 and base_texts:
        t = R.choice(base_texts)
        y = R.random()
        if y < 0.3:                       # add / replace a part
            parts = t.split(";")
            j = R.choice(JUNK)
            if R.random() < 0.5:
                parts.insert(R.randrange(len(parts) + 1), j)
            else:
                parts[R.randrange(len(parts))] = j
            t = ";".join(parts)
        elif y < 0.5:                     # drop FREQ
            t = re.sub(r"FREQ=[A-Z]+;?", "", t)
        elif y < 0.8:                     # one-character edit
            i = R.randrange(len(t) + 1)
            c = R.choice(";:=,+-()_ \n\tTZ0129AZaz.\r\x0b\x0c\x1c\x1d\x1e\x1f\x85")
            z = R.random()
            t = t[:i] + c + t[i:] if z < 0.4 else (t[:i] + c + t[i + 1:] if z < 0.7 else t[:i] + t[i + 1:])
        else:                             # duplicate a line or a part
            ls = t.split("\n")
            ls.insert(R.randrange(len(ls) + 1), R.choice(ls))
            t = "\n".join(ls)
    elif x < 0.7:
        n = R.choice([1, 1, 2, 3])
        ls = []
        for _ in range(n):
            p = R.choice(PROPS)
            if p.startswith(("RRULE", "EXRULE", "FOO")) or p in ("", ";"):
                v = ";".join(R.choice(JUNK + ["FREQ=DAILY", "FREQ=WEEKLY", "COUNT=2"]) for _ in range(R.choice([1, 2, 3])))
            else:
                v = R.choice(DATEV)
            ls.append((p + ":" if R.random() < 0.9 else "") + v)
        t = R.choice(["\n", " ", "\r\n"]).join(ls)
    elif x < 0.85:
        t = R.choice(["", " ", "\n", "\t \n", ":", ";", "=", "RRULE", "RRULE:", "DTSTART:20000101",
                      "DTSTART:20000101T000000\n", "RDATE:", "EXDATE:", "DTSTART:", "FREQ", ",",
                      "RRULE:FREQ=DAILY\n RRULE:FREQ=DAILY", " RRULE:FREQ=DAILY", "RRULE:FREQ=DAILY:",
                      "RRULE::FREQ=DAILY", "RRULE:FREQ=DAILY;;COUNT=1", "\x1cRRULE:FREQ=DAILY",
                      "RRULE:FREQ=DAILY\x1fCOUNT=1", "RRULE:FREQ=DAILY\x0bRRULE:FREQ=DAILY;COUNT=1"])
    else:
        alphabet = "FREQ=DAILY;COUNT:,\n +-1MO()TZ"
        t = "".join(R.choice(alphabet) for _ in range(R.randrange(1, 25)))
    return {"stream": "malformed", "text": t, "opts": oj}


# ------------------------------------------------------------------ primitives and dates

def prim_cases(R, tier):
    out = []
    chars = [chr(i) for i in range(128)]
    for c in chars:
        for tpl in ("%s", "a%sb", "%sa", "a%s", "1%s2", " %s ", "\r%s", "%s\n"):
            out.append(tpl % c)
    alpha = " \t\n\r\x0b\x0c\x1c\x1d\x1e\x1f+-_019aAzZ:;=,("
    n = 3000 if tier == "quick" else 30000
    for _ in range(n):
        out.append("".join(R.choice(alpha) for _ in range(R.randrange(0, 9))))
    return out


def eval_prims(o, cases, issues, stats):
    def py_int(s):
        try:
            return [1, int(s)]
        except ValueError:
            return [0]

    def lst(l):
        return [len(l)] + [x for s in l for x in K.e_str(s)]

    def unfold(s):
        lines = s.splitlines()
        i = 0
        while i < len(lines):
            line = lines[i].rstrip()
            if not line:
                del lines[i]
            elif i > 0 and line[0] == " ":
                lines[i - 1] += line[1:]
                del lines[i]
            else:
                i += 1
        return lines
    ops = [(0, lambda s: K.e_str(s.upper())), (1, lambda s: lst(s.split())), (2, lambda s: lst(s.splitlines())),
           (3, py_int), (4, lambda s: K.e_str(s.strip())), (5, lambda s: K.e_str(s.rstrip())),
           (6, lambda s: lst(re.findall("(?i)TZID=(?P<name>[^:;]+)[:;]", s))), (9, lambda s: lst(unfold(s)))]
    reqs, exps = [], []
    for s in cases:
        for op, f in ops:
            t = s if op != 6 else s.replace("a", "TZID=").replace("A", "tzId=").replace("z", "tzid=")
            reqs.append((K.E_PRIM, [op] + K.e_str(t)))
            exps.append((op, t, f(t)))
    res = o.call_many(reqs)
    bad = 0
    for (op, s, e), m in zip(exps, res):
        stats["prim_evaluations"] += 1
        if m != e:
            bad += 1
            if bad <= 3:
                issues.append(("string primitive of the model differs from CPython", False,
                               {"stream": "prims", "input": {"op": op, "text": s}, "impl": e, "model": m}))
    ints = list(range(-1100, 1100)) + [10 ** k for k in range(3, 18)] + [-(10 ** k) for k in range(3, 18)] + \
        [10 ** k - 1 for k in range(3, 18)]
    res = o.call_many([(K.E_PRIM, [7, 1, n]) for n in ints] + [(K.E_PRIM, [8, 1, n]) for n in ints])
    for k, n in enumerate(ints):
        stats["prim_evaluations"] += 2
        if res[k] != K.e_str(str(n)) or res[len(ints) + k] != K.e_str("{:+d}".format(n)):
            issues.append(("int formatting of the model differs from CPython", False,
                           {"stream": "prims", "input": {"n": n}, "model": [res[k], res[len(ints) + k]]}))
            break


def eval_dates(o, R, tier, issues, stats):
    from dateutil import parser
    cases = list(DATEV)
    n = 1500 if tier == "quick" else 20000
    for _ in range(n):
        y = R.choice([0, 1, 99, 999, 1000, 1999, 2000, 2004, 2100, 9999, R.randrange(0, 10000)])
        mo = R.choice([0, 1, 2, 2, 12, 13, R.randrange(0, 20)])
        d = R.choice([0, 1, 28, 29, 30, 31, 32, R.randrange(0, 40)])
        s = "%04d%02d%02d" % (y, mo, d)
        if R.random() < 0.7:
            s += "T%02d%02d%02d" % (R.choice([0, 23, 24, R.randrange(0, 30)]), R.choice([0, 59, 60, R.randrange(0, 70)]),
                                     R.choice([0, 59, 60, R.randrange(0, 70)]))
            if R.random() < 0.4:
                s += "Z"
        cases.append(s)
    for _ in range(n // 10):
        ln = R.choice([15, 16, 17, 19, 20, 21, 30, R.randrange(15, 60)])
        cases.append(R.choice("123456789") + "".join(R.choice("0123456789") for _ in range(ln - 1)))
    for ig in (False, True):
        res = o.call_many([(K.E_DATE, [1 if ig else 0] + K.e_str(s)) for s in cases])
        for s, m in zip(cases, res):
            stats["date_evaluations"] += 1
            if m == [0, 9]:
                continue
            try:
                e = [1] + K.e_dt(parser.parse(s, ignoretz=ig))
            except ValueError:
                e = [0, 1]
            except OverflowError:
                e = [0, 6]
            except Exception as ex:
                e = ["EXC", type(ex).__name__]
            if e != m:
                issues.append(("compact date model differs from parser.parse", False,
                               {"stream": "dates", "input": {"text": s, "ignoretz": ig}, "impl": e, "model": m}))


# ------------------------------------------------------------------ known findings

def m_firstweekday(p):
    """F-C13-c: ONLY the result "other occurrences after the round trip, the two rules differing in nothing but
    the week start" for a rule built with wkst=MO under calendar.firstweekday() != 0.  A model mismatch, a crash,
    a failing re-parse or any other difference on such inputs is NOT matched (it stays a violation)."""
    inp = p.get("input") or {}
    return (p.get("kind") == "rrulestr(str(rule)) has different occurrences" and p.get("stream") == "roundtrip"
            and p.get("only_wkst_differs") is True
            and inp.get("fwd", 0) != 0 and (inp.get("kw") or {}).get("wkst") in (0, {"wd": 0}))


MATCHERS = {"c13_wkst_mo_firstweekday": m_firstweekday}


# ------------------------------------------------------------------ main

def check_floors(tier, stats, hist):
    q = tier == "quick"
    att = stats["occ_compared"] + stats["occ_timeouts"]
    texts = sum(stats["classes"].values())
    rows = [("occurrence comparisons carried out", stats["occ_compared"], ">=", 2000 if q else 20000),
            ("share of occurrence comparisons skipped as timeout (CPU budget)",
             round(stats["occ_timeouts"] / float(max(att, 1)), 3), "<=", 0.45),
            ("share of texts the model places outside its fragment",
             round(stats["unmodelled"] / float(max(texts, 1)), 3), "<=", 0.25),
            ("primitive evaluations", stats["prim_evaluations"], ">=", 30000 if q else 200000),
            ("compact / overlong date evaluations", stats["date_evaluations"], ">=", 3000 if q else 40000),
            ("round-trip cases with a naive start", stats["naive"], ">=", 1500 if q else 15000)]
    for name, lo in (("roundtrip_small_scope", 700), ("spelling", 1000 if q else 15000), ("set", 400 if q else 6000),
                     ("zoned", 400 if q else 5000), ("malformed", 2000 if q else 50000), ("regression", 10)):
        rows.append(("cases of stream " + name, hist.get(name, 0), ">=", lo))
    failed = []
    for what, val, op, bound in rows:
        ok = val >= bound if op == ">=" else val <= bound
        if not ok:
            failed.append("%s = %s, required %s %s" % (what, val, op, bound))
    return {"rows": [{"what": w, "value": v, "required": "%s %s" % (o_, b)} for w, v, o_, b in rows], "failed": failed}


def gen_status():
    """what harness/gen_rstr.py produced on this run (coq/gen/RstrGen.v)"""
    path = os.path.join(C.COQ, "gen", "RstrGen.v")
    try:
        head = open(path).read(4000)
    except OSError:
        return {"file": "coq/gen/RstrGen.v", "status": "missing"}
    failed = head.startswith("(* GENERATOR-FAILED")
    return {"file": "coq/gen/RstrGen.v", "generator": "harness/gen_rstr.py",
            "status": "translator aborted (file poisoned): " + head[:600] if failed else "regenerated from the source on this run",
            "translated": ["_rrulestr._handle_int", "_handle_int_list", "_handle_FREQ", "_handle_WKST", "_handle_UNTIL",
                           "_handle_BYWEEKDAY", "getattr dispatch table (_handle_* names and aliases)",
                           "_parse_rfc_rrule", "_parse_rfc (unfold loop and TZID regex statement recognised verbatim)",
                           "_parse_date", "_parse_date_value (tzids None/callable/mapping block recognised verbatim)",
                           "_freq_map", "_weekday_map", "FREQNAMES", "rrule.__str__"],
            "hand_modelled_ast_pinned": [],
            "hand_modelled_unpinned": ["rrule.__init__ (argument processing `ctor`): differential correspondence, and proved equal "
                                       "to rr's RRNorm.normalize (C13_bridge_ctor_is_normalize), which C01 proves equal to the code "
                                       "regenerated from rrule.__init__ (C01_gen_init_is_model)"]}


def new_stats():
    return {"evaluations": 0, "ctor_errors": 0, "naive": 0, "aware": 0, "aware_not_reparsable": 0,
            "aware_wall_differs": 0, "occ_timeouts": 0, "occ_compared": 0, "nontrivial": set(),
            "unmodelled": 0, "wire_overflow": 0, "wkst_state_only": 0, "out_of_space": 0, "classes": {}, "prim_evaluations": 0, "date_evaluations": 0}


def small_scope():
    """exhaustive small scope: every freq x every single BY-part with a positive and a negative
    value x interval {1,2} x wkst {None, SU} x {count, until}."""
    from dateutil import rrule as RR
    start = datetime.datetime(1997, 9, 2, 9, 0, 0)
    singles = [{}, {"bymonth": (3, 1)}, {"bymonthday": (-1, 15)}, {"byyearday": (100, -1)}, {"byweekno": (20, -1)},
               {"byweekday": (RR.TU, RR.TH)}, {"byweekday": (RR.MO(1), RR.FR(-1))}, {"byweekday": 2},
               {"byeaster": (0, -2)}, {"byhour": (9, 18)}, {"byminute": (0, 30)}, {"bysecond": (0, 59)},
               {"bysetpos": (1, -1), "byweekday": (RR.MO, RR.WE, RR.FR)}]
    out = []
    for f in range(7):
        for s in singles:
            for iv in (None, 2):
                for wk in (None, 6):
                    for end in ({"count": 4}, {"until": datetime.datetime(1999, 1, 1)}):
                        kw = {"freq": f}
                        kw.update(s)
                        kw.update(end)
                        if iv:
                            kw["interval"] = iv
                        if wk is not None:
                            kw["wkst"] = wk
                        out.append({"start": dt_j(start), "kw": kw_j(kw), "fwd": 0})
    return out


def directed(o, issues, stats, bump):
    """directed cases for branches the random streams reach rarely"""
    # 0b. directed cases for branches the random streams reach rarely
    for inp in [
            {"start": [2000, 1, 31, 0, 0, 0, 0, 0], "kw": {"freq": 1, "until": [2000, 12, 31, 0, 0, 0, 0, 0]}, "fwd": 0, "as_date": True},
            {"start": [1999, 12, 31, 0, 0, 0, 0, 0], "kw": {"freq": 0, "count": 3, "byeaster": 0}, "fwd": 0, "as_date": True},
            {"start": [2000, 1, 1, 9, 0, 0, 0, 0], "kw": {"freq": 3, "count": 3, "until": [2000, 1, 10, 0, 0, 0, 0, 0]}, "fwd": 0},
            {"start": [2000, 1, 1, 9, 0, 0, 0, 0], "kw": {"freq": 3, "count": 3, "bysetpos": 0}, "fwd": 0, "out_of_space": True},
            {"start": [2000, 1, 1, 9, 0, 0, 0, 0], "kw": {"freq": 3, "count": 3, "bysetpos": 367}, "fwd": 0, "out_of_space": True},
            {"start": [2000, 1, 1, 9, 0, 0, 0, 1], "kw": {"freq": 3, "until": [2000, 1, 10, 0, 0, 0, 0, 0]}, "fwd": 0}]:
        bump("directed")
        eval_roundtrip(o, inp, issues, stats)
    for text, oj in [("FREQ=DAILY;UNTIL=20000101T000000Z", {}), ("FREQ=DAILY;UNTIL=20000101T000000", {}),
                     ("DTSTART;TZID=UTC:20000101T000000Z\nRRULE:FREQ=DAILY;COUNT=1", {"tzids": 1}),
                     ("EXDATE;TZID=America/New_York:20000101T000000Z", {"tzids": 2})]:
        bump("directed")
        eval_text(o, {"stream": "malformed", "text": text, "opts": oj}, issues, stats)
    # tzids that is neither None, a callable nor a mapping: ValueError (implementation only)
    from dateutil import rrule as _RR
    try:
        _RR.rrulestr("DTSTART;TZID=UTC:20000101T000000\nRRULE:FREQ=DAILY;COUNT=1", tzids=42)
        issues.append(("tzids=42 accepted", True, {"stream": "malformed", "input": {"text": "tzids=42"}}))
    except ValueError:
        pass
    except Exception as ex:  # noqa
        issues.append(("tzids=42 raises %s, not ValueError" % type(ex).__name__, True,
                       {"stream": "malformed", "input": {"text": "tzids=42"}}))


def measure_coverage(o, texts):
    """line coverage of the anchored functions under a scaled-down rerun of every stream"""
    try:
        import coverage
        import inspect
        from dateutil import rrule as RR
    except Exception as ex:  # noqa
        return {"error": repr(ex)}
    path = inspect.getsourcefile(RR)
    funcs = [RR.rrule.__init__, RR.rrule.__str__] + [
        f for n, f in vars(RR._rrulestr).items() if callable(f) and (n.startswith("_handle_") or n.startswith("_parse_"))]
    ranges = {}
    for f in funcs:
        try:
            src, first = inspect.getsourcelines(f)
        except Exception:  # noqa
            continue
        ranges[f.__qualname__] = (first + 1, first + len(src) - 1)      # body without the def line
    cov = coverage.Coverage(include=[path], data_file=None)
    issues, stats = [], new_stats()
    K.SKIP_OCCURRENCES = True
    cov.start()
    try:
        R = C.rng("C13/coverage")
        directed(o, issues, stats, lambda *_a: None)
        for inp in small_scope()[::7]:
            eval_roundtrip(o, inp, issues, stats)
        for _ in range(250):
            tag = R.choice([0, 0, 1, 2])
            start = K.gen_dt(R, tag)
            eval_roundtrip(o, {"start": dt_j(start), "kw": kw_j(K.gen_kw(R, tag, start)), "fwd": 0}, issues, stats)
        for _ in range(250):
            eval_text(o, gen_spelling(R, o), issues, stats)
        for _ in range(120):
            inp = gen_set(R, o)
            if inp is not None:
                eval_text(o, inp, issues, stats)
        for _ in range(500):
            eval_text(o, gen_malformed(R, o, texts), issues, stats)
    finally:
        cov.stop()
        K.SKIP_OCCURRENCES = False
    _f, executable, _ex, missing, _ms = cov.analysis2(path)
    out = {"file": os.path.relpath(path, C.REPO), "functions": {}}
    tot = hit = 0
    for name, (a, b) in sorted(ranges.items()):
        ex = [l for l in executable if a <= l <= b]
        mi = [l for l in missing if a <= l <= b]
        if name.endswith("_handle_int") or name.endswith("_handle_int_list") or len(ex) > 3:
            out["functions"][name] = {"executable": len(ex), "missed_lines": mi}
        tot += len(ex)
        hit += len(ex) - len(mi)
    out["anchored_executable_lines"] = tot
    out["anchored_lines_hit"] = hit
    return out


def replay(path):
    data = json.load(open(path))
    C.ensure_built(["rstr"], VO)
    K.init()
    o = C.Oracle("rstr")
    issues, stats = [], new_stats()
    inp = data.get("input")
    st = data.get("stream")
    if st == "roundtrip" and inp:
        print("input   ", json.dumps(inp))
        text = eval_roundtrip(o, inp, issues, stats)
        print("str()   ", repr(text))
    elif st in ("spelling", "set", "zoned", "malformed", "regression") and inp:
        print("text    ", repr(inp["text"]), "opts", inp["opts"])
        ir, mr = eval_text(o, inp, issues, stats)
        print("impl    ", ir)
        print("model   ", mr)
        if inp.get("expect"):
            print("keywords", K.p_result(build_expected(inp["expect"], inp["opts"])))
    else:
        print("replay names a broken obligation or a primitive; no rule-level input:", json.dumps(data, indent=1)[:3000])
    for kind, conc, payload in issues:
        print("ISSUE   ", kind, "| concrete" if conc else "| correspondence only")
        for k in ("impl", "model", "keywords", "rule", "reparsed", "text_occ", "keyword_occ"):
            if k in payload:
                print("   %-9s" % k, payload[k])
    if not issues:
        print("no disagreement on this input")
    o.close()
    return 0


def main():
    argv = sys.argv[1:]
    freeze_now()
    if "--replay" in argv:
        return replay(argv[argv.index("--replay") + 1])
    tier = C.tier_from_argv(argv)
    t0 = time.time()
    verdict = C.Verdict(CID, MATCHERS)
    build_err = None
    try:
        C.ensure_built(["rstr"], VO)
    except C.BuildError as ex:
        build_err = ex
    if build_err is not None:
        props = {"obligations": 0, "discharged": 0, "theorems": [], "assumptions": {},
                 "cmd": "coqc props/C13.v", "log": build_err.log, "ok": False}
    else:
        props = C.compile_props(CID)
    if not os.path.exists(os.path.join(C.BIN, "oracle_rstr")):
        verdict.violation({"kind": "model does not build", "input": None, "log_tail": props["log"][-3000:]}, concrete=False)
        C.write_evidence(CID, tier, t0, props, {"evaluations": 0}, [], 1)
        return verdict.finish()
    K.init()
    o = C.Oracle("rstr")
    issues, stats = [], new_stats()
    hist = {}
    samples = []

    def sample(inp, res):
        st = inp.get("stream")
        if sum(1 for x in samples if x["stream"] == st) < 3:
            ir, mr = res
            samples.append({"stream": st, "text": inp["text"], "opts": inp["opts"],
                            "impl": ir[:24], "model": mr[:24]})

    def bump(k, n=1):
        hist[k] = hist.get(k, 0) + n

    # 0. regression corpus
    reg = os.path.join(C.VERIF, "corpus", "regressions", "C13.jsonl")
    if os.path.exists(reg):
        for line in open(reg):
            line = line.strip()
            if not line:
                continue
            inp = json.loads(line)
            bump("regression")
            if inp.get("stream") == "roundtrip":
                eval_roundtrip(o, inp, issues, stats)
            else:
                eval_text(o, inp, issues, stats)

    tt = time.time()

    def lap(name):
        nonlocal tt
        if os.environ.get("VERIF_C13_DEBUG"):
            print("DEBUG lap %s %.1fs" % (name, time.time() - tt))
        tt = time.time()
    directed(o, issues, stats, bump)
    # 1. primitives and compact dates
    eval_prims(o, prim_cases(C.rng("C13/prims"), tier), issues, stats)
    eval_dates(o, C.rng("C13/dates"), tier, issues, stats)

    lap("prims+dates")
    # 2. round trip: small scope exhaustive + random over the constructor space
    texts = []
    for inp in small_scope():
        bump("roundtrip_small_scope")
        t = eval_roundtrip(o, inp, issues, stats)
        if t:
            texts.append(t)
    R = C.rng("C13/roundtrip")
    n = 2000 if tier == "quick" else 25000
    for _ in range(n):
        tag = R.choice([0, 0, 0, 0, 0, 1, 2, 3])
        start = K.gen_dt(R, tag, us=R.random() < 0.1)
        kw = K.gen_kw(R, tag, start)
        inp = {"start": dt_j(start), "kw": kw_j(kw), "fwd": 0}
        if R.random() < 0.04:
            # outside the rule space (empty tuples, 0 / out-of-range members): constructor and
            # __str__ correspondence only
            key = R.choice(["bymonth", "bymonthday", "byhour", "byweekday", "bysetpos", "byminute"])
            kw[key] = R.choice([(), []]) if key == "byweekday" else R.choice(
                [0, 13, 25, 61, -5, (), [], (0, 1), 400, 2 ** 31, -2 ** 31 - 1, 2 ** 40, (1, 2 ** 61), 2 ** 31 - 1])
            inp = {"start": dt_j(start), "kw": kw_j(kw), "fwd": 0, "out_of_space": True}
        bump("roundtrip_freq_%d" % kw["freq"])
        bump("roundtrip_" + ("naive" if tag == 0 else "utc" if tag == 1 else "zone"))
        for k in kw:
            if k.startswith("by"):
                bump("part_" + k)
        t = eval_roundtrip(o, inp, issues, stats)
        if t and len(texts) < 400:
            texts.append(t)
    # calendar.setfirstweekday changed (known finding when wkst=MO is given explicitly)
    for _ in range(60 if tier == "quick" else 600):
        start = K.gen_dt(R, 0)
        kw = K.gen_kw(R, 0, start)
        if R.random() < 0.5:
            kw["wkst"] = 0
        bump("roundtrip_firstweekday_changed")
        eval_roundtrip(o, {"start": dt_j(start), "kw": kw_j(kw), "fwd": R.choice([6, 6, 3])}, issues, stats)

    lap("roundtrip")
    # 3. spellings x options, 4. sets, 5. malformed
    R = C.rng("C13/spelling")
    for _ in range(1600 if tier == "quick" else 20000):
        inp = gen_spelling(R, o)
        bump("spelling")
        bump("spelling_inline_%d" % inp["choice"]["inline"])
        for k in ("cache", "forceset", "compatible", "ignoretz", "unfold"):
            if inp["opts"].get(k):
                bump("opt_" + k)
        bump("opt_tzids_%d" % inp["opts"]["tzids"])
        ch = inp["choice"]
        for k in ("plus", "wdname", "dshort", "prefix"):
            if ch[k]:
                bump("choice_" + k)
        if ch["folds"]:
            bump("choice_folded")
        if ch["case"]:
            bump("choice_lowercase")
        if ch["perm"] != sorted(ch["perm"]):
            bump("choice_permuted")
        sample(inp, eval_text(o, inp, issues, stats))
    lap("spelling")
    R = C.rng("C13/sets")
    for _ in range(600 if tier == "quick" else 8000):
        inp = gen_set(R, o)
        if inp is None:
            continue
        bump("set" if inp["expect"]["kind"] == "set" else "set_stream_single_rule")
        sample(inp, eval_text(o, inp, issues, stats))
    R = C.rng("C13/zoned")
    for _ in range(600 if tier == "quick" else 7000):
        inp = gen_zoned(R, o)
        bump("zoned")
        bump("zoned_ignoretz" if inp["opts"]["ignoretz"] else "zoned_keeptz")
        bump("zoned_tzinfos_%d" % inp["opts"]["tzinfos"])
        if inp["expect"]["kind"] == "error":
            bump("zoned_tzid_plus_z_error")
        sample(inp, eval_text(o, inp, issues, stats))
    lap("sets")
    R = C.rng("C13/malformed")
    for _ in range(2500 if tier == "quick" else 60000):
        inp = gen_malformed(R, o, texts)
        bump("malformed")
        sample(inp, eval_text(o, inp, issues, stats))
    lap("malformed")
    covinfo = measure_coverage(o, texts)
    lap("coverage")
    o.close()

    # ---- verdicts
    n_model = n_spec = 0
    issues.sort(key=lambda t: 0 if t[1] else 1)       # concrete failing inputs first
    for kind, conc, payload in issues:
        payload = dict(payload)
        payload["kind"] = kind
        if conc is None:
            # model/impl disagreement on a text: the property is violated there if the class is
            # not ValueError for a malformed text; otherwise only the correspondence is broken
            conc = False
        if conc:
            n_spec += 1
        else:
            n_model += 1
        verdict.violation(payload, concrete=bool(conc))
    # floors: a check whose streams ran empty, whose comparisons mostly timed out or whose model answered
    # "outside the fragment" too often has not checked anything -- fail closed
    floors = check_floors(tier, stats, hist)
    for msg in floors["failed"]:
        verdict.violation({"kind": "the check ran degenerate: " + msg, "input": None, "floors": floors}, concrete=False)
    if not props["ok"] and not verdict.violations:
        verdict.violation({"kind": "broken proof obligation" + (
            " (translator harness/gen_rstr.py aborted or a C13_gen_* obligation no longer holds: the code of "
            "__str__ / _handle_* / _parse_rfc_rrule / _parse_rfc / _parse_date* changed)" if props["discharged"] >= 41 or
            "RstrGen" in props["log"] or "generator_failed" in props["log"] else ""),
                           "regenerated_model": gen_status().get("status"),
                           "theorem_file": "coq/props/C13.v",
                           "theorems": props["theorems"], "discharged": props["discharged"],
                           "input": None, "log_tail": props["log"][-3000:]}, concrete=False)
    if os.environ.get("VERIF_C13_DEBUG"):
        kinds = {}
        for payload, conc in verdict.violations:
            kinds.setdefault((payload.get("kind"), payload.get("stream")), []).append(payload)
        for k, v in kinds.items():
            print("DEBUG", k, len(v))
            for pl in v[:int(os.environ["VERIF_C13_DEBUG"])]:
                print("    ", json.dumps(pl, default=str)[:1500])
        print("DEBUG stats", {k: (len(v) if isinstance(v, set) else v) for k, v in stats.items()})
    rc = verdict.finish()
    total = stats["evaluations"] + stats["prim_evaluations"] + stats["date_evaluations"]
    cov = {
        "evaluations": total,
        "distinct_nontrivial": len(stats["nontrivial"]),
        "rule": "distinct rule texts whose first-%d occurrences were compared between the two constructions "
                "(str->rrulestr vs the rule; RFC text vs keywords) and that yield at least 2 occurrences" % NOCC,
        "rule_level_evaluations": stats["evaluations"],
        "primitive_evaluations": stats["prim_evaluations"],
        "compact_date_evaluations": stats["date_evaluations"],
        "exhaustive": False,
        "small_scope": "7 freqs x 13 single BY-part shapes x interval {1,2} x wkst {default,SU} x {count,until}: "
                       "%d rules, all enumerated; every ASCII character in 8 string contexts for the primitives" % hist.get("roundtrip_small_scope", 0),
        "input_distribution": dict(sorted(hist.items())),
        "result_classes_of_text_streams": stats["classes"],
        "floors_fail_closed": floors,
        "occurrence_budget": "first %d occurrences of both constructions, 25 ms CPU time (ITIMER_VIRTUAL) for the first, "
                             "0.5 s for the second; a timeout skips the comparison and is counted" % NOCC,
        "frozen_now": "datetime.datetime.now() of dateutil.rrule is frozen to %s for the whole run (texts without a "
                      "start build several rules, each calling now())" % NOW.isoformat(),
        "projection": "private attributes read: those rrule._iter reads (property comparison, p_iter_state) and "
                      "_original_rule, read by __str__ / replace (model correspondence only, p_rule); nothing else",
        "wkst_state_differences_with_equal_occurrences_not_reported": stats["wkst_state_only"],
        "occurrence_comparisons": stats["occ_compared"],
        "occurrence_timeouts_skipped": stats["occ_timeouts"],
        "constructor_errors_compared": stats["ctor_errors"],
        "roundtrip_naive": stats["naive"], "roundtrip_aware_outside_property": stats["aware"],
        "aware_not_reparsable": stats["aware_not_reparsable"],
        "texts_outside_modelled_fragment": stats["unmodelled"],
        "results_beyond_the_63_bit_wire_format_not_compared": stats["wire_overflow"],
        "model_vs_impl_disagreements": n_model,
        "property_violations_on_impl": n_spec,
        "samples": [{"stream": "roundtrip", "str(rule)": t} for t in texts[:4]] + samples,
        "partial_theorems": [t for t in props["theorems"] if t.endswith("_partial")],
        "differential_only": ["tzinfos option (zoned stream: implementation vs keyword construction only)",
                              "tzids=None (tz.gettz) beyond the names used",
                              "date values outside YYYYMMDD[THHMMSS[Z]] (generic parser)",
                              "occurrences of the REAL objects (first %d compared per case); in the model: equal rule state => "
                              "equal RRNorm.normalize result => equal result of C01's iteration function "
                              "(C13_bridge_*, C13_str_roundtrip_occurrences); the step from RRNorm.normalize to the real "
                              "constructor is C01_gen_init_is_model (rcache), the map keyword record -> RRNorm.raw "
                              "(RstrBridge.raw_of) is hand-written glue" % NOCC,
                              "non-ASCII text",
                              "TZID combined with lower-casing of the whole text, TZID on an EXDATE line at "
                              "whole-text level (proved at line level)"],
        "known_findings_hit": verdict.known_hits,
        "anchored_line_coverage": covinfo,
        "regenerated_model": gen_status(),
    }
    C.write_evidence(CID, tier, t0, props, cov,
                     ["parser.parse modelled only on the compact forms YYYYMMDD[THHMMSS[Z]]",
                      "equal constructor state => equal RRNorm rule => equal occurrences of C01's iteration function is proved "
                      "(coq/rstr/RstrBridge.v); that C01's function is what the library iterates is C01's business; the real "
                      "objects are compared on their first occurrences per case",
                      "integers of more than 4300 digits (CPython's int() limit) are not generated; the model's int() has no limit",
                      "text over ASCII; CPython str.upper/split/splitlines/strip/int modelled (coq/rstr/RstrPrim.v) "
                      "and compared with CPython on every ASCII character",
                      "calendar.firstweekday() and datetime.now() are parameters of the model"],
                     len(verdict.violations))
    print("C13 %s: obligations %d/%d, %d rule-level cases (+%d primitive, %d date), model-diff %d, "
          "property violations %d, known %s, %.1fs" % (
              tier, props["discharged"], props["obligations"], stats["evaluations"], stats["prim_evaluations"],
              stats["date_evaluations"], n_model, n_spec, verdict.known_hits, time.time() - t0))
    return rc


if __name__ == "__main__":
    sys.exit(main())
