#!/usr/bin/env python3
"""C20 -- isoparse never misreads: accepted text is an ISO-8601 spelling of the result; every
other input is rejected with ValueError.

Theorems (coq/props/C20.v) relate the hand-written model coq/iso/IsoModel.v to the grammar-style
recogniser iso_denotes of coq/iso/IsoSpec.v.  This check ties the model to the code and searches
for misreadings directly: every generated string (valid renderings of every form, all single
edits and sampled double edits of them over a 30-symbol alphabet, exhaustive short strings, bad
separator configurations; str and bytes inputs) goes through the real implementation, the
extracted model and the extracted recogniser.
  implementation returns a value that the recogniser does not give     -> concrete violation
  implementation raises anything but ValueError                         -> concrete violation
  implementation differs from the model otherwise (e.g. now rejects a
  well-formed string)                                                   -> no-failing-input-found"""
import json
import os
import sys
import time

sys.path.insert(0, os.path.dirname(os.path.abspath(__file__)))
import common as C

C.reexec_under_impl_python()
import iso_common as I

CID = "C20"
VO = ["props/C20.vo", "iso/IsoGenCor.vo"] + I.VO_MODEL
MAXV = 25
GRAMMAR_NOTE = [
    "spec side of every comparison = iso_text / time_text (coq/iso/IsoText.v), the grammar written from the property "
    "text; the implementation's language iso_denotes (coq/iso/IsoSpec.v, proved equal to the model for all strings) "
    "is iso_text with exactly two changes (theorem C20_impl_language_is_recogniser), both OPEN findings:",
    "F-C20-2400-subus: '24:00:00.0000009' accepted as 24:00 (end-of-day check on the truncated microsecond) - a "
    "misreading; guard finding_2400_subus, witness C20_isoparse_text_sound_refuted_2400_subus",
    "F-C07-ordinal-digit-sep: YYYYDDD + digit separator + time rejected ('2014123412') - no misreading (C20 needs no "
    "guard for it), a C07 finding",
    "decisions of the text grammar: 'consistent separators' is per component (date / time / offset each basic or "
    "extended, freely combined: C07 quantifies over them independently); 'Z' and 'z'; '-00:00' is offset zero = UTC; "
    "with no configured separator ANY single ASCII byte separates date and time, also '+', '-', 'Z', ':', LF, NUL and "
    "digits ('2014-01-01-12-05' = 12:00 at -05:00); a bytes separator argument isoparser(sep=b'T') raises TypeError "
    "in the constructor and is outside the property (wrongly typed argument, no input string involved)",
]
MIN_EVALS = {"quick": 50000, "thorough": 500000}

ALPHA = [ord(c) for c in "0123456789-:.,+TtWZz_ \tax/\n"] + [0xE9, 0xFF11, 0x663, 0x0]
ALPHA_NAMES = {0xE9: "e-acute", 0xFF11: "fullwidth-1", 0x663: "arabic-indic-3", 0: "NUL"}


def _viol(lst, item):
    if len(lst) < MAXV:
        lst.append(item)


def new_out():
    return {"evals": 0, "hist": {}, "outcome": {}, "entries": {}, "kinds": {}, "nontrivial": set(),
            "concrete": [], "soft": [], "samples": [], "model_diff": 0, "spec_diff": 0, "misread": 0,
            "bad_exc": 0, "rejects_valid": 0, "accepted": 0, "nt_accepted": set(), "nt_near_miss": set()}


def bump(d, k, n=1):
    d[k] = d.get(k, 0) + n


def evaluate(o, cases, labels, nontriv, out):
    """run impl / model / spec on the cases and classify"""
    mres, sres = I.oracle_eval(o, cases)
    for case, lab, nt, rm, rs in zip(cases, labels, nontriv, mres, sres):
        ri = I.impl_call(case)
        out["evals"] += 1
        bump(out["hist"], lab)
        bump(out["entries"], I.ENTRY_NAMES[case[0]])
        bump(out["kinds"], case[2])
        acc = ri and ri[0] == 1
        bump(out["outcome"], "accepted" if acc else "ValueError" if ri == [0, 1] else str(ri))
        if acc:
            out["accepted"] += 1
        # non-trivial = accepted by the implementation or by the text grammar, or a NEAR MISS: a string from the
        # edit / boundary streams (within a few edits of a valid rendering) that passes the ASCII gate, i.e. whose
        # rejection is decided by the scanner itself
        if acc or rs[0] == 1:
            out["nontrivial"].add(I.case_hash(case))
            out["nt_accepted"].add(I.case_hash(case))
        elif nt and all(c < 128 for c in case[3]):
            out["nontrivial"].add(I.case_hash(case))
            out["nt_near_miss"].add(I.case_hash(case))
        flagged = False
        if acc and ri != rs:
            out["misread"] += 1
            flagged = True
            _viol(out["concrete"], {"kind": "misread: the implementation returns a value for a string that the "
                                            "ISO-8601 recogniser rejects or reads differently",
                                    "input": I.case_json(case), "stream": lab, "impl": ri, "spec": rs, "model": rm})
        elif not acc and ri != [0, 1]:
            out["bad_exc"] += 1
            flagged = True
            _viol(out["concrete"], {"kind": "rejection with an exception other than ValueError",
                                    "input": I.case_json(case), "stream": lab, "impl": ri, "spec": rs, "model": rm})
        if ri != rs:
            out["spec_diff"] += 1
            if ri == [0, 1] and rs[0] == 1:
                out["rejects_valid"] += 1
        if ri != rm:
            out["model_diff"] += 1
            if not flagged:
                _viol(out["soft"], {"kind": "correspondence: implementation differs from the extracted model "
                                            "(no misreading: the implementation rejects with ValueError a string "
                                            "the recogniser accepts, or the model is no longer faithful)",
                                    "input": I.case_json(case), "stream": lab, "impl": ri, "model": rm, "spec": rs})
        if len(out["samples"]) < 4 and out["evals"] % 1013 == 0:
            out["samples"].append({"input": I.case_json(case), "stream": lab, "impl": ri, "model": rm, "spec": rs})


# ----------------------------------------------------------------------------- base strings


def draw_bases(o, r, n, entry):
    """n valid renderings for the given entry point: list of (sep, codes, zutc)"""
    reqs, metas = [], []
    for _ in range(n * 2):
        if entry == 0:
            fmt = I.draw_fmt(r, False)
            if r.random() < 0.5:
                fmt = (None,) + fmt[1:6] + (r.choice([84, 84, 32, 116, 95, 45, 58, 43, 90, 48]),) + fmt[7:]
            off = I.draw_off(r) if fmt[2] else (0, 0, 0, 0)
            dt = I.draw_date(r) + I.draw_time(r)
            e = 21 if (fmt[2] and r.random() < 0.06) else 20
            if e == 21:
                fmt = fmt[:7] + ([0] * len(fmt[7]),)
            reqs.append(I.render_req(e, fmt, dt, off))
            metas.append(fmt[0])
        elif entry == 1:
            reqs.append((22, [r.randrange(10)] + list(I.draw_date(r))))
            metas.append(None)
        elif entry == 2:
            fmt = I.draw_fmt(r, False)
            reqs.append((23, [fmt[3], fmt[4], fmt[5]] + list(I.draw_off(r)) + list(I.draw_time(r)) + list(fmt[7])))
            metas.append(None)
        else:
            off = I.draw_off(r)
            reqs.append((24, [max(off[0], 1)] + list(off[1:])))
            metas.append(None)
    out = []
    for req, sep, res in zip(reqs, metas, o.call_many(reqs)):
        if entry == 0:
            wf, valid, codes, _ = I.split_render(res)
            ok = wf and valid
        elif entry == 1:
            ok, codes = bool(res[0]), tuple(res[2:2 + res[1]])
        elif entry == 2:
            ok, codes = bool(res[0]) and bool(res[1]), tuple(res[3:3 + res[2]])
        else:
            ok, codes = bool(res[0]), tuple(res[2:2 + res[1]])
        if ok and all(0 <= c < 128 for c in codes):
            out.append((sep, codes, r.random() < 0.8))
        if len(out) >= n:
            break
    return out


def single_edits(codes):
    n = len(codes)
    for i in range(n):
        for a in ALPHA:
            if a != codes[i]:
                yield "substitute", codes[:i] + (a,) + codes[i + 1:]
    for i in range(n + 1):
        for a in ALPHA:
            yield "insert", codes[:i] + (a,) + codes[i:]
    for i in range(n):
        yield "delete", codes[:i] + codes[i + 1:]
    for i in range(n - 1):
        if codes[i] != codes[i + 1]:
            yield "transpose", codes[:i] + (codes[i + 1], codes[i]) + codes[i + 2:]


def random_edit(r, codes):
    n = len(codes)
    k = r.randrange(4)
    if k == 0 and n:
        i = r.randrange(n)
        return codes[:i] + (r.choice(ALPHA),) + codes[i + 1:]
    if k == 1 or n == 0:
        i = r.randrange(n + 1)
        return codes[:i] + (r.choice(ALPHA),) + codes[i:]
    if k == 2:
        i = r.randrange(n)
        return codes[:i] + codes[i + 1:]
    if n >= 2:
        i = r.randrange(n - 1)
        return codes[:i] + (codes[i + 1], codes[i]) + codes[i + 2:]
    return codes


def kind_for(codes, j):
    if j % 5 == 4 and all(c < 256 for c in codes):
        return "bytes"
    if j % 10 == 3:
        return "sio"
    if j % 20 == 7 and all(c < 256 for c in codes):
        return "bio"
    return "str"


def job_edits(arg):
    tag, entry, nbase, ndouble = arg
    r = C.rng("C20/edits/" + tag)
    o = C.Oracle(I.AREA)
    out = new_out()
    bases = draw_bases(o, r, nbase, entry)
    cases, labels = [], []
    ename = I.ENTRY_NAMES[entry]
    j = 0
    for sep, codes, zutc in bases:
        cases.append((entry, sep, "str", codes, zutc))
        labels.append(ename + "|valid-rendering")
        for what, ed in single_edits(codes):
            j += 1
            cases.append((entry, sep, kind_for(ed, j), ed, zutc))
            labels.append(ename + "|single-" + what)
        for _ in range(ndouble):
            ed = random_edit(r, random_edit(r, codes))
            if r.random() < 0.2:
                ed = random_edit(r, ed)
            j += 1
            cases.append((entry, sep, kind_for(ed, j), ed, zutc))
            labels.append(ename + "|double-or-triple-edit")
        if len(cases) > 20000:
            evaluate(o, cases, labels, [True] * len(cases), out)
            cases, labels = [], []
    evaluate(o, cases, labels, [True] * len(cases), out)
    o.close()
    out["stream"] = tag
    out["bases"] = len(bases)
    return out


def all_strings(alpha, maxlen, first=None):
    import itertools
    for n in range(0 if first is None else 1, maxlen + 1):
        if first is None:
            for t in itertools.product(alpha, repeat=n):
                yield t
        else:
            for t in itertools.product(alpha, repeat=n - 1):
                yield (first,) + t


def job_short(arg):
    """exhaustive: prefix + every string of length <= maxlen over alpha (optionally with fixed first symbol)"""
    tag, entry, sep, prefix, alpha, maxlen, first, zutc = arg
    o = C.Oracle(I.AREA)
    out = new_out()
    lab = "%s|exhaustive prefix=%r alphabet=%r maxlen=%d%s" % (
        I.ENTRY_NAMES[entry], prefix, "".join(map(chr, alpha)), maxlen,
        "" if entry != 3 else "|zero_as_utc=%s" % zutc)
    pre = tuple(ord(c) for c in prefix)
    cases, labels, nts = [], [], []
    for t in all_strings(alpha, maxlen, first):
        codes = pre + t
        cases.append((entry, sep, "str", codes, zutc))
        labels.append(lab)
        # non-trivial: long enough to contain the first field of the entry point
        nts.append(len(codes) >= (3 if entry == 3 else 2 if entry == 2 else 4))
        if len(cases) >= 20000:
            evaluate(o, cases, labels, nts, out)
            cases, labels, nts = [], [], []
    evaluate(o, cases, labels, nts, out)
    o.close()
    out["exhaustive_space"] = lab
    out["stream"] = "short:" + tag
    return out


def short_jobs(tier):
    A = lambda s: [ord(c) for c in s]
    jobs = []
    q = tier == "quick"
    tz_alpha = A("0159+-:Z")
    for f in [None] if q else tz_alpha:
        jobs.append(("tz", 3, None, "", tz_alpha, 5 if q else 6, f, True))
    jobs.append(("tz0", 3, None, "", tz_alpha, 4 if q else 5, None, False))
    t_alpha = A("01246:.Z+")
    for f in [None] if q else t_alpha:
        jobs.append(("time", 2, None, "", t_alpha, 4 if q else 6, f, True))
    jobs.append(("time2", 2, None, "12:30", A("0156:.,Z+-"), 3 if q else 5, None, True))
    jobs.append(("time3", 2, None, "123045", A("0156:.,Z+-"), 3 if q else 5, None, True))
    d_alpha = A("0135-WT _")
    for pre in (["2014", "0001"] if q else ["2014", "0001", "9999", "2016", "0000"]):
        jobs.append(("date", 1, None, pre, d_alpha, 4 if q else 6, None, True))
    i_alpha = A("01246:.ZT+-")
    for sep, pre in [(None, "2014-01-01"), ("T", "2014-01-01"), (None, "20140101"), (None, "2014-W01-1"),
                     (None, "2014001"), (None, "2014-001"), ("T", "9999-12-31"), (None, "2014-02")]:
        jobs.append(("iso", 0, sep, pre, i_alpha, 3 if q else 5, None, True))
    for sep, pre in [(None, "2014"), (" ", "2014")]:
        jobs.append(("iso-date", 0, sep, pre, d_alpha, 4 if q else 6, None, True))
    return jobs


def boundary_cases():
    """range-check boundaries: calendar / week / ordinal / clock / offset values at and just outside their limits"""
    cases, labels = [], []
    A = lambda t: tuple(ord(c) for c in t)
    years = [0, 1, 4, 100, 400, 1582, 1600, 1899, 1900, 1999, 2000, 2003, 2004, 2015, 2016, 2019, 2020, 2023, 2024,
             2026, 2099, 2100, 9995, 9996, 9998, 9999]
    for y in years:
        Y = "%04d" % y
        for n in (0, 1, 59, 60, 61, 365, 366, 367, 999):
            for t in (Y + "-%03d" % n, Y + "%03d" % n, Y + "-%03dT12" % n):
                cases.append((0, None, "str", A(t), True)); labels.append("isoparse|boundary-ordinal")
            cases.append((1, None, "str", A(Y + "-%03d" % n), True)); labels.append("parse_isodate|boundary-ordinal")
        for w in (0, 1, 2, 51, 52, 53, 54, 99):
            for d in (None, 0, 1, 4, 7, 8, 9):
                t = Y + "-W%02d" % w + ("" if d is None else "-%d" % d)
                cases.append((0, None, "str", A(t), True)); labels.append("isoparse|boundary-week")
                cases.append((1, None, "str", A(t.replace("-", "")), True)); labels.append("parse_isodate|boundary-week")
        for m in (0, 1, 2, 3, 4, 12, 13):
            for d in (0, 1, 28, 29, 30, 31, 32):
                cases.append((0, None, "str", A(Y + "-%02d-%02d" % (m, d)), True)); labels.append("isoparse|boundary-calendar")
                cases.append((1, None, "str", A(Y + "%02d%02d" % (m, d)), True)); labels.append("parse_isodate|boundary-calendar")
            cases.append((0, None, "str", A(Y + "-%02d" % m), True)); labels.append("isoparse|boundary-calendar")
    for h in (0, 1, 12, 23, 24, 25, 99):
        for mi in (0, 1, 59, 60):
            for sec in (None, 0, 59, 60, 61):
                for fr in ("", ".0", ",000000", ".000001", ".9999999", ".0000009"):
                    if sec is None and fr:
                        continue
                    t = "%02d:%02d" % (h, mi) + ("" if sec is None else ":%02d" % sec) + fr
                    cases.append((2, None, "str", A(t), True)); labels.append("parse_isotime|boundary-clock")
                    cases.append((2, None, "str", A(t.replace(":", "") + "Z"), True)); labels.append("parse_isotime|boundary-clock")
                    for D in ("2014-12-31T", "9999-12-31T", "20161231 "):
                        cases.append((0, None, "str", A(D + t), True)); labels.append("isoparse|boundary-clock")
        cases.append((2, None, "str", A("%02d" % h), True)); labels.append("parse_isotime|boundary-clock")
    for sg in "+-":
        for oh in (0, 1, 12, 14, 23, 24, 25, 99):
            for om in (None, 0, 1, 30, 59, 60, 99):
                for colon in ((""), (":")):
                    if om is None and colon:
                        continue
                    t = sg + "%02d" % oh + ("" if om is None else colon + "%02d" % om)
                    for z in (True, False):
                        cases.append((3, None, "str", A(t), z)); labels.append("parse_tzstr|boundary-offset")
                    cases.append((2, None, "str", A("12:30" + t), True)); labels.append("parse_isotime|boundary-offset")
                    cases.append((0, None, "str", A("2014-01-01T00" + t), True)); labels.append("isoparse|boundary-offset")
    return cases, labels


def fixed_cases():
    """bad separator configurations, empty input, single characters"""
    cases, labels = [], []
    s = tuple(ord(c) for c in "2014-01-01T12:30")
    for sep in ["", "TT", "5", "0", "\xe9", "\x80", "１", "T", " ", "\x7f", "\x00"]:
        cases.append((0, sep, "str", s, True))
        labels.append("isoparse|separator-configuration")
        cases.append((0, sep, "str", s[:10] + ((ord(sep[0]) if sep else 84),) + s[11:], True))
        labels.append("isoparse|separator-configuration")
    for entry in range(4):
        cases.append((entry, None, "str", (), True))
        labels.append(I.ENTRY_NAMES[entry] + "|empty")
        cases.append((entry, None, "bytes", (), True))
        labels.append(I.ENTRY_NAMES[entry] + "|empty")
        for c in range(0, 256):
            cases.append((entry, None, "bytes" if c % 2 else "str", (c,), True))
            labels.append(I.ENTRY_NAMES[entry] + "|single-character")
    return cases, labels


def regressions(o, verdict):
    path = os.path.join(C.VERIF, "corpus", "regressions", CID + ".jsonl")
    n = 0
    if not os.path.exists(path):
        return 0
    for line in open(path):
        line = line.strip()
        if not line or line.startswith("#"):
            continue
        d = json.loads(line)
        case = I.case_from_json(d)
        ri = I.impl_call(case)
        (rm,), (rs,) = I.oracle_eval(o, [case])
        n += 1
        if ri != d["expect"] or ri != rs:
            verdict.violation({"kind": "regression corpus: implementation differs from the recorded expected value "
                                       "/ the recogniser", "input": I.case_json(case), "impl": ri,
                               "expect": d["expect"], "model": rm, "spec": rs})
        elif rm != ri:
            verdict.violation({"kind": "regression corpus: model differs from implementation",
                               "input": I.case_json(case), "impl": ri, "model": rm}, concrete=False)
    return n


def replay(path):
    data = json.load(open(path))
    C.ensure_built([I.AREA], I.VO_MODEL)
    inp = data.get("input")
    if isinstance(inp, dict) and "codes" in inp:
        case = I.case_from_json(inp)
        o = C.Oracle(I.AREA)
        (rm,), (rs,) = I.oracle_eval(o, [case])
        o.close()
        print("input      %s(%r) sep=%r kind=%s" % (inp["entry"], inp.get("text"), inp.get("sep"), inp.get("kind")))
        print("impl       ", I.impl_call(case))
        print("model      ", rm)
        print("spec       ", rs, "(recogniser; [0, 1] = not an ISO-8601 spelling -> ValueError expected)")
    else:
        print("replay names a broken obligation / machinery problem, no concrete input:")
        print(json.dumps(data, indent=1)[:3000])
    return 0


def main():
    argv = sys.argv[1:]
    if "--replay" in argv:
        return replay(argv[argv.index("--replay") + 1])
    tier = C.tier_from_argv(argv)
    t0 = time.time()
    verdict = C.Verdict(CID, I.MATCHERS)
    build_err = None
    try:
        C.ensure_built([I.AREA], VO)
    except C.BuildError as ex:
        build_err = ex
    if build_err is not None:
        # translator abort (harness/gen_*.py is fail-closed) or forbidden construct: nothing was re-checked
        names = I.theorem_names(CID)
        props = {"obligations": len(names), "discharged": 0, "theorems": names, "assumptions": {},
                 "cmd": "coqc props/C20.v", "log": "%s\n%s" % (build_err.what, build_err.log), "ok": False}
    else:
        props = I.apply_poison(C.compile_props(CID))
    t_build = time.time() - t0        # regenerate + make + coqc props, including the wait for the build lock
    have_oracle = os.path.exists(os.path.join(C.BIN, "oracle_" + I.AREA))
    tot = new_out()
    floors = []
    spaces, n_reg, cov_summary = [], 0, {"available": False}
    try:
      if have_oracle:
          o = C.Oracle(I.AREA)
          n_reg = regressions(o, verdict)
          fc, fl = fixed_cases()
          bc, bl = boundary_cases()
          fc, fl = fc + bc, fl + bl
          res0 = new_out()
          # the deterministic streams (separator configurations, single characters, range boundaries: all four
          # entry points) run in-process under coverage.py restricted to isoparser.py
          _, cov_summary = I.measure_anchor_coverage(lambda: evaluate(o, fc, fl, [True] * len(fc), res0))
          o.close()
          res0["stream"] = "deterministic"
          q = tier == "quick"
          if q:
              nproc = 4
              ejobs = [("q-iso%d" % i, 0, 10, 40) for i in range(6)] + \
                      [("q-aux%d-%d" % (e, i), e, 12, 40) for e in (1, 2, 3) for i in range(2)]
          else:
              nproc = 12
              ejobs = [("t-iso%d" % i, 0, 40, 300) for i in range(36)] + \
                      [("t-aux%d-%d" % (e, i), e, 60, 300) for e in (1, 2, 3) for i in range(8)]
          results = [res0] + I.run_pool(job_edits, ejobs, nproc) + I.run_pool(job_short, short_jobs(tier), nproc)
          for res in results:
              for k in ("evals", "model_diff", "spec_diff", "misread", "bad_exc", "rejects_valid", "accepted"):
                  tot[k] += res[k]
              for k in ("hist", "outcome", "entries", "kinds"):
                  I.merge_hist(tot[k], res[k])
              tot["nontrivial"] |= res["nontrivial"]
              tot["nt_accepted"] |= res["nt_accepted"]
              tot["nt_near_miss"] |= res["nt_near_miss"]
              floors.append((res.get("stream", "?"), res["evals"], res["accepted"]))
              tot["concrete"] += res["concrete"]
              tot["soft"] += res["soft"]
              tot["samples"] += res["samples"]
              if "exhaustive_space" in res:
                  spaces.append(res["exhaustive_space"])
    except Exception as ex:      # oracle / pool failure: the property is not shown to hold in this run
        import traceback
        tot["soft"].append({"kind": "machinery failure during the correspondence run: %r" % (ex,), "input": None,
                            "traceback": traceback.format_exc()[-2000:]})
    concrete = sorted(tot["concrete"], key=lambda p: (len(p["input"]["codes"]), p["input"]["codes"]))
    _codes = lambda p: (p.get("input") or {}).get("codes", [])
    n_real = 0
    for p in concrete:
        if verdict.violation(p, concrete=True):
            n_real += 1
            if n_real >= 5:
                break
    # evaluation floors: a stream that ran empty (no oracle, no bases drawn, empty job) shows nothing
    for name, ev, acc_n in floors:
        if ev == 0 or (name.startswith(("q-", "t-")) and acc_n == 0):
            tot["soft"].append({"kind": "machinery: stream %r produced %d evaluations / %d accepted strings "
                                        "(floor: > 0 each)" % (name, ev, acc_n), "input": None})
    if not floors or tot["evals"] < MIN_EVALS[tier]:
        tot["soft"].append({"kind": "machinery: only %d evaluations (floor %d): the correspondence did not run"
                                    % (tot["evals"], MIN_EVALS[tier]), "input": None})
    if not n_real:
        for p in sorted(tot["soft"], key=lambda p: len(_codes(p)))[:3]:
            verdict.violation(p, concrete=False)
    if not props["ok"] and not verdict.violations:
        verdict.violation({"kind": I.broken_kind(build_err, props), "theorem_file": "coq/props/C20.v",
                           "theorems": props["theorems"], "discharged": props["discharged"], "input": None,
                           "log_tail": props["log"][-3000:]}, concrete=False)
    rc = verdict.finish()
    partial = [t for t in props["theorems"] if t.endswith("_partial")]
    # compact histogram: exhaustive spaces are listed separately
    hist = {}
    for k, v in tot["hist"].items():
        kk = k.split("|exhaustive")[0] + "|exhaustive-short-strings" if "|exhaustive" in k else k
        hist[kk] = hist.get(kk, 0) + v
    cov = {
        "evaluations": tot["evals"] + n_reg,
        "distinct_nontrivial": len(tot["nontrivial"]),
        "rule": "streams: (1) valid renderings of every supported form (rendered by the extracted spec) with ALL "
                "single edits (substitute / insert / delete / transpose over the %d-symbol alphabet %r + %s) and "
                "sampled double/triple edits, for all four entry points and configured separators; (2) exhaustive "
                "short strings (prefix + every string up to a length over a small alphabet, spaces listed in "
                "exhaustive_spaces); (3) separator configurations, empty and single-character inputs. "
                "str inputs; every 5th edit as bytes, every 10th as StringIO, every 20th as BytesIO. non-trivial = (a) a string accepted by "
                "the implementation or by the text grammar (distinct_accepted), or (b) a NEAR MISS (distinct_near_miss): "
                "a rejected string of the edit / boundary / separator streams, or an exhaustive-stream string long enough "
                "to contain the first field, that passes the ASCII gate (so its rejection is decided by the scanner, "
                "not by _takes_ascii); distinct = distinct (entry point, configured separator, string, zero_as_utc), "
                "counted by a 64-bit hash set" % (len(ALPHA), "".join(chr(c) for c in ALPHA if 32 <= c < 127),
                                          ", ".join(ALPHA_NAMES.values()) + ", TAB, LF"),
        "distinct_accepted": len(tot["nt_accepted"]),
        "distinct_near_miss": len(tot["nt_near_miss"]),
        "stream_floors": [{"stream": n, "evaluations": e, "accepted": a} for n, e, a in floors],
        "grammar_the_theorems_are_about": GRAMMAR_NOTE,
        "exhaustive": False,
        "exhaustive_spaces": spaces,
        "samples": tot["samples"][:12],
        "input_distribution": {"by_stream": dict(sorted(hist.items())), "by_outcome": tot["outcome"],
                               "by_entry_point": tot["entries"], "by_input_kind": tot["kinds"]},
        "accepted_by_implementation": tot["accepted"],
        "misreadings": tot["misread"],
        "non_ValueError_exceptions": tot["bad_exc"],
        "model_vs_impl_disagreements": tot["model_diff"],
        "recogniser_vs_impl_disagreements": tot["spec_diff"],
        "well_formed_but_rejected_by_impl": tot["rejects_valid"],
        "regression_corpus_cases": n_reg,
        "anchor_coverage_of_deterministic_streams": cov_summary,
        "partial_theorems": partial,
        "model_tie": I.model_tie(build_err, props),
        "only_differential_tested": ["TypeError for non-text, non-bytes inputs is outside the property"],
        "known_findings_hit": verdict.known_hits,
    }
    C.write_evidence(CID, tier, t0, props, cov,
                     ["CPython datetime/date/time constructors and date + timedelta modelled by Cal.valid_ymd / "
                      "ord_of_ymd / ymd_of_ord (coq/base/Cal.v), not verified",
                      "bytes.isdigit / int(bytes) on ASCII digits modelled by is_digit / int_acc",
                      "regex [\\.,]([0-9]+) modelled by frac_match/span_digits",
                      "model <-> source: harness/gen_iso.py (fail-closed ast translator, accepted subset in its docstring / notes/iso.md) regenerates coq/gen/IsoGen.v from isoparser.py on every run and IsoGenThm.v proves gen_f = model_f; the decorator _takes_ascii is translated too (input kinds str / bytes / stream -> gen_takes_ascii); trusted: the translator, the primitives of coq/iso/IsoGenLib.v (read_in, encode_ascii, py_int, ...), the AST-hash pins of isoparser.__init__, the module tail, the import block and the (unevaluated) arguments of raise ValueError(...); the differential run ties the running bytecode"],
                     len(verdict.violations))
    print("C20 %s: obligations %d/%d, %d evaluations (%d distinct non-trivial, %d accepted), misread %d, "
          "non-ValueError %d, model-diff %d, spec-diff %d, %.1fs (build+proofs incl. lock wait %.0fs)" % (
              tier, props["discharged"], props["obligations"], cov["evaluations"], len(tot["nontrivial"]),
              tot["accepted"], tot["misread"], tot["bad_exc"], tot["model_diff"], tot["spec_diff"],
              time.time() - t0, t_build))
    return rc


if __name__ == "__main__":
    sys.exit(main())
