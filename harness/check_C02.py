#!/usr/bin/env python3
"""C02 -- parse() inverts every supported unambiguous date/time rendering.

Theorems (coq/props/C02.v: parse_render_<template> over the hand model) + correspondence of the
real parser with the extracted model on rendered strings + the implementation compared directly
with the extracted executable SPEC (coq/parse/ParseSpec.v: render / expected_dt / expected_off)
for every template x boundary-biased datetimes x offsets x flag spellings x process time zones."""
import json
import os
import sys
import time

sys.path.insert(0, os.path.dirname(os.path.abspath(__file__)))
import common as C

# pinned environment (explicit, not inherited); the check switches TZ itself per stream
os.environ["TZ"] = "UTC"
os.environ["PYTHONINTMAXSTRDIGITS"] = "4300"
C.reexec_under_impl_python()
import parse_common as PC

CID = "C02"
VO = ["props/C02.vo"] + PC.VO_MODEL
E_RENDER = 20
E_RENDER_CF = 21      # compact time + dot/comma fraction (coq/parse/ParseSpec2.v)
TZ_SETTINGS = ["UTC", "EST5EDT", "GMT0BST"]

DFORMS = ["DNone", "DIso", "DCompact", "DSlashYMD", "DUS", "DEU", "DEUDot", "DMonDY", "DMonthDY", "DDMonY",
          "DDMonthY", "DDashMon", "DYY", "DUSYY"]
JOINERS = ["JT", "JSpace", "JNone"]
TFORMS = ["TNone", "THM", "THMS", "TFrac", "TCompactHM", "TCompactHMS", "T12HM", "T12HMS", "T12H", "TWords"]
OFORMS = ["ONone", "OZ", "OUTC", "OGMT", "OHHMM", "OHH_MM", "OHH"]


def all_templates():
    """every template shape (wf is decided by the spec); TFrac k in 1..9, both decimal marks"""
    out = []
    for d in range(len(DFORMS)):
        for j in range(3):
            for t in range(len(TFORMS)):
                ks = [(0, 0)]
                if TFORMS[t] == "TFrac":
                    ks = [(k, c) for k in (1, 2, 3, 6, 7, 9) for c in (0, 1)]
                elif TFORMS[t] in ("T12HM", "T12HMS", "T12H"):
                    ks = [(0, 0), (0, 1)]
                for (k, fl) in ks:
                    for o in range(len(OFORMS)):
                        out.append((0, d, j, t, k, fl, o))
    out.append((1, 0, 0, 0, 0, 0, 0))
    for o in range(len(OFORMS)):
        out.append((2, 0, 0, 0, 0, 0, o))
    return out


def tpl_name(t):
    if t[0] == "cf":
        _, sp, k, cm, o = t
        return "DCompact/%s/TCompactFrac%d%s/%s" % ("JSpace" if sp else "JT", k, "," if cm else ".", OFORMS[o])
    kd, d, j, tf, k, fl, o = t
    if kd == 1:
        return "ctime"
    if kd == 2:
        return "rfc2822/" + OFORMS[o]
    tn = TFORMS[tf] + ("%d%s" % (k, "," if fl else ".") if TFORMS[tf] == "TFrac" else ("sp" if fl and tf in (6, 7, 8) else ""))
    return "%s/%s/%s/%s" % (DFORMS[d], JOINERS[j], tn, OFORMS[o])


# ---- known finding: zero-padded years 1..99 in templates whose year token reaches _ymd.append as a number
def m_padded_small_year(payload):
    """round trip fails ONLY in the year, the rendered year is 1..99 (zero-padded to four digits) in a
    month-name / ctime / RFC 2822 form, and the year returned is that year pivoted into the
    current century window (same last two digits, within 50 years of the parserinfo year)"""
    inp = payload.get("input")
    if not (payload.get("kind", "").startswith("round trip") and isinstance(inp, dict)):
        return False
    if not (inp.get("dt") is not None and 1 <= inp["dt"][0] <= 99 and inp.get("year_as_number") is True):
        return False
    impl, exp = payload.get("impl"), payload.get("expected")
    if not (impl and exp and impl[0] and impl[0][0] == "ok"):
        return False
    got, want = list(impl[0][1]), list(exp[0])
    cur = (inp.get("opts") or {}).get("cur_year") or PC.real_year()
    return (got[1:] == want[1:] and impl[1] == exp[1] and got[0] != want[0]
            and got[0] % 100 == want[0] % 100 and cur - 50 <= got[0] < cur + 50)


def m_tzlocal_range(payload):
    """the round trip fails ONLY by OverflowError, the rendered zone name is one of time.tzname under the
    case's process time zone (the text resolves to tz.tzlocal), and tzlocal.tzname() cannot serve the
    expected wall time (Local.tzlocal_raises: a zone with daylight saving time, standard time in force, and
    the wall time within |dst_saved| of datetime.min / datetime.max)"""
    inp = payload.get("input")
    if not (payload.get("kind", "").startswith("round trip") and isinstance(inp, dict) and inp.get("tz")):
        return False
    impl, exp = payload.get("impl"), payload.get("expected")
    if not (impl and exp and impl[0] and list(impl[0]) == ["OverflowError"]):
        return False
    return PC.tzlocal_range_hit(PC.opts_from_json(inp.get("opts")), inp["s"], inp["tz"], exp[0])


MATCHERS = {"m_padded_small_year": m_padded_small_year, "m_tzlocal_range": m_tzlocal_range}
# date forms in which the four-digit year is a token of its own that _parse_numeric_token appends as a
# Decimal (so the "more than two digits => year" rule of _ymd.append is not applied)
YEAR_AS_NUMBER = {"DMonDY", "DMonthDY", "DDMonY", "DDMonthY"}


def year_as_number(t):
    if t[0] == "cf":
        return False
    return t[0] in (1, 2) or DFORMS[t[1]] in YEAR_AS_NUMBER


PROVED_DETAIL = {
    "C02_parse_render_word_utc": "{DD Mon YYYY, DD Month YYYY, Mon DD, YYYY, Month DD, YYYY} HH:MM[:SS] + Z / UTC / GMT, year >= 100, "
                                 "name not in time.tzname (helper rdA)",
    "C02_parse_render_name_offset": "{DD Mon YYYY, DD Month YYYY} HH:MM[:SS] + {+,-}{HH:MM, HH, HHMM}, year >= 100 (helper rdA)",
    "C02_parse_render_comma_offset": "{Mon DD, YYYY; Month DD, YYYY} HH:MM[:SS] + {+,-}{HH:MM, HH, HHMM}, year >= 100 (helper rdA)",
    "C02_parse_render_us_offset": "MM/DD/YYYY{T, space}HH:MM[:SS] + {+,-}{HH:MM, HH, HHMM}, dayfirst = yearfirst = False (helper rdA)",
    "C02_parse_render_slash_offset": "YYYY/MM/DD HH:MM[:SS] + {+,-}{HH:MM, HH, HHMM} (helper rdA)",
    "C02_parse_render_dash_mon": "DD-Mon-YYYY x {date only, ' HH:MM', ' HH:MM:SS'}, all years (helper rdB)",
    "C02_parse_render_eu_dot": "DD.MM.YYYY x {date only, ' HH:MM', ' HH:MM:SS'}, dayfirst=True, all years (helper rdB)",
    "C02_parse_render_frac_DSlashYMD": "YYYY/MM/DD{T, space}HH:MM:SS{.,}f, k = 1..9 (helper rdB)",
    "C02_parse_render_frac_DUS": "MM/DD/YYYY{T, space}HH:MM:SS{.,}f, k = 1..9, yearfirst False (helper rdB)",
    "C02_parse_render_frac_DDMonY": "DD Mon YYYY HH:MM:SS{.,}f, year >= 100 (helper rdB)",
    "C02_parse_render_frac_DDMonthY": "DD Month YYYY HH:MM:SS{.,}f, year >= 100 (helper rdB)",
    "C02_parse_render_frac_DDashMon": "DD-Mon-YYYY HH:MM:SS{.,}f, all years (helper rdB)",
    "C02_parse_render_frac_DMonDY": "Mon DD, YYYY HH:MM:SS{.,}f, year >= 100 (helper rdB)",
    "C02_parse_render_frac_DMonthDY": "Month DD, YYYY HH:MM:SS{.,}f, year >= 100 (helper rdB)",
    "C02_parse_render_frac_DEUDot": "DD.MM.YYYY HH:MM:SS{.,}f, dayfirst=True (helper rdB)",
    "C02_parse_render_frac_DEU": "DD/MM/YYYY HH:MM:SS{.,}f, dayfirst=True (helper rdB)",
    "C02_parse_render_iso_local": "YYYY-MM-DD{T, space}HH:MM[:SS] + ' UTC' / ' GMT' where that name IS one of time.tzname "
                                  "(8 templates): local zone, fold from the two tzname() bits, UTC when the zone does not "
                                  "report the name; statement about the runs in which tzlocal.tzname() answers",
    "C02_parse_render_iso_local_lz": "the same 8 templates on parse_lz (failing tz.tzlocal): OverflowError exactly when "
                                     "tzlocal_raises holds at the expected wall time (F-C02-tzlocal-range), else the round trip",
    "C02_parse_render_compact_offset": "YYYYMMDD{T, space}HHMM[SS] + {+,-}HH:MM (8 templates), all offsets -23:59..+23:59",
    "C02_parse_render_compact_offset2": "YYYYMMDD{T, space}HHMM[SS] + {+,-}HH (8 templates)",
    "C02_parse_render_compact_offset4": "YYYYMMDD{T, space}HHMM[SS] + {+,-}HHMM (8 templates)",
    "C02_parse_render_numeric_date_time": "{YYYY-MM-DD, YYYY/MM/DD} x {T, space} x {HH:MM, HH:MM:SS}, no zone (8 templates), all valid "
                                          "datetimes/defaults, dayfirst=False",
    "C02_parse_render_us_date_time": "MM/DD/YYYY x {T, space} x {HH:MM, HH:MM:SS} (4 templates), dayfirst=yearfirst=False",
    "C02_parse_render_name_date": "{DD Mon YYYY, DD Month YYYY} x {date only, ' HH:MM', ' HH:MM:SS'} (6 templates), year >= 100",
    "C02_parse_render_iso_frac": "YYYY-MM-DD{T, space}HH:MM:SS{. ,}f, k = 1..9 fraction digits (36 templates)",
    "C02_parse_render_mon_dd_yyyy": "Mon DD, YYYY x {date only, ' HH:MM', ' HH:MM:SS'}, year >= 100",
    "C02_parse_render_month_dd_yyyy": "Month DD, YYYY x {date only, ' HH:MM', ' HH:MM:SS'}, year >= 100",
    "C02_parse_render_compact": "YYYYMMDD, YYYYMMDD{T, space}HHMM[SS], YYYYMMDDHHMM[SS], YYYYMMDDTHH:MM[:SS] (9 templates)",
    "C02_parse_render_12h_hm": "YYYY-MM-DD hh:MM[ ]AM|PM", "C02_parse_render_12h_hms": "YYYY-MM-DD hh:MM:SS[ ]AM|PM",
    "C02_parse_render_12h_h": "YYYY-MM-DD hh[ ]AM|PM (hour only)",
    "C02_parse_render_mon_dd_yyyy_12h": "Mon DD, YYYY hh:MM[ ]AM|PM, year >= 100",
    "C02_parse_render_ctime": "ctime(): 'Www Mon DD HH:MM:SS YYYY', day space-padded, year >= 100",
    "C02_parse_render_rfc_named": "RFC 2822 'Www, DD Mon YYYY HH:MM:SS GMT|UTC', year >= 100",
    "C02_parse_render_misc": "YYYY-MM-DD / YYYY/MM/DD alone, HH:MM[:SS] alone, YYYY-MM-DD NNhNNmNNs (6 templates)",
    "C02_parse_render_flag_dates": "DD/MM/YYYY (dayfirst), YY-MM-DD (yearfirst), MM/DD/YY, two-digit years within the window (9 templates)",
    "C02_parse_render_iso_offset4": "YYYY-MM-DD{T, space}{HH:MM, HH:MM:SS}{+HHMM, -HHMM}",
    "C02_parse_render_rfc_offset": "RFC 2822 'Www, DD Mon YYYY HH:MM:SS +HHMM', year >= 100",
    "C02_parse_render_slash_utc": "YYYY/MM/DD{T, space}{HH:MM, HH:MM:SS} + Z/UTC/GMT", "C02_parse_render_us_utc": "MM/DD/YYYY ... + Z/UTC/GMT",
    "C02_parse_render_iso_hm_utc": "YYYY-MM-DD{T, space}HH:MM + Z/UTC/GMT", "C02_parse_render_compact_utc": "YYYYMMDD{T, space}HHMM[SS] + Z/UTC/GMT",
    "C02_parse_render_iso_utc": "YYYY-MM-DD{T, space}HH:MM:SS + {Z, ' UTC', ' GMT'} (6 templates) -> UTC, when UTC/GMT are "
                                "not local zone names",
    "C02_parse_render_iso_offset": "YYYY-MM-DDTHH:MM:SS + {+HH:MM, -HH:MM, +HH, -HH} (2 templates x sign), offsets "
                                   "-23:59..+23:59 -> exactly the rendered offset (UTC when zero)",
}


def theorem_for(t):
    """which parse_render theorem of coq/props/C02.v covers template t (None = tested-only)"""
    if t[0] == "cf":
        # ---- helper rdB: YYYYMMDD{T, }HHMMSS{.,}f (ParseSpec2.render_cf), k = 1..9
        _, sp, k, cm, o = t
        O = OFORMS[o]
        if not 1 <= k <= 9:
            return None
        if O == "ONone":
            return "C02_parse_render_compact_frac"
        if O in ("OZ", "OUTC", "OGMT"):
            return "C02_parse_render_compact_frac_utc_" + O
        if O in ("OHH_MM", "OHH"):
            return "C02_parse_render_compact_frac_offset_" + O
        if O == "OHHMM":
            return "C02_parse_render_compact_frac_offset4"
        return None
    kd, d, j, tf, k, fl, o = t
    if kd == 1:
        return "C02_parse_render_ctime"
    if kd == 2:
        if OFORMS[o] in ("OGMT", "OUTC"):
            return "C02_parse_render_rfc_named"
        return "C02_parse_render_rfc_offset" if OFORMS[o] == "OHHMM" else None
    D, J, T, O = DFORMS[d], JOINERS[j], TFORMS[tf], OFORMS[o]
    jt = (J, T)
    # ---- helper rdB's families (coq/parse/RenderX*.v)
    if T == "TFrac" and 1 <= k <= 9:
        if D == "DIso" and J in ("JT", "JSpace"):
            if O in ("OHH_MM", "OHH"):
                return "C02_parse_render_iso_frac_offset_%s_%s" % (J, O)
            if O == "OHHMM":
                return "C02_parse_render_iso_frac_offset4_%s" % J
            if O == "OZ":
                return "C02_parse_render_iso_frac_utc_%s_OZ" % J
            if O in ("OUTC", "OGMT"):
                return "C02_parse_render_iso_frac_utc_%s_%s_%s" % (J, O, "comma" if fl else "dot")
        if O == "ONone":
            if D in ("DSlashYMD", "DUS") and J in ("JT", "JSpace"):
                return "C02_parse_render_frac_" + D
            if D in ("DDMonY", "DDMonthY", "DDashMon", "DMonDY", "DMonthDY", "DEUDot", "DEU") and J == "JSpace":
                return "C02_parse_render_frac_" + D
    # ---- helper rdB, batches 4-5
    if D == "DNone" and J == "JNone" and T == "TFrac" and 1 <= k <= 9 and O == "ONone":
        return "C02_parse_render_time_frac"
    if O == "ONone" and J == "JSpace":
        if D == "DMonDY" and T == "T12HMS" and not fl:
            return "C02_parse_render_12h_DMonDY_T12HMS_nosp"
        if D == "DMonthDY" and T == "T12HMS":
            return "C02_parse_render_12h_DMonthDY_T12HMS_" + ("sp" if fl else "nosp")
        if D in ("DDashMon", "DDMonY", "DDMonthY") and T == "T12HM":
            return "C02_parse_render_12h_%s_T12HM" % D
    # ---- helper rdB, batch 3: time-only forms with zones, 12-hour clock after other date forms
    if D == "DNone" and J == "JNone" and T in ("THM", "THMS"):
        if O in ("OHH_MM", "OHH"):
            return "C02_parse_render_time_offset_" + T
        if O == "OHHMM":
            return "C02_parse_render_time_offset4"
        if O in ("OZ", "OUTC", "OGMT"):
            return "C02_parse_render_time_utc_" + O
    if O == "ONone" and J == "JSpace" and T in ("T12HM", "T12HMS"):
        if D in ("DUS", "DSlashYMD"):
            return "C02_parse_render_12h_%s_%s" % (D, T)
        if D == "DMonthDY" and T == "T12HM":
            return "C02_parse_render_12h_DMonthDY_T12HM_" + ("sp" if fl else "nosp")
        if D == "DMonDY" and T == "T12HMS" and fl:
            return "C02_parse_render_12h_DMonDY_T12HMS_sp"
    if D in ("DDMonY", "DDMonthY", "DMonDY", "DMonthDY") and J == "JSpace" and T in ("THM", "THMS") \
            and O in ("OZ", "OUTC", "OGMT"):
        return "C02_parse_render_word_utc"
    # ---- helper rdA's families (coq/parse/RenderXOff*.v)
    if O in ("OHH_MM", "OHH", "OHHMM") and T in ("THM", "THMS"):
        if D in ("DDMonY", "DDMonthY") and J == "JSpace":
            return "C02_parse_render_name_offset"
        if D in ("DMonDY", "DMonthDY") and J == "JSpace":
            return "C02_parse_render_comma_offset"
        if D == "DUS" and J in ("JT", "JSpace"):
            return "C02_parse_render_us_offset"
        if D == "DSlashYMD" and J == "JSpace":
            return "C02_parse_render_slash_offset"
    if O == "ONone" and jt in (("JNone", "TNone"), ("JSpace", "THM"), ("JSpace", "THMS")):
        if D == "DDashMon":
            return "C02_parse_render_dash_mon"
        if D == "DEUDot":
            return "C02_parse_render_eu_dot"
    if O == "ONone":
        if D in ("DIso", "DSlashYMD") and J in ("JT", "JSpace") and T in ("THM", "THMS"):
            return "C02_parse_render_numeric_date_time"
        if D == "DUS" and J in ("JT", "JSpace") and T in ("THM", "THMS"):
            return "C02_parse_render_us_date_time"
        if D in ("DDMonY", "DDMonthY") and jt in (("JNone", "TNone"), ("JSpace", "THM"), ("JSpace", "THMS")):
            return "C02_parse_render_name_date"
        if D == "DIso" and J in ("JT", "JSpace") and T == "TFrac" and 1 <= k <= 9:
            return "C02_parse_render_iso_frac"
        if D == "DMonDY" and jt in (("JNone", "TNone"), ("JSpace", "THM"), ("JSpace", "THMS")):
            return "C02_parse_render_mon_dd_yyyy"
        if D == "DMonthDY" and jt in (("JNone", "TNone"), ("JSpace", "THM"), ("JSpace", "THMS")):
            return "C02_parse_render_month_dd_yyyy"
        if D == "DCompact" and jt in (("JNone", "TNone"), ("JT", "TCompactHM"), ("JT", "TCompactHMS"),
                                      ("JSpace", "TCompactHM"), ("JSpace", "TCompactHMS"), ("JNone", "TCompactHM"),
                                      ("JNone", "TCompactHMS"), ("JT", "THM"), ("JT", "THMS")):
            return "C02_parse_render_compact"
        if D == "DIso" and J == "JSpace" and T == "T12HM":
            return "C02_parse_render_12h_hm"
        if D == "DIso" and J == "JSpace" and T == "T12HMS":
            return "C02_parse_render_12h_hms"
        if D == "DIso" and J == "JSpace" and T == "T12H":
            return "C02_parse_render_12h_h"
        if D == "DMonDY" and J == "JSpace" and T == "T12HM":
            return "C02_parse_render_mon_dd_yyyy_12h"
        if (D in ("DIso", "DSlashYMD") and jt == ("JNone", "TNone")) or (D == "DNone" and J == "JNone" and T in ("THM", "THMS")) \
                or (D in ("DIso", "DSlashYMD") and jt == ("JSpace", "TWords")):
            return "C02_parse_render_misc"
        if D in ("DEU", "DYY", "DUSYY") and jt in (("JNone", "TNone"), ("JSpace", "THM"), ("JSpace", "THMS")):
            return "C02_parse_render_flag_dates"
        return None
    if D == "DIso" and J in ("JT", "JSpace") and T in ("THM", "THMS") and O == "OHHMM":
        return "C02_parse_render_iso_offset4"
    if O in ("OZ", "OUTC", "OGMT") and J in ("JT", "JSpace"):
        if D == "DSlashYMD" and T in ("THM", "THMS"):
            return "C02_parse_render_slash_utc"
        if D == "DUS" and T in ("THM", "THMS"):
            return "C02_parse_render_us_utc"
        if D == "DIso" and T == "THM":
            return "C02_parse_render_iso_hm_utc"
        if D == "DCompact" and T in ("TCompactHM", "TCompactHMS"):
            return "C02_parse_render_compact_utc"
    if D == "DCompact" and J in ("JT", "JSpace") and T in ("TCompactHM", "TCompactHMS"):
        if O == "OHH_MM":
            return "C02_parse_render_compact_offset"
        if O == "OHH":
            return "C02_parse_render_compact_offset2"
        if O == "OHHMM":
            return "C02_parse_render_compact_offset4"
    if D == "DIso" and J in ("JT", "JSpace") and T == "THMS" and O in ("OZ", "OUTC", "OGMT"):
        return "C02_parse_render_iso_utc"
    if D == "DIso" and J in ("JT", "JSpace") and T in ("THM", "THMS") and O in ("OHH_MM", "OHH"):
        return "C02_parse_render_iso_offset"
    return None


def ext_theorem_names():
    """theorem names of the extension file coq/props/C02x.v (textual; the file is compiled by make / thorough)"""
    import re
    try:
        src = open(os.path.join(C.COQ, "props", "C02x.v")).read()
    except OSError:
        return []
    src = re.sub(r"\(\*.*?\*\)", "", src, flags=re.S)
    return re.findall(r"^\s*Theorem\s+([A-Za-z0-9_']+)", src, flags=re.M)


def gen_off(r):
    if r.random() < 0.6:
        return r.choice([(1, 0, 0), (0, 0, 0), (1, 0, 1), (0, 5, 30), (1, 5, 30), (1, 12, 45), (0, 12, 45), (1, 14, 0),
                         (0, 3, 0), (1, 23, 59), (0, 23, 59), (1, 1, 0), (0, 9, 0)])
    return (r.randint(0, 1), r.randint(0, 23), r.randint(0, 59))


def replay(path):
    data = json.load(open(path))
    C.ensure_built([PC.AREA], VO)
    PC.install_watchdog()
    inp = data.get("input")
    if isinstance(inp, dict) and "s" in inp:
        if inp.get("tz"):
            PC.set_tz(inp["tz"])
        o = PC.opts_from_json(inp.get("opts"))
        s = inp["s"]
        print("input  %r  template=%s opts=%r tz=%s" % (s, inp.get("template"), PC.opts_public(o), inp.get("tz", "UTC")))
        orc = C.Oracle(PC.AREA)
        print("impl    ", impl_value(o, s))
        print("model   ", PC.run_model(orc, [(o, s)])[0])
        print("expected", data.get("expected"))
        orc.close()
    else:
        print("replay names a broken obligation, no concrete input:", json.dumps(data, indent=1)[:2000])
    return 0


def impl_value(o, s):
    """outcome with the zone reduced to its utcoffset in seconds (None = naive)"""
    import datetime as _dt
    from dateutil import parser as P
    a = PC.run_impl(o, s)
    if a[0] != "ok":
        return a, None
    # recompute the offset from a real call (cheap) so that local / user zones are judged by utcoffset()
    kw = {"default": _dt.datetime(*o["default"])}
    if o["dayfirst"] is not None:
        kw["dayfirst"] = o["dayfirst"]
    if o["yearfirst"] is not None:
        kw["yearfirst"] = o["yearfirst"]
    try:
        ret = PC.get_parser(o).parse(s, **kw)
        off = ret.utcoffset()
        off = None if off is None else off.days * 86400 + off.seconds
    except Exception as ex:
        off = "EXC:" + type(ex).__name__
    return a, off


def main():
    argv = sys.argv[1:]
    if "--replay" in argv:
        return replay(argv[argv.index("--replay") + 1])
    tier = C.tier_from_argv(argv)
    t0 = time.time()
    verdict = C.Verdict(CID, MATCHERS)
    build_err = None
    try:
        C.ensure_built([PC.AREA], VO)
    except C.BuildError as ex:
        build_err = ex
    if build_err is not None:
        props = {"obligations": 0, "discharged": 0, "theorems": [], "assumptions": {},
                 "cmd": "coqc props/C02.v", "log": build_err.log, "ok": False}
    else:
        # props/C02.v takes ~1 min (Print Assumptions walks the large proof terms of the template theorems): compile
        # it in a thread while the differential streams below run (they only need bin/oracle_parse, which
        # ensure_built has produced); joined before the verdict
        import threading
        props_box = {}

        def _compile():
            try:
                pr = C.compile_props(CID)
                if tier != "quick":
                    # the extension file coq/props/C02x.v (further template theorems): thorough tier
                    px = C.compile_props("C02x")
                    pr = {"obligations": pr["obligations"] + px["obligations"],
                          "discharged": pr["discharged"] + px["discharged"],
                          "theorems": pr["theorems"] + px["theorems"],
                          "assumptions": dict(list(pr["assumptions"].items()) + list(px["assumptions"].items())),
                          "cmd": pr["cmd"] + " && " + px["cmd"],
                          "log": pr["log"] if not pr["ok"] else (px["log"] if not px["ok"] else pr["log"]),
                          "ok": pr["ok"] and px["ok"], "ext_ok": px["ok"], "ext_theorems": px["theorems"]}
                props_box["props"] = pr
            except Exception as ex:  # pragma: no cover
                props_box["props"] = {"obligations": 0, "discharged": 0, "theorems": [], "assumptions": {},
                                      "cmd": "coqc props/C02.v", "log": "compile_props failed: %r" % (ex,), "ok": False}
        props_thread = threading.Thread(target=_compile)
        props_thread.start()
        props = None
    PC.install_watchdog()
    orc = C.Oracle(PC.AREA)
    per_tpl = 4 if tier == "quick" else 160
    templates = all_templates()
    stats = {"spec_diff": 0, "model_diff": 0, "not_wf_skipped": 0, "outside_guard": 0}
    hist = {}
    samples = []
    nontrivial = set()
    wf_templates = set()
    tpl_thm = {}
    n_eval = 0
    cur = PC.real_year()
    reg = os.path.join(C.VERIF, "corpus", "regressions", CID + ".jsonl")
    reg_cases = []
    if os.path.exists(reg):
        for line in open(reg):
            if line.strip():
                reg_cases.append(json.loads(line))

    n_wf_first = 0
    for tzname in TZ_SETTINGS:
        PC.set_tz(tzname)
        r = C.rng("C02-" + tzname)
        reqs, meta = [], []
        for rc_ in [x for x in reg_cases if x.get("tz", "UTC") == tzname]:
            t = tuple(rc_["template"])
            reqs.append((E_RENDER, list(t) + list(rc_["dt"]) + list(rc_["off"]) + list(rc_["default"]) + [rc_.get("cur", cur)]))
            meta.append((t, tuple(rc_["dt"]), tuple(rc_["off"]), tuple(rc_["default"]), rc_.get("cur", cur), "regression"))
        for t in templates:
            n = per_tpl if tzname == "UTC" else max(1, per_tpl // 3)
            for _ in range(n):
                dt = PC.gen_dt(r)
                cy = cur
                if t[0] == 0 and DFORMS[t[1]] in ("DYY", "DUSYY"):
                    cy = r.choice([cur, cur, 1999, 2000, 2050, 2075])
                    y = r.choice([cy - 50, cy - 49, cy - 1, cy, cy + 1, cy + 48, cy + 49, r.randint(cy - 50, cy + 49)])
                    import calendar
                    dt = (y, dt[1], min(dt[2], calendar.monthrange(y, dt[1])[1])) + dt[3:]
                off = gen_off(r)
                dflt = r.choice([(2003, 9, 25, 0, 0, 0, 0), (2003, 9, 25, 0, 0, 0, 0), (2000, 1, 31, 0, 0, 0, 0),
                                 (2001, 3, 30, 12, 34, 56, 789), (2004, 2, 29, 1, 2, 3, 4)])
                reqs.append((E_RENDER, list(t) + list(dt) + list(off) + list(dflt) + [cy]))
                meta.append((t, dt, off, dflt, cy, "generated"))
        rendered = orc.call_many(reqs)
        cases = []
        for (t, dt, off, dflt, cy, src), rr in zip(meta, rendered):
            if not isinstance(rr, list) or rr[0] != 1:
                stats["not_wf_skipped"] += 1
                continue
            if rr[1] != 1:
                stats["outside_guard"] += 1
                continue
            dayf, yearf, n = rr[2], rr[3], rr[4]
            s = "".join(map(chr, rr[5:5 + n]))
            exp_dt = tuple(rr[5 + n:12 + n])
            exp_off = rr[13 + n] if rr[12 + n] else None
            o = PC.default_opts()
            o["default"] = dflt
            if cy != cur:
                o["cur_year"] = cy
            # the flags of the template, spelled as keyword or as parserinfo attribute
            if r.random() < 0.5:
                o["dayfirst"], o["yearfirst"] = bool(dayf), bool(yearf)
            else:
                o["info_dayfirst"], o["info_yearfirst"] = bool(dayf), bool(yearf)
            cases.append((o, s, t, dt, off, exp_dt, exp_off, tzname))
            wf_templates.add(tpl_name(t))
            tpl_thm[tpl_name(t)] = theorem_for(t)
        # compact time with a dot / comma fraction (+ every offset form)
        cf_reqs, cf_meta = [], []
        for sp in (0, 1):
            for k in (1, 2, 3, 6, 7, 9):
                for cm in (0, 1):
                    for ofm in range(len(OFORMS)):
                        n = max(2, per_tpl // 2) if tzname == "UTC" else 1
                        for _ in range(n):
                            dt = PC.gen_dt(r)
                            off = gen_off(r)
                            cf_reqs.append((E_RENDER_CF, [sp, k, cm, ofm] + list(dt) + list(off)))
                            cf_meta.append((("cf", sp, k, cm, ofm), dt, off))
        for (t, dt, off), rr in zip(cf_meta, orc.call_many(cf_reqs)):
            if not isinstance(rr, list) or rr[0] != 1:
                stats["not_wf_skipped"] += 1
                continue
            n = rr[1]
            s = "".join(map(chr, rr[2:2 + n]))
            exp_dt = tuple(rr[2 + n:9 + n])
            exp_off = rr[10 + n] if rr[9 + n] else None
            o = PC.default_opts()
            o["default"] = r.choice([(2003, 9, 25, 0, 0, 0, 0), (2001, 3, 30, 12, 34, 56, 789)])
            cases.append((o, s, t, dt, off, exp_dt, exp_off, tzname))
            wf_templates.add(tpl_name(t))
            tpl_thm[tpl_name(t)] = theorem_for(t)
        model = PC.run_model(orc, [(c[0], c[1]) for c in cases])
        # minimum stream size: under every TZ setting every template shape must have produced at least one
        # round trip (a broken render entry / generator would otherwise give a green run with nothing tested)
        got = set(tpl_name(c[2]) for c in cases)
        n_wf_first = len(got) if tzname == TZ_SETTINGS[0] else n_wf_first
        if len(cases) == 0 or len(got) < 1000 or len(got) != n_wf_first:
            verdict.violation({"kind": "stream under TZ=%s produced %d round trips over %d templates (first TZ: %d): "
                                       "generator or oracle entry 20/21 broken" % (tzname, len(cases), len(got), n_wf_first),
                               "input": None}, concrete=False)
        for (o, s, t, dt, off, exp_dt, exp_off, tzn), mdl in zip(cases, model):
            n_eval += 1
            name = tpl_name(t)
            hist[name.split("/")[0]] = hist.get(name.split("/")[0], 0) + 1
            a, aoff = impl_value(o, s)
            ok = a[0] == "ok" and a[1] == exp_dt and aoff == exp_off
            if not ok:
                stats["spec_diff"] += 1
                verdict.violation({"kind": "round trip: parse(render(dt)) differs from the expected value",
                                   "input": {"s": s, "opts": o, "template": name, "dt": list(dt), "off": list(off),
                                             "tz": tzn, "year_as_number": year_as_number(t)},
                                   "impl": [a, aoff], "expected": [list(exp_dt), exp_off]})
            if not PC.same_outcome(a, mdl, False):
                stats["model_diff"] += 1
                verdict.violation({"kind": "correspondence: implementation and extracted model disagree",
                                   "input": {"s": s, "opts": o, "template": name, "tz": tzn}, "impl": a, "model": mdl},
                                  concrete=False)
            nontrivial.add((name, dt, off if exp_off is not None else None))
            if n_eval % 1499 == 1 and len(samples) < 14:
                samples.append({"template": name, "s": s, "tz": tzn, "impl": [a[1] if a[0] == "ok" else a, aoff],
                                "expected": [exp_dt, exp_off]})
    PC.set_tz("UTC")
    orc.close()

    if props is None:
        props_thread.join()
        props = props_box["props"]
    ext_names = ext_theorem_names()
    core_names = [n for n in props["theorems"] if n not in props.get("ext_theorems", [])]
    ext_checked = "ext_theorems" in props

    def thm_status(th):
        """where the theorem of a template lives and whether this run compiled it"""
        if th is None:
            return "tested-only"
        if th in core_names and props["ok"]:
            return "%s [coq/props/C02.v]" % th
        if th in ext_names:
            if ext_checked:
                return ("%s [coq/props/C02x.v]" % th) if props.get("ext_ok") else "tested-only"
            return "%s [coq/props/C02x.v; compiled by the thorough tier and by setup, not in this quick run]" % th
        return "tested-only"
    proved = [n for n in props["theorems"] if n.startswith("C02_parse_render")]
    if not props["ok"] and not verdict.violations:
        verdict.violation({"kind": "broken proof obligation", "theorem_file": "coq/props/C02.v",
                           "theorems": props["theorems"], "discharged": props["discharged"],
                           "input": None, "log_tail": props["log"][-3000:]}, concrete=False)
    rc = verdict.finish()
    cov = {
        "evaluations": n_eval,
        "distinct_nontrivial": len(nontrivial),
        "rule": "every well-formed template of the spec (date form x joiner x time form x fraction digits "
                "1,2,3,6,7,9 x dot/comma x offset form, + ctime, + RFC 2822) x boundary-biased datetimes "
                "(years 1..9999, month ends, midnight/noon, microsecond paddings) x offsets -23:59..+23:59 x "
                "defaults with non-zero time x flags spelled as keyword or parserinfo attribute x process TZ in "
                "%r; two-digit-year templates with years within -50..+49 of several current years; a case is "
                "non-trivial by construction (a full rendering), distinct = distinct (template, datetime, offset)"
                % (TZ_SETTINGS,),
        "exhaustive": False,
        "samples": samples,
        "input_distribution": hist,
        "templates_well_formed": len(wf_templates),
        "templates_status": {n: thm_status(th) for n, th in sorted(tpl_thm.items())},
        "templates_proved_count": sum(1 for th in tpl_thm.values()
                                      if thm_status(th).endswith("[coq/props/C02.v]") or thm_status(th).endswith("[coq/props/C02x.v]")),
        "templates_with_theorem_in_extension_file_not_compiled_in_this_run":
            sum(1 for th in tpl_thm.values() if "not in this quick run" in thm_status(th)),
        "templates_proved_in_core_file_count": sum(1 for th in tpl_thm.values() if thm_status(th).endswith("[coq/props/C02.v]")),
        "templates_tested_only_count": sum(1 for th in tpl_thm.values() if thm_status(th) == "tested-only"),
        "theorem_scope_notes": [
            "every parse_render theorem fixes tzinfos = None, fuzzy = False and the flags of the template; d, the default, "
            "ignoretz, the parserinfo year and time.tzname (loc) are universally quantified",
            "PROCESS TIME ZONE: every theorem whose rendering ends in Z / UTC / GMT or a numeric offset assumes that the name "
            "'UTC' (and 'GMT' where rendered) is NOT one of time.tzname: a zero offset and Z are named 'UTC' by the parser and "
            "a name in time.tzname resolves through tz.tzlocal.  These theorems therefore apply under TZ settings such as "
            "EST5EDT, and for non-zero offsets everywhere in effect, but NOT to Z / UTC / +00:00 under TZ=UTC (this harness's "
            "default) or to ' GMT' under TZ=GMT0BST / Europe/London.  The local-name counterparts proved so far are "
            "C02_parse_render_iso_local(_lz) and C02_parse_render_iso_z_local (ISO date-time + ' UTC' / ' GMT' / 'Z' with the name "
            "in time.tzname: local zone, same utcoffset); all other zone templates under TZ=UTC / GMT0BST are covered by the "
            "differential streams only (the check runs every template under UTC, EST5EDT and GMT0BST)",
            "aware results: theorems give the zone object's kind and offset (ZUTC / ZOffset None secs / ZLocal); the check "
            "compares utcoffset() of the returned tzinfo",
            "theorem_for (template -> theorem) is maintained by hand next to the Coq `In ...` lists"],
        "minimum_stream_sizes": "every TZ setting must produce round trips for every well-formed template, else violation",
        "extended_props": {"file": "coq/props/C02x.v", "theorems": len(ext_names),
                           "checked_in": "thorough tier and setup (props/*.vo are make targets)",
                           "compiled_in_this_run": ext_checked, "names": ext_names},
        "templates_proved": proved,
        "templates_proved_detail": {n: PROVED_DETAIL.get(n, (
            "YYYY-MM-DD{T|space}HH:MM:SS{.,}f (k = 1..9) followed by the zone form named in the theorem (helper rdB)"
            if n.startswith("C02_parse_render_iso_frac_") else "")) for n in proved},
        "templates_tested_only": "every template whose templates_status is 'tested-only' (spec-differential + model "
                                 "correspondence only)",
        "disagreements": stats,
        "guard_matcher_correspondence": {
            "F-C02-padyear": {
                "theorem": "C02_parse_render_name_date, _mon_dd_yyyy, _month_dd_yyyy, _mon_dd_yyyy_12h, _ctime, _rfc_named "
                           "(guarded), C02_padyear_refuted",
                "guard": "100 <= d_y d on exactly the template families whose year token reaches _ymd.append as a number "
                         "(month-name forms, ctime, RFC 2822); no guard on the other families",
                "matcher": "m_padded_small_year: rendered year 1..99 AND template in those families (year_as_number) AND the "
                           "round trip differs ONLY in the year AND the returned year is the rendered year pivoted into the "
                           "parserinfo-year window (same last two digits, within -50..+49)",
                "relation": "matcher is contained in the complement of the guard (year < 100 on those families) and is "
                            "narrowed to the defect's exact effect, so nothing else hides behind it"},
            "F-C02-tzlocal-range": {
                "theorem": "C02_parse_render_iso_local_lz (a proved family with a local zone name: round trip iff the guard), "
                           "C02_tzlocal_transfer (every parse_render statement holds of parse_lz, the model with the "
                           "failing tz.tzlocal, when tzlocal_raises lz d = false), C02_tzlocal_not_local (no guard when "
                           "the text does not resolve to the local zone), C02_tzlocal_local_raises + "
                           "C02_tzlocal_range_refuted (inside the complement parse raises OverflowError)",
                "guard": "tzlocal_raises lz d = false, i.e. NOT (the local zone has daylight saving time AND standard "
                         "time is in force at d AND d - dst_saved is outside datetime.min..datetime.max); only for "
                         "texts whose zone name is one of time.tzname",
                "matcher": "m_tzlocal_range: the implementation raises OverflowError AND on the model the text resolves "
                           "to the local zone with the expected wall time (probe run, Local.local_branch_probe) AND the "
                           "extracted tzlocal_raises is true for (time.timezone - time.altzone, platform tm_isdst, "
                           "expected wall time)",
                "relation": "matcher = complement of the guard on local-zone texts, evaluated by the extracted Coq "
                            "predicate itself"}},
        "known_findings_hit": verdict.known_hits,
        "known_finding_examples": {k: v for k, v in verdict.known_examples.items()},
    }
    C.write_evidence(CID, tier, t0, props, cov,
                     ["see C14 for the model's trusted primitives",
                      "aware results are judged by utcoffset() of the returned tzinfo (tz.tzlocal() under the "
                      "process TZ for names in time.tzname)"],
                     len(verdict.violations))
    print("C02 %s: obligations %d/%d, %d round trips over %d templates, %s, %.1fs" % (
        tier, props["discharged"], props["obligations"], n_eval, len(wf_templates), stats, time.time() - t0))
    return rc


if __name__ == "__main__":
    sys.exit(main())
