#!/usr/bin/env python3
"""C03 -- date + relativedelta follows the documented replace / shift / clip / duration / weekday
order.  Theorems (coq/props/C03.v) + correspondence of the real relativedelta with the extracted
model (bin/oracle_rd) + comparison of the real code with the extracted executable SPEC."""
import datetime as _dt
import json
import os
import sys
import time

sys.path.insert(0, os.path.dirname(os.path.abspath(__file__)))
import common as C

C.reexec_under_impl_python()
import rd_common as R
import hashlib


def _h(txt):
    """8-byte digest of a canonical JSON text (distinctness is counted on digests)"""
    return hashlib.blake2b(txt.encode(), digest_size=8).digest()

CID = "C03"
VO = ["props/C03.vo"] + R.VO_MODEL
S_ADDRAW, S_YEARDAY, S_NLYEARDAY = 27, 25, 26
# relativedelta.py: keyword branch of __init__ incl. yearday table, _fix, __add__ on a date, __radd__/__rsub__, __neg__
ANCHOR_RANGES = [(170, 230), (232, 263), (363, 409), (458, 474)]
SPEC_N_LIMIT = 2000          # the counting spec walks 7*|n| days: only evaluated for |n| <= this


def m_zero_absolute(payload):
    """F-C03-zero-absolute: an absolute year / month / day equal to 0 is silently ignored (`self.year or
    other.year`) instead of being applied or rejected"""
    kw = (payload.get("input") or {}).get("kw") or {}
    # narrow: the zero was GIVEN as the keyword argument year= / month= / day= (a zero produced by the
    # yearday conversion or any other internal step is NOT excused)
    return (payload.get("kind", "").startswith("absolute year/month/day = 0")
            and any(kw.get(k) == 0 and not isinstance(kw.get(k), bool) for k in ("year", "month", "day"))
            and "yearday" not in kw and "nlyearday" not in kw)


# F-C03-yearday366 was fixed in /repo by f29aa05 (its input stays in the corpus)
MATCHERS = {"m_zero_absolute": m_zero_absolute}

# ------------------------------------------------------------------ implementation side

def impl_mk(kw):
    from dateutil.relativedelta import relativedelta
    try:
        return relativedelta(**R.real_kw(kw))
    except Exception as ex:
        return ("err", R.exc_code(ex))


def impl_try(f):
    try:
        v = f()
    except Exception as ex:
        return ("err", R.exc_code(ex)), None
    if not isinstance(v, _dt.date):
        return ("NOTDATE", type(v).__name__), None
    return ("ok", R.dt_proj(v)), v


def res_of_opt(v):
    """spec result (option) -> comparable form: errors collapse to ('err',)"""
    if isinstance(v, tuple) and v and v[0] == "ORACLE":
        return v
    return ("err",) if v is None else ("ok", v)


def collapse(r):
    """implementation/model result with the exception class forgotten (the spec says only 'no result')"""
    return ("err",) if r[0] == "err" else r


# ------------------------------------------------------------------ case generation

def gen_case(r):
    c = r.random()
    if c < 0.5:
        kw = R.gen_kwargs(r)
    elif c < 0.7:
        # month arithmetic with clipping
        kw = {"months": r.randint(-30, 30)}
        if r.random() < 0.5:
            kw["years"] = r.choice([-1, 0, 1, 4, -4, 100, -100, 400])
        if r.random() < 0.5:
            kw["day"] = r.choice([28, 29, 30, 31, 1])
        if r.random() < 0.3:
            kw["leapdays"] = r.choice([-1, 1, 2])
        if r.random() < 0.3:
            kw["month"] = r.randint(1, 12)
        if r.random() < 0.2:
            kw["year"] = r.choice(R.B_YEARS)
    elif c < 0.85:
        # weekday jumps
        from dateutil._common import weekday
        n = r.choice([None, 0, 1, -1, 2, -2, 3, -3, 4, -4, 5, -5])
        # half of them the documented way: relativedelta.MO..SU and MO(n)
        kw = {"weekday": (R.WArg if r.random() < 0.5 else weekday)(r.randint(0, 6), n)}
        if r.random() < 0.4:
            kw["day"] = r.choice([1, 31, 15])
        if r.random() < 0.3:
            kw["days"] = r.randint(-10, 10)
        if r.random() < 0.3:
            kw["hours"] = r.randint(-50, 50)
        if r.random() < 0.2:
            kw["months"] = r.randint(-13, 13)
    elif c < 0.95:
        # durations with carries, time replacement
        kw = {}
        for name in ("days", "hours", "minutes", "seconds", "microseconds"):
            if r.random() < 0.5:
                kw[name] = R.gen_rel_value(r, name)
        for name in ("hour", "minute", "second", "microsecond"):
            if r.random() < 0.2:
                kw[name] = R.gen_abs_value(r, name)
        if r.random() < 0.2:
            kw["weeks"] = r.randint(-60, 60)
    else:
        # yearday / nlyearday
        kw = {r.choice(["yearday", "nlyearday"]): r.choice([1, 31, 32, 59, 60, 61, 365, 366]) if r.random() < 0.5
              else r.randint(1, 366)}
        if r.random() < 0.2:
            kw["years"] = r.randint(-3, 3)
    dt = R.gen_operand(r)
    return kw, dt


def exhaustive_cases(tier):
    """small-scope exhaustive streams (stated in the evidence)"""
    import calendar
    from dateutil._common import weekday
    out = []
    years = [1999, 2000, 2001, 2100, 2400]
    # (a) month shift + clipping: month boundaries of five year shapes x months -25..25 x day None/28..31
    for y in years:
        for m in range(1, 13):
            dim = calendar.monthrange(y, m)[1]
            days = sorted({1, 2, 27, 28, 29, 30, 31, dim} & set(range(1, dim + 1)))
            if tier == "thorough":
                days = list(range(1, dim + 1))
            for d in days:
                for months in range(-25, 26):
                    for day in (None, 28, 29, 30, 31):
                        kw = {"months": months}
                        if day is not None:
                            kw["day"] = day
                        out.append((kw, _dt.date(y, m, d)))
    # (b) years x months x leapdays around February
    for y in years + [1996, 2004, 1900]:
        for (m, d) in [(2, 28), (2, 29), (3, 1), (1, 31), (12, 31), (2, 27)]:
            if d > calendar.monthrange(y, m)[1]:
                continue
            for yrs in (-4, -1, 0, 1, 4):
                for months in (-12, -11, -2, -1, 0, 1, 2, 11, 12):
                    for lp in (0, 1, -1):
                        kw = {"years": yrs, "months": months}
                        if lp:
                            kw["leapdays"] = lp
                        out.append((kw, _dt.datetime(y, m, d, 23, 59, 59, 999999)))
    # (c) weekday(n): every day of four months x 7 weekdays x n in None,-5..5
    start = _dt.date(1999, 12, 1)
    ndays = 124 if tier == "quick" else 800
    for i in range(ndays):
        d = start + _dt.timedelta(days=i)
        for w in range(7):
            for n in (None, -5, -4, -3, -2, -1, 0, 1, 2, 3, 4, 5):
                out.append(({"weekday": R.WArg(w, n) if i % 2 else weekday(w, n)}, d))
    # (d) yearday / nlyearday: every value 0..367 on a leap and a non-leap year
    for y in (2000, 2001, 1900, 2004):
        for n in range(0, 368):
            out.append(({"yearday": n}, _dt.date(y, 1, 1)))
            out.append(({"nlyearday": n}, _dt.date(y, 6, 15)))
    return out


# ------------------------------------------------------------------ evaluation of a batch

def classify(kw, dt, d):
    """histogram keys of one case"""
    ks = []
    ks.append("operand:" + ("date" if not isinstance(dt, _dt.datetime) else
                            ("aware" if dt.tzinfo is not None else "naive")))
    for k in kw:
        ks.append("kw:" + k)
    if not isinstance(d, tuple):
        if d.months or d.years:
            ks.append("has:month-shift")
        if d._has_time:
            ks.append("has:time")
        if d.weekday is not None:
            ks.append("has:weekday")
        if d.leapdays:
            ks.append("has:leapdays")
    return ks


def run_batch(cases, oracle, want_samples=0):
    """cases: list of (kw, dt).  Returns dict(n, diffs[list of payloads], hist, samples, counts)."""
    from dateutil.relativedelta import relativedelta
    hist, diffs, samples = {}, [], []
    cnt = {"evaluations": 0, "mk_compared": 0, "ops_compared": 0, "spec_compared": 0, "wf": 0,
           "impl_errors": 0, "model_diff": 0, "spec_diff": 0, "self_diff": 0, "skipped_unencodable": 0,
           "raw_spec_compared": 0, "clipped": 0, "carried_year": 0, "promoted": 0, "yearday_compared": 0}
    nontrivial = set()
    # ---- phase 1: implementation + requests
    reqs, plan = [], []
    for idx, (kw, dt) in enumerate(cases):
        cnt["evaluations"] += 1
        d = impl_mk(kw)
        for k in classify(kw, dt, d):
            hist[k] = hist.get(k, 0) + 1
        ekw = R.enc_kw(kw)
        edt = R.enc_dt(dt)
        item = {"kw": kw, "dt": dt, "d": d, "slots": {}}
        if not R.fits(ekw):
            cnt["skipped_unencodable"] += 1
            plan.append(item)
            continue
        item["slots"]["mk"] = len(reqs)
        reqs.append((R.E_MK, ekw))
        if not isinstance(d, tuple):
            p = R.rd_proj(d)
            item["proj"] = p
            if R.proj_is_int(p) and R.fits(R.enc_proj(p)):
                ep = R.enc_proj(p)
                nd = -d
                pn = R.rd_proj(nd)
                item["r_add"], v_add = impl_try(lambda: dt + d)
                item["v_add"] = v_add
                item["r_radd"], v_radd = impl_try(lambda: d + dt)
                item["r_sub"], v_sub = impl_try(lambda: dt - d)
                item["r_addneg"], _v = impl_try(lambda: dt + nd)
                item["tz_ok"] = all(v is None or not isinstance(v, _dt.datetime) or
                                    v.tzinfo is (dt.tzinfo if isinstance(dt, _dt.datetime) else None)
                                    for v in (v_add, v_radd, v_sub))
                s = item["slots"]
                s["add"] = len(reqs); reqs.append((R.E_ADD, ep + edt))
                s["radd"] = len(reqs); reqs.append((R.E_RADD, ep + edt))
                s["rsub"] = len(reqs); reqs.append((R.E_RSUB, ep + edt))
                s["wf"] = len(reqs); reqs.append((R.S_WF, ep))
                w = p[2]
                if w is None or w[1] is None or abs(w[1]) <= SPEC_N_LIMIT:
                    s["spec"] = len(reqs); reqs.append((R.S_ADD, ep + edt))
                    # the raw (un-normalised) keyword values through the total-based spec
                    kwd = kw.get("weekday")
                    if ("yearday" not in kw and "nlyearday" not in kw
                            and not (R.is_int(kwd) and not -7 <= kwd < 7)):
                        raw = dict(kw)
                        raw["days"] = raw.get("days", 0) + 7 * raw.pop("weeks", 0)
                        # intended weekday: integer k means MO..SU[k] (negative index wraps), objects as given
                        rawp = (tuple(raw.get(a, 0) for a in R.REL) + (raw.get("leapdays", 0),),
                                tuple(raw.get(a) for a in R.ABS),
                                None if kwd is None else ((kwd % 7, None) if R.is_int(kwd) else (kwd.weekday, kwd.n)))
                        er = R.enc_proj(rawp)
                        if R.fits(er):
                            # guard of the raw-value theorem: wf_rd without the normalisation conjunct, on the INTENT
                            s["rawwf"] = len(reqs)
                            reqs.append((R.S_WF, R.enc_proj(((0,) * 7 + (rawp[0][7],), rawp[1], rawp[2]))))
                            s["raw"] = len(reqs); reqs.append((S_ADDRAW, er + edt))
                if R.proj_is_int(pn) and R.fits(R.enc_proj(pn)):
                    s["neg"] = len(reqs); reqs.append((R.E_NEG, ep))
                    item["pn"] = pn
                # "subtracting a relativedelta equals adding its negation": the negation is taken on the
                # SPEC side (every relative field of the normalised delta negated), not from the code's __neg__
                sn = (tuple(-x for x in p[0][:7]) + (p[0][7],), p[1], p[2])
                item["sn"] = sn
                if w is None or w[1] is None or abs(w[1]) <= SPEC_N_LIMIT:
                    s["specneg"] = len(reqs); reqs.append((R.S_ADD, R.enc_proj(sn) + edt))
                # yearday / nlyearday alone: "set the yearday" = the n-th day of the operand's year
                if set(kw) in ({"yearday"}, {"nlyearday"}) and R.is_int(list(kw.values())[0]):
                    s["yday"] = len(reqs)
                    reqs.append((S_YEARDAY if "yearday" in kw else S_NLYEARDAY, [dt.year, list(kw.values())[0]]))
        else:
            cnt["impl_errors"] += 1
        plan.append(item)
    res = oracle.call_many(reqs)

    # ---- phase 2: comparison
    def inp(item, op):
        return {"kw": R.kw_json(item["kw"]), "dt": R.dt_json(item["dt"]), "op": op}

    for item in plan:
        s = item["slots"]
        kw, dt, d = item["kw"], item["dt"], item["d"]
        if "mk" not in s:
            continue
        m_mk = R.dec_res_rd(res[s["mk"]])
        i_mk = d if isinstance(d, tuple) else ("ok", item["proj"])
        cnt["mk_compared"] += 1
        mk_bad = (m_mk != i_mk)
        if mk_bad:
            cnt["model_diff"] += 1
        if "add" not in s:
            if mk_bad:
                diffs.append(({"kind": "correspondence: constructor relativedelta(**kw) differs from the model",
                               "input": inp(item, "mk"), "impl": i_mk, "model": m_mk}, False))
            continue
        wf = res[s["wf"]] == [1]
        cnt["wf"] += 1 if wf else 0
        reported = False
        spec = None
        if "spec" in s:
            spec = res_of_opt(R.dec_opt_dt(res[s["spec"]]))
        # (1) implementation vs SPEC inside the theorem's guard
        if wf and spec is not None:
            cnt["spec_compared"] += 1
            if collapse(item["r_add"]) != spec:
                cnt["spec_diff"] += 1
                reported = True
                diffs.append(({"kind": "dt + delta differs from the documented replace/shift/clip/duration/weekday result",
                               "input": inp(item, "add"), "delta": item["proj"], "impl": item["r_add"],
                               "spec": spec}, True))
        # outside the guard ONLY because an absolute year/month/day is 0 (finding F-C03-zero-absolute): the
        # documented replacement is what the spec computes (no result, or December of the previous year)
        pabs, pw = item["proj"][1], item["proj"][2]
        kw_zero = (any(kw.get(k) == 0 for k in ("year", "month", "day"))
                   and "yearday" not in kw and "nlyearday" not in kw)
        if (kw_zero and not wf and spec is not None and any(v == 0 for v in pabs[:3])
                and (pabs[1] is None or 0 <= pabs[1] <= 12) and (pw is None or 0 <= pw[0] <= 6)):
            cnt["zero_absolute_compared"] = cnt.get("zero_absolute_compared", 0) + 1
            if collapse(item["r_add"]) != spec:
                cnt["spec_diff"] += 1
                reported = True
                diffs.append(({"kind": "absolute year/month/day = 0 is ignored instead of applied or rejected",
                               "input": inp(item, "add"), "delta": item["proj"], "impl": item["r_add"],
                               "spec": spec}, True))
        if "raw" in s and res[s["rawwf"]] == [1] and not reported:
            raw = res_of_opt(R.dec_opt_dt(res[s["raw"]]))
            cnt["raw_spec_compared"] += 1
            if collapse(item["r_add"]) != raw:
                cnt["spec_diff"] += 1
                reported = True
                diffs.append(({"kind": "dt + relativedelta(**kw) differs from the documented result computed "
                                       "from the keyword values (totals, before any carry)",
                               "input": inp(item, "add"), "delta": item["proj"], "impl": item["r_add"],
                               "spec_from_keywords": raw}, True))
        specneg = None
        if "specneg" in s:
            specneg = res_of_opt(R.dec_opt_dt(res[s["specneg"]]))
        if "specneg" in s and wf and not reported:
            cnt["spec_compared"] += 1
            if collapse(item["r_sub"]) != specneg:
                cnt["spec_diff"] += 1
                reported = True
                diffs.append(({"kind": "dt - delta differs from the documented result of adding the negation",
                               "input": inp(item, "sub"), "delta": item["proj"], "negated": item["sn"],
                               "impl": item["r_sub"], "spec": specneg}, True))
        if "yday" in s and not reported:
            yv = res[s["yday"]]
            if yv[0] == 1:
                cnt["yearday_compared"] = cnt.get("yearday_compared", 0) + 1
                want = R.dt_proj(dt)
                want = (want[0], yv[1], yv[2], yv[3]) + tuple(want[4:])
                if item["r_add"] != ("ok", want):
                    cnt["spec_diff"] += 1
                    reported = True
                    diffs.append(({"kind": "yearday/nlyearday does not select the n-th day of the operand's year",
                                   "input": inp(item, "add"), "delta": item["proj"], "impl": item["r_add"],
                                   "spec": ("ok", want)}, True))
        # (2) self-checking parts of the property on the implementation
        if item["r_radd"] != item["r_add"] and not reported:
            cnt["self_diff"] += 1
            reported = True
            diffs.append(({"kind": "delta + dt differs from dt + delta", "input": inp(item, "radd"),
                           "impl_add": item["r_add"], "impl_radd": item["r_radd"]}, True))
        if item["r_sub"] != item["r_addneg"] and not reported:
            cnt["self_diff"] += 1
            reported = True
            diffs.append(({"kind": "dt - delta differs from dt + (-delta)", "input": inp(item, "sub"),
                           "impl_sub": item["r_sub"], "impl_add_neg": item["r_addneg"]}, True))
        if not item["tz_ok"] and not reported:
            cnt["self_diff"] += 1
            reported = True
            diffs.append(({"kind": "tzinfo of the operand is not carried to the result",
                           "input": inp(item, "add"), "impl": item["r_add"]}, True))
        # (3) correspondence with the model
        m_add = R.dec_res_dt(res[s["add"]])
        m_radd = R.dec_res_dt(res[s["radd"]])
        m_rsub = R.dec_res_dt(res[s["rsub"]])
        cnt["ops_compared"] += 3
        bad = []
        if mk_bad:
            bad.append(("mk", i_mk, m_mk))
        if m_add != item["r_add"]:
            bad.append(("add", item["r_add"], m_add))
        if m_radd != item["r_radd"]:
            bad.append(("radd", item["r_radd"], m_radd))
        if m_rsub != item["r_sub"]:
            bad.append(("sub", item["r_sub"], m_rsub))
        if "neg" in s and R.dec_rd(res[s["neg"]]) != item["pn"]:
            bad.append(("neg", item["pn"], R.dec_rd(res[s["neg"]])))
        if bad:
            cnt["model_diff"] += 1
            if not reported:
                op, iv, mv = bad[0]
                diffs.append(({"kind": "correspondence: model differs from implementation (%s)" % op,
                               "input": inp(item, op), "delta": item["proj"], "impl": iv, "model": mv,
                               "in_theorem_guard": wf, "spec": spec}, False))
        # ---- coverage bookkeeping (non-trivial = the result differs from the operand or is an error)
        ra = item["r_add"]
        triv = ra[0] == "ok" and ra[1] == R.dt_proj(dt)
        if not triv:
            nontrivial.add(_h(json.dumps([R.kw_json(kw), R.dt_json(dt)], sort_keys=True, default=str)))
        if ra[0] == "ok":
            v = item["v_add"]
            want_day = (d.day or dt.day)
            if v is not None and (d.months or d.years or d.month or d.year) and want_day > 28 \
                    and not d.days and not d.weekday and not d._has_time and not d.leapdays and v.day < want_day:
                cnt["clipped"] += 1
            if d.months and not d.years and not d.year and v.year != dt.year and abs(d.days) < 20 and not d.weekday:
                cnt["carried_year"] += 1
            if isinstance(v, _dt.datetime) and not isinstance(dt, _dt.datetime):
                cnt["promoted"] += 1
        if len(samples) < want_samples:
            samples.append({"kw": R.kw_json(kw), "dt": R.dt_json(dt), "delta": item["proj"],
                            "impl_add": item["r_add"], "model_add": m_add, "spec_add": spec,
                            "impl_sub": item["r_sub"], "model_sub": m_rsub, "spec_sub": specneg, "in_guard": wf})
    return {"diffs": diffs, "hist": hist, "samples": samples, "cnt": cnt, "nontrivial": nontrivial}


def worker(job):
    kind, tier, lo, hi = job
    o = C.Oracle("rd")
    try:
        if kind == "exh":
            cases = exhaustive_cases(tier)[lo:hi]
        elif kind == "corpus":
            cases = load_corpus()
        else:
            cases = []
            for i in range(lo, hi):
                r = C.rng("C03/%d" % i)
                cases.append(gen_case(r))
        out = run_batch(cases, o, want_samples=3 if kind == "rand" else 1)
    finally:
        o.close()
    out["nontrivial"] = list(out["nontrivial"])
    return out


def load_corpus():
    path = os.path.join(C.VERIF, "corpus", "regressions", CID + ".jsonl")
    out = []
    if os.path.exists(path):
        for line in open(path):
            line = line.strip()
            if line and not line.startswith("#"):
                j = json.loads(line)
                out.append((R.kw_from_json(j["kw"]), R.dt_from_json(j["dt"])))
    return out


# ------------------------------------------------------------------ replay

def replay(path):
    data = json.load(open(path))
    C.ensure_built([R.AREA], VO)
    inp = data.get("input")
    if not (isinstance(inp, dict) and "kw" in inp):
        print("replay names a broken obligation, no concrete input:", json.dumps(data, indent=1)[:3000])
        return 0
    kw = R.kw_from_json(inp["kw"])
    dt = R.dt_from_json(inp["dt"])
    o = C.Oracle(R.AREA)
    out = run_batch([(kw, dt)], o, want_samples=1)
    o.close()
    print("input      relativedelta(%r)  operand %r  op %s" % (inp["kw"], dt, inp.get("op")))
    for smp in out["samples"]:
        for k in ("delta", "impl_add", "model_add", "spec_add", "impl_sub", "model_sub", "spec_sub", "in_guard"):
            print("%-10s %r" % (k, smp[k]))
    if not out["samples"]:
        d = impl_mk(kw)
        print("impl constructor:", d if isinstance(d, tuple) else R.rd_proj(d))
        print("model constructor:", R.dec_res_rd(C.Oracle(R.AREA).call(R.E_MK, R.enc_kw(kw))))
    for payload, concrete in out["diffs"]:
        print("DIFF (%s): %s" % ("concrete" if concrete else "model only", json.dumps(payload, default=str)))
    return 1 if out["diffs"] else 0


# ------------------------------------------------------------------ main

def main():
    argv = sys.argv[1:]
    if "--replay" in argv:
        return replay(argv[argv.index("--replay") + 1])
    tier = C.tier_from_argv(argv)
    t0 = time.time()
    verdict = C.Verdict(CID, MATCHERS)
    build_err = None
    try:
        C.ensure_built([R.AREA], VO)
    except C.BuildError as ex:
        build_err = ex
    if build_err is not None:
        props = {"obligations": 1, "discharged": 0, "theorems": [], "assumptions": {},
                 "cmd": "coqc props/C03.v", "log": build_err.log, "ok": False}
    else:
        props = C.compile_props(CID)
    # the obligations about the TRANSLATED source: compile_props() regenerates coq/gen from this run's
    # source tree, rebuilds and compiles the props file under one hold of the build lock; a private
    # re-check (rd_common.private_gen_check) is available with VERIF_PRIVATE_GEN=1
    priv = {"cached": None}
    if os.environ.get("VERIF_PRIVATE_GEN") == "1":
        priv = R.private_gen_check(CID)
        props = R.merge_private(CID, props, priv)
    translator_errors = R.translator_errors()
    for te in translator_errors:
        print("TRANSLATE-ERROR %s" % te[:300])
    if not props["ok"]:
        print("%s: proof obligations discharged %d/%d (broken: see evidence / replay)" % (
            CID, props["discharged"], props["obligations"]))

    n_rand = 30000 if tier == "quick" else 2500000
    procs = R.nprocs(tier)
    n_exh = len(exhaustive_cases(tier))
    jobs = [("corpus", tier, 0, 0)]
    step = max(2000, (n_exh + procs * 3 - 1) // (procs * 3))
    jobs += [("exh", tier, lo, min(n_exh, lo + step)) for lo in range(0, n_exh, step)]
    step = max(2000, n_rand // (procs * 6))
    jobs += [("rand", tier, lo, min(n_rand, lo + step)) for lo in range(0, n_rand, step)]
    have_oracle = os.path.exists(os.path.join(C.BIN, "oracle_rd"))
    total = {"diffs": [], "hist": {}, "samples": [], "cnt": {}, "nontrivial": set()}
    cov_summary = {"available": False}
    if have_oracle:
        # one small shard in-process under coverage.py (anchored lines), the rest in the pool
        first, cov_summary = R.measure_anchor_coverage(
            lambda: [worker(("corpus", tier, 0, 0)), worker(("rand", tier, n_rand, n_rand + 1500))], ANCHOR_RANGES)
        for out in first + R.pool_map(worker, jobs[1:], procs):
            total["diffs"] += out["diffs"]
            R.merge_hist(total["hist"], out["hist"])
            R.merge_hist(total["cnt"], out["cnt"])
            total["samples"] += out["samples"]
            total["nontrivial"].update(out["nontrivial"])
    # concrete violations first
    for payload, concrete in sorted(total["diffs"], key=lambda pc: (not pc[1],)):
        verdict.violation(payload, concrete=concrete)
    if (not props["ok"] or not have_oracle) and not verdict.violations:
        verdict.violation({"kind": ("translator abort (harness/gen_rd_add.py / gen_rd_methods.py reject the source: "
                                    "the model is no longer shown to be the code) -- " + "; ".join(translator_errors)[:600])
                           if translator_errors else "broken proof obligation", "theorem_file": "coq/props/C03.v",
                           "theorems": props["theorems"], "discharged": props["discharged"],
                           "input": None, "log_tail": props["log"][-3000:]}, concrete=False)
    rc = verdict.finish()
    cnt = total["cnt"]
    cov = {
        "evaluations": cnt.get("evaluations", 0),
        "distinct_nontrivial": len(total["nontrivial"]),
        "rule": "a case is (keyword arguments of relativedelta, operand date/naive datetime/aware datetime); for "
                "each case dt+delta, delta+dt, dt-delta and dt+(-delta) run on the implementation, the model "
                "(constructor, add, radd, rsub, neg) and, inside the theorem guard wf_rd, the executable spec "
                "(from the normalised delta and from the raw keyword totals). Distinct = distinct (kwargs, operand) "
                "JSON; non-trivial = dt+delta differs from dt or raises. Streams: regression corpus, small-scope "
                "exhaustive (month boundaries of 1999/2000/2001/2100/2400 x months -25..25 x day None/28..31; "
                "Feb/Mar/year-end x years x months x leapdays; every day of %d consecutive days x 7 weekdays x "
                "n in None,-5..5; yearday/nlyearday 0..367 on four years), boundary-biased random (%d)" % (
                    124 if tier == "quick" else 800, n_rand),
        "exhaustive": False,
        "small_scope_exhaustive_cases": n_exh,
        "samples": total["samples"][:10],
        "input_distribution": dict(sorted(total["hist"].items())),
        "counts": cnt,
        "model_vs_impl_disagreements": cnt.get("model_diff", 0),
        "spec_vs_impl_disagreements_in_guard": cnt.get("spec_diff", 0),
        "self_check_disagreements": cnt.get("self_diff", 0),
        "partial_theorems": [t for t in props["theorems"] if t.endswith("_partial")],
        "refuted_theorems": [t for t in props["theorems"] if t.endswith("_refuted")],
        "theorem_guards": {
            "C03_add_dt_spec / C03_sub_spec / C03_add_fix_spec_raw": "wf_rd d: relative fields normalised (C03_mk_normalised: "
            "true of every constructed delta), absolute year/month/day != 0, month in 1..12, weekday in 0..6; operand valid",
            "C03_yearday_spec_full / C03_nlyearday_spec": "yearday: 1 <= n <= length of the operand's year; "
            "nlyearday: 1 <= n <= 365 (yearday=366 on leap years: fixed in /repo by f29aa05, regression input in the corpus)",
            "C03_month_shift_exact / C03_clip_never_spills": "|months| <= 11 (normalised), operand valid"},
        "only_differential_tested": ["aware operands (tzinfo carried untouched; the model has no tzinfo)",
                                      "float-valued fields (not generated here; see C16)",
                                      "aware operands: NO theorem (the model has no tzinfo); tzinfo identity + wall fields compared",
                                      "yearday / nlyearday COMBINED with other keywords: the converted delta is covered "
                                      "by C03_add_dt_spec, the meaning of the conversion only for the keyword alone",
                                      "absolute month outside 1..12, weekday outside 0..6 (outside the domain): model vs "
                                      "implementation only; absolute year/month/day = 0: open finding F-C03-zero-absolute",
                                      "C03_radd_eq_add / C03_sub_is_add_neg are definitional in the hand model; the content "
                                      "is in C03_gen_radd_dt / C03_gen_rsub_dt / C03_sub_spec",
                                      "weekday n with |n| > %d: model vs implementation only (the counting spec "
                                      "is linear in |n|)" % SPEC_N_LIMIT],
        "known_findings_hit": verdict.known_hits,
        "translated_source": {"translator_errors": translator_errors,
                              "gen_obligations": [t for t in props["theorems"] if "_gen_" in t],
                              "private_recheck": ("not requested" if priv.get("cached") is None else
                                                  "cached result for identical inputs" if priv.get("cached") else "compiled in this run"),
                              "what": "gen/RdAddGen.v + gen/RdMethodsGen.v are regenerated from the source by the "
                                      "fail-closed translators harness/gen_rd_add.py / gen_rd_methods.py; the "
                                      "*_gen_* theorems prove generated = hand model for all inputs"},
        "anchor_coverage_of_one_shard": dict(cov_summary, note="expected missing: 173 (ValueError for non-integer "
                                             "years/months), 199 (warning for non-integer absolute values), 363 "
                                             "(NotImplemented for non-date operands) -- floats and non-dates are "
                                             "outside C03's quantifier (C16 covers floats)"),
    }
    C.write_evidence(CID, tier, t0, props, cov,
                     ["CPython datetime/date/timedelta/calendar.monthrange modelled in coq/rd/RdBase.v + "
                      "coq/base/Cal.v (tied by this correspondence), not verified",
                      "ydayidx table regenerated from /repo by harness/gen_rd_tables.py on this run"],
                     len(verdict.violations))
    print("C03 %s: obligations %d/%d, %d cases (%d exhaustive-stream), %d distinct non-trivial, model-diff %d, "
          "spec-diff %d (of which known findings %d), self-diff %d, %.1fs" % (
              tier, props["discharged"], props["obligations"], cnt.get("evaluations", 0), n_exh,
              len(total["nontrivial"]), cnt.get("model_diff", 0), cnt.get("spec_diff", 0),
              sum(verdict.known_hits.values()), cnt.get("self_diff", 0), time.time() - t0))
    return rc


if __name__ == "__main__":
    sys.exit(main())
