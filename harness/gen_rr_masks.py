#!/usr/bin/env python3
"""Fail-closed translator:  /repo/src/dateutil/rrule.py class _iterinfo  ->  coq/gen/RRMasksGen.v

Translates, from the Python AST of the current source, the methods rebuild, ydayset, mdayset, wdayset,
ddayset, htimeset, mtimeset, stimeset of `_iterinfo` into Gallina over the vocabulary of coq/rr/RRBase.v
(res / bind, py_nth, py_set, py_slice, py_from, py_repeat, zrange, memZ, sortZ), coq/rr/RRNorm.v (rule,
truthy, nonempty, mk_time), coq/rr/RRMasks.v (ONLY: the record iinfo / mkII, date_ord, fold_res,
opt_neqb) and coq/rstr/RRMasksGenBase.v (giter, mem_opt, g_easter_ord).  coq/rstr/RRMasksGenThm.v proves
generated = the hand model of coq/rr/RRMasks.v for all inputs; props/C01.v states C01_gen_masks_*.
`_iterinfo.__init__` and `__slots__` are hand-modelled (ii_init) and PINNED by an AST hash.

State: `self.<slot>` are variables initialised from the record `ii`; locals are variables.  Every
method body becomes one term of type `res T`.

ACCEPTED SUBSET (anything else raises TranslateError -> exit 1 -> common.regenerate() poisons
coq/gen/RRMasksGen.v -> the C01_gen_masks_* obligations stop checking):
 statements
   `rr = self.rrule`; `x = e`, `a = b = e`, `self.s = e`; `a, b = divmod(e, <positive const>)`;
   `a, b = <list>` (exactly two items else ValueError); `x += e`, `x -= e`; `l[i] = e` on a list
   variable (-> py_set, IndexError); `l.append(e)`, `l.sort()` (-> sortZ; a list of times);
   `if / elif / else`: when neither branch can leave through continue / break / return the variables
   assigned in a branch that are read later are joined (`let '(..) := if c then (..) else (..)` when
   both branches are pure, `bind (if ..) (fun '(..) => ..)` otherwise; a variable must be bound on both
   paths); otherwise the continuation is translated once per branch;
   `for x in e:` / `for a, b in e:` over range(e) / range(a, b) / an optional tuple attribute of the
   rule (TypeError when None) / a list variable, without break: fold_res over the loop-carried
   variables (those assigned in the body and read at the loop head or after the loop; the target
   itself when it is read after the loop -- Python leaves it bound to the last item), `continue`;
   `for j in range(<const>):` with `break` and an unused target: structural recursion on the constant
   as fuel; each loop becomes a separate definition (parameters = the variables it reads);
   `continue`, `break`, `return e`, `return a, b, c`.
 expressions
   int constants, None, names, self.<slot>, rr._<attr> / self.rrule._<attr>, module constants
   (M365MASK .. -> gen.RrTables T_*, YEARLY .. SECONDLY -> T_YEARLY .., datetime.MAXYEAR -> T_MAXYEAR);
   + - * and unary -; `%` and `//` by a positive int constant (-> mod, /: Python's floor semantics);
   bool + int (True = 1); [0]*n, [None]*n; l[i] (py_nth: negative wrap, IndexError); l[a:], l[a:b];
   tuple / list displays of ints or of lists; comparisons incl. chains a < b <= c; not / and / or
   (operands evaluated lazily when they can raise); truth value of an int, an optional tuple, a list;
   `x in t`, `x not in t` for an optional tuple attribute (TypeError when None).
CALL TABLE (trusted meaning of library calls):
   calendar.isleap(y) -> Cal.is_leap y; datetime.date(y, m, d) -> RRMasks.date_ord (the ordinal;
   ValueError for a non-existent date), .toordinal() -> the ordinal, .weekday() -> Cal.weekday_of_ord;
   easter.easter(y) -> g_easter_ord y = gen.EasterGen.easter_gen y easter_default_method (regenerated from
   easter.py by harness/gen_easter.py; ValueError outside its domain) as an ordinal;
   divmod(a, c) -> (a / c, a mod c); list(range(n)) / range(a, b) -> zrange; datetime.time(h, m, s,
   tzinfo=rr._tzinfo) -> RRNorm.mk_time (second of day, ValueError outside the ranges; tzinfo is
   opaque); list.sort() on times -> sortZ; `[v]*n` -> py_repeat; datetime.date.max -> Cal.max_ord (3652059,
   the ordinal of 9999-12-31).
"""
import ast
import hashlib
import os
import re
import sys

VERIF = os.path.dirname(os.path.dirname(os.path.abspath(__file__)))
REPO = os.environ.get("VERIF_REPO", "/repo")
SRC = os.path.join(REPO, "src", "dateutil", "rrule.py")
OUT = os.environ.get("GEN_RR_MASKS_OUT") or os.path.join(VERIF, "coq", "gen", "RRMasksGen.v")

LIFT_IF = 300      # an `if` with effects whose text is longer than this becomes a definition of its own

PINS = {"__init__": "d55ffa32b0e172fb", "__slots__": "b67a12d322fbe45e"}


class TranslateError(Exception):
    pass


def fail(msg, node=None):
    where = " (line %d)" % node.lineno if node is not None and hasattr(node, "lineno") else ""
    raise TranslateError(msg + where + (": " + ast.dump(node)[:300] if node is not None else ""))


COQTY = {"int": "Z", "bool": "bool", "listZ": "list Z", "listlistZ": "list (list Z)", "optlistZ": "option (list Z)",
         "optint": "option Z", "dayset": "list (option Z)", "pair": "Z * Z", "unit": "unit"}
ELT = {"listZ": "int", "listlistZ": "listZ", "dayset": "optint", "pairs": "pair"}

SLOTS = [("lastyear", "optint"), ("lastmonth", "optint"), ("yearlen", "int"), ("nextyearlen", "int"),
         ("yearordinal", "int"), ("yearweekday", "int"), ("mmask", "listZ"), ("mrange", "listZ"),
         ("mdaymask", "listZ"), ("nmdaymask", "listZ"), ("wdaymask", "listZ"), ("wnomask", "optlistZ"),
         ("nwdaymask", "optlistZ"), ("eastermask", "optlistZ")]
RR_ATTRS = {"_byweekno": ("(byweekno rl)", "optlistZ"), "_wkst": ("(wkst rl)", "int"),
            "_bynweekday": ("(bynweekday rl)", "optpairs"), "_freq": ("(freq rl)", "int"),
            "_bymonth": ("(bymonth rl)", "optlistZ"), "_byeaster": ("(byeaster rl)", "optlistZ"),
            "_byminute": ("(byminute rl)", "optlistZ"), "_bysecond": ("(bysecond rl)", "optlistZ"),
            "_tzinfo": ("tt", "tzinfo")}
MODULE_CONSTS = {"M365MASK": "listZ", "M366MASK": "listZ", "MDAY365MASK": "listZ", "MDAY366MASK": "listZ",
                 "NMDAY365MASK": "listZ", "NMDAY366MASK": "listZ", "WDAYMASK": "listZ", "M365RANGE": "listZ",
                 "M366RANGE": "listZ", "YEARLY": "int", "MONTHLY": "int", "WEEKLY": "int", "DAILY": "int",
                 "HOURLY": "int", "MINUTELY": "int", "SECONDLY": "int"}


def lub(a, b):
    if a == b:
        return a
    s = {a, b}
    if s <= {"none", "listZ", "optlistZ"}:
        return "optlistZ"
    if s <= {"none", "int", "optint"}:
        return "optint"
    if "emptylist" in s:
        o = (s - {"emptylist"}).pop()
        if o in ("listZ", "listlistZ", "dayset"):
            return o
    if s == {"bool", "int"}:
        return "int"
    fail("no common type for %s and %s" % (a, b))


def coerce(t, a, b):
    if a == b:
        return t
    if a == "none" and b in ("optlistZ", "optint"):
        return "None"
    if (a, b) in (("listZ", "optlistZ"), ("int", "optint")):
        return "(Some %s)" % t
    if a == "emptylist" and b in ("listZ", "listlistZ", "dayset"):
        return "[]"
    if (a, b) == ("listZ", "dayset"):
        return "(map Some %s)" % t
    if (a, b) == ("bool", "int"):
        return "(if %s then 1 else 0)" % t
    fail("cannot use a value of type %s as %s" % (a, b))


# ------------------------------------------------------------------------------------ flow analysis
def vname(n):
    """variable key of a Name / self.<slot> node, else None"""
    if isinstance(n, ast.Name):
        return n.id
    if isinstance(n, ast.Attribute) and isinstance(n.value, ast.Name) and n.value.id == "self":
        return "self." + n.attr
    return None


def loads(node, v):
    for n in ast.walk(node):
        if isinstance(n, (ast.Name, ast.Attribute)) and vname(n) == v and isinstance(n.ctx, ast.Load):
            return True
    return False


def targets_of(t):
    if isinstance(t, (ast.Tuple, ast.List)):
        out = []
        for e in t.elts:
            out += targets_of(e)
        return out
    return [t]


def flow1(st, v):
    """(read, ft, esc): v may be read before written / a fall-through path may leave v unwritten / a
    continue-or-break path may leave v unwritten"""
    if isinstance(st, ast.Assign):
        if loads(st.value, v):
            return (True, True, True)
        wr = False
        for tg in st.targets:
            for t in targets_of(tg):
                if isinstance(t, ast.Subscript):
                    if loads(t, v):
                        return (True, True, True)
                elif vname(t) == v:
                    wr = True
        return (False, not wr, False)
    if isinstance(st, ast.AugAssign):
        if vname(st.target) == v or loads(st.value, v) or loads(st.target, v):
            return (True, True, True)
        return (False, True, False)
    if isinstance(st, ast.If):
        if loads(st.test, v):
            return (True, True, True)
        r1, f1, e1 = flow(st.body, v)
        r2, f2, e2 = flow(st.orelse, v)
        return (r1 or r2, f1 or f2, e1 or e2)
    if isinstance(st, ast.For):
        if loads(st.iter, v) or st.orelse:
            return (True, True, True)
        if v in [vname(t) for t in targets_of(st.target)]:
            return (False, True, False)
        r, _f, _e = flow(st.body, v)
        return (r, True, False)
    if isinstance(st, (ast.Continue, ast.Break)):
        return (False, False, True)
    if isinstance(st, (ast.Return, ast.Raise)):
        return (loads(st, v), False, False)
    if isinstance(st, (ast.Expr, ast.Pass)):
        return (loads(st, v), True, False)
    return (True, True, True)


def flow(stmts, v):
    esc = False
    for st in stmts:
        r, f, e = flow1(st, v)
        if r:
            return (True, True, True)
        esc = esc or e
        if not f:
            return (False, False, esc)
    return (False, True, esc)


def assigned(stmts):
    out = []

    def add(x):
        if x is not None and x not in out:
            out.append(x)
    for st in stmts:
        if isinstance(st, ast.Assign):
            for tg in st.targets:
                for t in targets_of(tg):
                    add(vname(t.value) if isinstance(t, ast.Subscript) else vname(t))
        elif isinstance(st, ast.AugAssign):
            add(vname(st.target.value) if isinstance(st.target, ast.Subscript) else vname(st.target))
        elif isinstance(st, ast.If):
            for x in assigned(st.body) + assigned(st.orelse):
                add(x)
        elif isinstance(st, ast.For):
            for t in targets_of(st.target):
                add(vname(t))
            for x in assigned(st.body):
                add(x)
        elif isinstance(st, ast.Expr) and isinstance(st.value, ast.Call) and isinstance(st.value.func, ast.Attribute) \
                and st.value.func.attr in ("append", "sort"):
            add(vname(st.value.func.value))
    return out


def may_escape(stmts, loop=True):
    """may control leave stmts through continue / break (of the enclosing loop) or return?"""
    for st in stmts:
        if isinstance(st, ast.Return):
            return True
        if loop and isinstance(st, (ast.Continue, ast.Break)):
            return True
        if isinstance(st, ast.If) and (may_escape(st.body, loop) or may_escape(st.orelse, loop)):
            return True
        if isinstance(st, ast.For) and may_escape(st.body, False):
            return True
    return False


def definitely_leaves(stmts):
    if not stmts:
        return False
    st = stmts[-1]
    if isinstance(st, (ast.Continue, ast.Break, ast.Return, ast.Raise)):
        return True
    if isinstance(st, ast.If):
        return definitely_leaves(st.body) and definitely_leaves(st.orelse)
    return False


def has_break(stmts):
    for st in stmts:
        if isinstance(st, ast.Break):
            return True
        if isinstance(st, ast.If) and (has_break(st.body) or has_break(st.orelse)):
            return True
    return False


class Ctx:
    def __init__(self, k, k_cont=None, k_break=None, k_ret=None, live_end=None, live_loop=None):
        self.k, self.k_cont, self.k_break, self.k_ret = k, k_cont, k_break, k_ret
        self.live_end, self.live_loop = live_end, live_loop

    def with_(self, **kw):
        c = Ctx(self.k, self.k_cont, self.k_break, self.k_ret, self.live_end, self.live_loop)
        for a, b in kw.items():
            setattr(c, a, b)
        return c


def is_live(v, rest, ctx):
    r, ft, esc = flow(rest, v)
    if r:
        return True
    if ft and ctx.live_end(v):
        return True
    if esc and ctx.live_loop is not None and ctx.live_loop(v):
        return True
    return False


# ------------------------------------------------------------------------------------ translation
class Fn:
    def __init__(self, name, out):
        self.name = name
        self.out = out               # list of lifted definitions (text)
        self.n = 0
        self.vars = {}               # coq variable -> type (creation order)
        self.monadic = 0
        self.nloops = 0
        self.nifs = 0

    def fresh(self, base, ty):
        self.n += 1
        v = "%s%d" % (re.sub(r"\W", "_", base), self.n)
        self.vars[v] = ty
        return v

    def wrap(self, pre, body):
        for v, m in reversed(pre):
            self.monadic += 1
            if body == "Ok %s" % v:
                body = m                      # bind m (fun v => Ok v) = m
            else:
                body = "bind (%s) (fun %s => %s)" % (m, v, body)
        return body

    # ------------------------------------------------------------ expressions
    def ex(self, e, env):
        """-> (pre, term, type)"""
        if isinstance(e, ast.Constant):
            if e.value is None:
                return [], "None", "none"
            if isinstance(e.value, bool):
                return [], "true" if e.value else "false", "bool"
            if isinstance(e.value, int):
                return [], ("%d" % e.value if e.value >= 0 else "(%d)" % e.value), "int"
            fail("constant", e)
        if isinstance(e, ast.Name):
            if e.id in env:
                return [], env[e.id][0], env[e.id][1]
            if e.id in MODULE_CONSTS:
                return [], "T_" + e.id, MODULE_CONSTS[e.id]
            fail("unknown name " + e.id, e)
        if isinstance(e, ast.Attribute):
            k = vname(e)
            if k is not None and k in env:
                return [], env[k][0], env[k][1]
            if e.attr in RR_ATTRS and (
                    (isinstance(e.value, ast.Name) and env.get(e.value.id, (0, 0))[1] == "rr")
                    or (isinstance(e.value, ast.Attribute) and vname(e.value) == "self.rrule")):
                return [], RR_ATTRS[e.attr][0], RR_ATTRS[e.attr][1]
            if isinstance(e.value, ast.Name) and e.value.id == "datetime" and e.attr == "MAXYEAR":
                return [], "T_MAXYEAR", "int"
            if ast.dump(e) == ast.dump(ast.parse("datetime.date.max", mode="eval").body):
                return [], "max_ord", "date"          # date(9999, 12, 31), as its ordinal Cal.max_ord = 3652059
            if k == "self.rrule":
                return [], "rl", "rr"
            fail("attribute", e)
        if isinstance(e, ast.UnaryOp) and isinstance(e.op, ast.USub):
            pre, t, ty = self.ex(e.operand, env)
            if ty != "int":
                fail("unary minus on " + ty, e)
            return pre, "(- %s)" % t, "int"
        if isinstance(e, ast.UnaryOp) and isinstance(e.op, ast.Not) or isinstance(e, (ast.Compare, ast.BoolOp)):
            pre, t = self.bexp(e, env)
            return pre, t, "bool"
        if isinstance(e, ast.BinOp):
            # [0]*n / [None]*n
            if isinstance(e.op, ast.Mult) and isinstance(e.left, ast.List) and len(e.left.elts) == 1 \
                    and isinstance(e.left.elts[0], ast.Constant):
                c = e.left.elts[0].value
                pre, t, ty = self.ex(e.right, env)
                if ty != "int":
                    fail("list repetition count", e)
                if c is None:
                    return pre, "(py_repeat (@None Z) %s)" % t, "dayset"
                if isinstance(c, int) and not isinstance(c, bool):
                    return pre, "(py_repeat %d %s)" % (c, t), "listZ"
                fail("list repetition element", e)
            p1, a, ta = self.ex(e.left, env)
            p2, b, tb = self.ex(e.right, env)
            a, b = coerce(a, ta, "int") if ta == "bool" else a, coerce(b, tb, "int") if tb == "bool" else b
            if {ta, tb} - {"int", "bool"}:
                fail("arithmetic on %s, %s" % (ta, tb), e)
            if isinstance(e.op, (ast.Add, ast.Sub, ast.Mult)):
                op = {ast.Add: "+", ast.Sub: "-", ast.Mult: "*"}[type(e.op)]
                return p1 + p2, "(%s %s %s)" % (a, op, b), "int"
            if isinstance(e.op, (ast.Mod, ast.FloorDiv)):
                if not (isinstance(e.right, ast.Constant) and isinstance(e.right.value, int)
                        and not isinstance(e.right.value, bool) and e.right.value > 0):
                    fail("% / // by something other than a positive constant", e)
                op = "mod" if isinstance(e.op, ast.Mod) else "/"
                return p1 + p2, "(%s %s %s)" % (a, op, b), "int"
            fail("binary operator", e)
        if isinstance(e, (ast.Tuple, ast.List)):
            parts = [self.ex(x, env) for x in e.elts]
            tys = {p[2] for p in parts}
            pre = [q for p in parts for q in p[0]]
            if tys <= {"int"}:
                return pre, "[" + "; ".join(p[1] for p in parts) + "]", ("listZ" if parts else "emptylist")
            if tys == {"listZ"}:
                return pre, "[" + "; ".join(p[1] for p in parts) + "]", "listlistZ"
            fail("display of %s" % sorted(tys), e)
        if isinstance(e, ast.Subscript):
            pre, t, ty = self.ex(e.value, env)
            if ty != "listZ":
                fail("subscript of " + ty, e)
            sl = e.slice
            if isinstance(sl, ast.Slice):
                if sl.step is not None or sl.lower is None:
                    fail("slice form", e)
                p1, a, ta = self.ex(sl.lower, env)
                if ta != "int":
                    fail("slice bound", e)
                if sl.upper is None:
                    return pre + p1, "(py_from %s %s)" % (t, a), "listZ"
                p2, b, tb = self.ex(sl.upper, env)
                if tb != "int":
                    fail("slice bound", e)
                return pre + p1 + p2, "(py_slice %s %s %s)" % (t, a, b), "listZ"
            p1, i, ti = self.ex(sl, env)
            if ti != "int":
                fail("index", e)
            v = self.fresh("w", "int")
            return pre + p1 + [(v, "py_nth %s %s" % (t, i))], v, "int"
        if isinstance(e, ast.Call):
            f = e.func
            if isinstance(f, ast.Attribute) and isinstance(f.value, ast.Name):
                mod, attr = f.value.id, f.attr
                if (mod, attr) == ("calendar", "isleap") and len(e.args) == 1 and not e.keywords:
                    pre, t, ty = self.ex(e.args[0], env)
                    if ty != "int":
                        fail("isleap argument", e)
                    return pre, "(is_leap %s)" % t, "bool"
                if (mod, attr) == ("datetime", "date") and len(e.args) == 3 and not e.keywords:
                    ps = [self.ex(a, env) for a in e.args]
                    if any(p[2] != "int" for p in ps):
                        fail("date arguments", e)
                    v = self.fresh("d", "int")
                    return [q for p in ps for q in p[0]] + [(v, "date_ord %s %s %s" % tuple(p[1] for p in ps))], v, "date"
                if (mod, attr) == ("easter", "easter") and len(e.args) == 1 and not e.keywords:
                    pre, t, ty = self.ex(e.args[0], env)
                    if ty != "int":
                        fail("easter argument", e)
                    v = self.fresh("d", "int")
                    return pre + [(v, "g_easter_ord %s" % t)], v, "date"
                if (mod, attr) == ("datetime", "time") and len(e.args) == 3:
                    kws = [(k.arg, ast.dump(k.value)) for k in e.keywords]
                    ps = [self.ex(a, env) for a in e.args]
                    okkw = len(e.keywords) == 1 and e.keywords[0].arg == "tzinfo" \
                        and self.ex(e.keywords[0].value, env)[2] == "tzinfo"
                    if not okkw or any(p[2] != "int" for p in ps):
                        fail("time arguments %s" % kws, e)
                    v = self.fresh("t", "int")
                    return [q for p in ps for q in p[0]] + [(v, "mk_time %s %s %s" % tuple(p[1] for p in ps))], v, "int"
            if isinstance(f, ast.Attribute) and f.attr in ("toordinal", "weekday") and not e.args and not e.keywords:
                pre, t, ty = self.ex(f.value, env)
                if ty != "date":
                    fail(f.attr + "() of " + ty, e)
                return pre, (t if f.attr == "toordinal" else "(weekday_of_ord %s)" % t), "int"
            if isinstance(f, ast.Name) and f.id == "list" and len(e.args) == 1 and not e.keywords:
                r = self.range_of(e.args[0], env)
                if r is not None:
                    return r[0], r[1], "listZ"
            fail("call outside the call table", e)
        fail("expression outside the accepted subset", e)

    def range_of(self, e, env):
        if isinstance(e, ast.Call) and isinstance(e.func, ast.Name) and e.func.id == "range" and not e.keywords \
                and len(e.args) in (1, 2):
            ps = [self.ex(a, env) for a in e.args]
            if any(p[2] != "int" for p in ps):
                fail("range arguments", e)
            pre = [q for p in ps for q in p[0]]
            if len(ps) == 1:
                return pre, "(zrange 0 %s)" % ps[0][1]
            return pre, "(zrange %s %s)" % (ps[0][1], ps[1][1])
        return None

    # ------------------------------------------------------------ conditions
    def truth(self, t, ty, node):
        if ty == "bool":
            return t
        if ty == "int":
            return "(negb (%s =? 0))" % t
        if ty in ("optlistZ", "optpairs"):
            return "(truthy %s)" % t
        if ty in ("listZ", "listlistZ"):
            return "(nonempty %s)" % t
        if ty == "emptylist":
            return "false"
        fail("truth value of " + ty, node)

    def bexp(self, c, env):
        """-> (pre, bool term)"""
        if isinstance(c, ast.UnaryOp) and isinstance(c.op, ast.Not):
            pre, t = self.bexp(c.operand, env)
            return pre, "(negb %s)" % t
        if isinstance(c, ast.BoolOp):
            parts = [self.bexp(v, env) for v in c.values]
            op = "&&" if isinstance(c.op, ast.And) else "||"
            if all(not p[0] for p in parts[1:]):
                return parts[0][0], "(" + (" %s " % op).join(p[1] for p in parts) + ")"
            # lazily: later operands can raise
            term = None
            for pre, t in reversed(parts):
                if term is None:
                    term = self.wrap(pre, "Ok %s" % t)
                elif isinstance(c.op, ast.And):
                    term = self.wrap(pre, "(if %s then %s else Ok false)" % (t, term))
                else:
                    term = self.wrap(pre, "(if %s then Ok true else %s)" % (t, term))
            v = self.fresh("b", "bool")
            return [(v, term)], v
        if isinstance(c, ast.Compare):
            items = [c.left] + list(c.comparators)
            if len(c.ops) == 1 and isinstance(c.ops[0], (ast.In, ast.NotIn)):
                p1, a, ta = self.ex(items[0], env)
                p2, b, tb = self.ex(items[1], env)
                if ta != "int" or tb != "optlistZ":
                    fail("membership test of %s in %s" % (ta, tb), c)
                v = self.fresh("b", "bool")
                t = v if isinstance(c.ops[0], ast.In) else "(negb %s)" % v
                return p1 + p2 + [(v, "mem_opt %s %s" % (a, b))], t
            vals = [self.ex(x, env) for x in items]
            pre = [q for p in vals for q in p[0]]
            if len(c.ops) > 1 and any(p[0] for p in vals[1:]):
                fail("chained comparison with operands that can raise", c)
            outs = []
            for op, (_, a, ta), (_, b, tb) in zip(c.ops, vals, vals[1:]):
                if isinstance(op, (ast.Eq, ast.NotEq)) and {ta, tb} == {"int", "optint"}:
                    o, v = (a, b) if ta == "optint" else (b, a)
                    t = "(opt_neqb %s %s)" % (o, v)
                    outs.append(t if isinstance(op, ast.NotEq) else "(negb %s)" % t)
                    continue
                if ta != "int" or tb != "int":
                    fail("comparison of %s and %s" % (ta, tb), c)
                if isinstance(op, ast.Eq):
                    outs.append("(%s =? %s)" % (a, b))
                elif isinstance(op, ast.NotEq):
                    outs.append("(negb (%s =? %s))" % (a, b))
                elif isinstance(op, ast.Lt):
                    outs.append("(%s <? %s)" % (a, b))
                elif isinstance(op, ast.LtE):
                    outs.append("(%s <=? %s)" % (a, b))
                elif isinstance(op, ast.Gt):
                    outs.append("(%s <? %s)" % (b, a))
                elif isinstance(op, ast.GtE):
                    outs.append("(%s <=? %s)" % (b, a))
                else:
                    fail("comparison operator", c)
            return pre, (outs[0] if len(outs) == 1 else "(" + " && ".join(outs) + ")")
        pre, t, ty = self.ex(c, env)
        return pre, self.truth(t, ty, c)

    # ------------------------------------------------------------ statements
    def bind_var(self, env, key, t, ty, body_of):
        """let <fresh> := t in body (body_of receives the new env)"""
        v = self.fresh("s_" + key[5:] if key.startswith("self.") else "v_" + key, ty)
        env2 = dict(env)
        env2[key] = (v, ty)
        return "(let %s := %s in %s)" % (v, t, body_of(env2))

    def comp(self, stmts, env, ctx):
        if not stmts:
            return ctx.k(env)
        s, rest = stmts[0], stmts[1:]

        def cont(e2):
            return self.comp(rest, e2, ctx)
        if isinstance(s, ast.Expr) and isinstance(s.value, ast.Constant) and isinstance(s.value.value, str):
            return cont(env)
        if isinstance(s, ast.Pass):
            return cont(env)
        if isinstance(s, ast.Continue):
            if ctx.k_cont is None:
                fail("continue outside a loop", s)
            return ctx.k_cont(env)
        if isinstance(s, ast.Break):
            if ctx.k_break is None:
                fail("break outside a loop that supports it", s)
            return ctx.k_break(env)
        if isinstance(s, ast.Return):
            if ctx.k_ret is None:
                fail("return", s)
            return ctx.k_ret(env, s.value)
        if isinstance(s, ast.Assign):
            return self.assign(s, rest, env, ctx)
        if isinstance(s, ast.AugAssign):
            if not isinstance(s.op, (ast.Add, ast.Sub)):
                fail("augmented assignment operator", s)
            key = vname(s.target)
            if key is None or key not in env or env[key][1] != "int":
                fail("augmented assignment target", s)
            pre, t, ty = self.ex(s.value, env)
            if ty != "int":
                fail("augmented assignment value", s)
            op = "+" if isinstance(s.op, ast.Add) else "-"
            return self.wrap(pre, self.bind_var(env, key, "(%s %s %s)" % (env[key][0], op, t), "int", cont))
        if isinstance(s, ast.Expr) and isinstance(s.value, ast.Call) and isinstance(s.value.func, ast.Attribute):
            c = s.value
            key = vname(c.func.value)
            if key in env and c.func.attr == "append" and len(c.args) == 1 and not c.keywords:
                pre, t, ty = self.ex(c.args[0], env)
                lty = env[key][1]
                if lty == "emptylist":
                    lty = {"int": "listZ", "listZ": "listlistZ"}.get(ty) or fail("append of " + ty, s)
                if ELT.get(lty) != ty:
                    fail("append of %s to %s" % (ty, lty), s)
                cur = coerce(env[key][0], env[key][1], lty)
                return self.wrap(pre, self.bind_var(env, key, "(%s ++ [%s])" % (cur, t), lty, cont))
            if key in env and c.func.attr == "sort" and not c.args and not c.keywords:
                lty = env[key][1]
                if lty == "emptylist":
                    return cont(env)
                if lty != "listZ":
                    fail("sort of " + lty, s)
                return self.bind_var(env, key, "(sortZ %s)" % env[key][0], "listZ", cont)
            fail("method call statement", s)
        if isinstance(s, ast.If):
            return self.if_(s, rest, env, ctx)
        if isinstance(s, ast.For):
            return self.for_(s, rest, env, ctx)
        fail("statement outside the accepted subset", s)

    def assign(self, s, rest, env, ctx):
        def cont(e2):
            return self.comp(rest, e2, ctx)
        v = s.value
        # rr = self.rrule
        if len(s.targets) == 1 and isinstance(s.targets[0], ast.Name) and vname(v) == "self.rrule":
            env2 = dict(env)
            env2[s.targets[0].id] = ("rl", "rr")
            return cont(env2)
        tg0 = s.targets[0]
        if len(s.targets) == 1 and isinstance(tg0, ast.Tuple):
            names = [vname(t) for t in tg0.elts]
            if len(names) != 2 or None in names:
                fail("tuple target", s)
            # a, b = divmod(e, c)
            if isinstance(v, ast.Call) and isinstance(v.func, ast.Name) and v.func.id == "divmod" and len(v.args) == 2 \
                    and isinstance(v.args[1], ast.Constant) and isinstance(v.args[1].value, int) \
                    and not isinstance(v.args[1].value, bool) and v.args[1].value > 0:
                pre, t, ty = self.ex(v.args[0], env)
                if ty != "int":
                    fail("divmod argument", s)
                c = v.args[1].value
                return self.wrap(pre, self.bind_var(env, names[0], "(%s / %d)" % (t, c), "int", lambda e2: self.bind_var(
                    e2, names[1], "(%s mod %d)" % (t, c), "int", cont)))
            pre, t, ty = self.ex(v, env)
            if ty != "listZ":
                fail("unpacking of " + ty, s)
            a, b = self.fresh("v_" + names[0], "int"), self.fresh("v_" + names[1], "int")
            env2 = dict(env)
            env2[names[0]] = (a, "int")
            env2[names[1]] = (b, "int")
            self.monadic += 1
            return self.wrap(pre, "(match %s with [%s; %s] => %s | _ => Err EValue end)" % (t, a, b, cont(env2)))
        # l[i] = e
        if len(s.targets) == 1 and isinstance(tg0, ast.Subscript):
            key = vname(tg0.value)
            if key is None or key not in env or env[key][1] not in ("listZ", "dayset"):
                fail("item assignment target", s)
            p1, i, ti = self.ex(tg0.slice, env)
            p2, t, ty = self.ex(v, env)
            if ti != "int":
                fail("item index", s)
            lty = env[key][1]
            t = coerce(t, ty, ELT[lty])
            nv = self.fresh("s_" + key[5:] if key.startswith("self.") else "v_" + key, lty)
            env2 = dict(env)
            env2[key] = (nv, lty)
            return self.wrap(p1 + p2 + [(nv, "py_set %s %s %s" % (env[key][0], i, t))], cont(env2))
        keys = [vname(t) for t in s.targets]
        if None in keys:
            fail("assignment target", s)
        pre, t, ty = self.ex(v, env)
        if ty in ("rr", "tzinfo"):
            fail("assignment of " + ty, s)

        env2 = dict(env)
        if ty in ("none", "emptylist"):
            for k in keys:
                env2[k] = (t, ty)
            return self.wrap(pre, cont(env2))
        # one evaluated value, bound once, for every target
        nv = self.fresh("s_" + keys[0][5:] if keys[0].startswith("self.") else "v_" + keys[0], ty)
        for k in keys:
            env2[k] = (nv, ty)
        return self.wrap(pre, "(let %s := %s in %s)" % (nv, t, cont(env2)))

    def tuple_of(self, env, names, tys=None):
        ts = [coerce(env[n][0], env[n][1], tys[i]) if tys else env[n][0] for i, n in enumerate(names)]
        if not ts:
            return "tt"
        return ts[0] if len(ts) == 1 else "(" + ", ".join(ts) + ")"

    def open_tuple(self, names, tys, env, st):
        """-> (prefix text binding fresh variables from the tuple st, new env)"""
        env2 = dict(env)
        vs = []
        for n, ty in zip(names, tys):
            v = self.fresh("s_" + n[5:] if n.startswith("self.") else "v_" + n, ty)
            vs.append(v)
            env2[n] = (v, ty)
        if not vs:
            return "", env2
        if len(vs) == 1:
            return "let %s := %s in " % (vs[0], st), env2
        return "let '(%s) := %s in " % (", ".join(vs), st), env2

    def tuple_type(self, tys):
        return " * ".join(COQTY[t] for t in tys) if tys else "unit"

    def if_(self, s, rest, env, ctx):
        pre, c = self.bexp(s.test, env)
        outer_vars = dict(self.vars)
        body, orelse = list(s.body), list(s.orelse)
        if may_escape(body) or may_escape(orelse) or definitely_leaves(body) or definitely_leaves(orelse):
            a = self.comp(body if definitely_leaves(body) else body + rest, env, ctx)
            b = self.comp(orelse if definitely_leaves(orelse) else orelse + rest, env, ctx)
            return self.wrap(pre, "(if %s then %s else %s)" % (c, a, b))
        names = [v for v in assigned(body + orelse) if is_live(v, rest, ctx)]
        inner = ctx.with_(live_end=lambda v: is_live(v, rest, ctx))
        # pass 1: types at the branch ends
        seen = []

        def rec(e2):
            for n in names:
                if n not in e2:
                    fail("variable %s is read after the `if` but not bound on every path" % n, s)
            seen.append([e2[n][1] for n in names])
            return "?"
        save = (self.n, dict(self.vars), self.monadic, self.nloops, len(self.out), self.nifs)
        self.monadic = 0
        self.comp(body, env, inner.with_(k=rec))
        self.comp(orelse, env, inner.with_(k=rec))
        pure = self.monadic == 0
        self.n, self.vars, self.monadic, self.nloops, self.nifs = save[0], save[1], save[2], save[3], save[5]
        del self.out[save[4]:]
        tys = seen[0]
        for o in seen[1:]:
            tys = [lub(x, y) for x, y in zip(tys, o)]
        if pure:
            k2 = lambda e2: self.tuple_of(e2, names, tys)
        else:
            k2 = lambda e2: "Ok %s" % self.tuple_of(e2, names, tys)
        m0 = self.monadic
        a = self.comp(body, env, inner.with_(k=k2))
        b = self.comp(orelse, env, inner.with_(k=k2))
        self.monadic = m0 + (0 if pure else 1)
        if pure and not names:
            return self.wrap(pre, self.comp(rest, env, ctx))
        st = self.fresh("st", "tuple")
        opening, env2 = self.open_tuple(names, tys, env, st)
        tail = self.comp(rest, env2, ctx)
        if pure:
            return self.wrap(pre, "(let %s : %s := (if %s then %s else %s) in %s%s)" % (
                st, self.tuple_type(tys), c, a, b, opening, tail))
        ite = "(if %s then %s else %s)" % (c, a, b)
        if len(ite) > LIFT_IF:
            # a separate definition (parameters = the variables it reads), for modular proofs
            self.nifs += 1
            iname = "%s_if%d" % (self.name, self.nifs)
            free = [v for v in outer_vars if re.search(r"\b%s\b" % re.escape(v), ite)]
            self.out.append("Definition %s (rl : rule) (ii : iinfo)%s : res (%s) :=\n  %s.\n" % (
                iname, "".join(" (%s : %s)" % (v, self.coq_type(outer_vars[v])) for v in free), self.tuple_type(tys), ite))
            ite = "(%s rl ii%s)" % (iname, "".join(" " + v for v in free))
        if tail == "Ok %s" % self.tuple_of(env2, names):
            return self.wrap(pre, ite)                                        # bind r Ok = r
        if True:
            return self.wrap(pre, "bind %s (fun %s : %s => %s%s)" % (ite, st, self.tuple_type(tys), opening, tail))
        return self.wrap(pre, "bind (if %s then %s else %s) (fun %s : %s => %s%s)" % (
            c, a, b, st, self.tuple_type(tys), opening, tail))

    def for_(self, s, rest, env, ctx):
        if s.orelse:
            fail("for-else", s)
        body = list(s.body)
        tnames = [vname(t) for t in targets_of(s.target)]
        if None in tnames or len(tnames) > 2:
            fail("for target", s)
        brk = has_break(body)
        # the iterable
        pre, const_n, lst, ety = [], None, None, None
        r = self.range_of(s.iter, env)
        if r is not None:
            if brk:
                a = s.iter.args
                if len(a) != 1 or not (isinstance(a[0], ast.Constant) and isinstance(a[0].value, int) and a[0].value >= 0):
                    fail("a loop with break must run over range(<constant>)", s)
                if any(loads(ast.Module(body=body, type_ignores=[]), t) for t in tnames) \
                        or any(is_live(t, rest, ctx) for t in tnames):
                    fail("a loop with break must not use its target", s)
                const_n = a[0].value
            else:
                pre, lst, ety = r[0], r[1], "int"
        else:
            if brk:
                fail("break in a loop over a list", s)
            pre, t, ty = self.ex(s.iter, env)
            if ty in ("optlistZ", "optpairs"):
                v = self.fresh("l", "listZ" if ty == "optlistZ" else "pairs")
                pre, lst, ety = pre + [(v, "giter %s" % t)], v, ("int" if ty == "optlistZ" else "pair")
            elif ty in ("listZ", "listlistZ"):
                lst, ety = t, ELT[ty]
            else:
                fail("for over " + ty, s)

        def live_head(v):
            if v not in tnames and flow(body, v)[0]:
                return True
            return is_live(v, rest, ctx)
        cand = [v for v in assigned(body) if v not in tnames] + [t for t in tnames]
        carried = [v for v in cand if live_head(v)]
        for v in carried:
            if v not in env:
                fail("loop-carried variable %s is not bound before the loop" % v, s)
        inner = ctx.with_(live_end=live_head, live_loop=live_head)
        tys = [env[v][1] for v in carried]
        self.nloops += 1
        lname = "%s_loop%d" % (self.name, self.nloops)
        outer_vars = dict(self.vars)
        for _round in range(4):
            save = (self.n, dict(self.vars), self.monadic, self.nloops, len(self.out), self.nifs)
            st = self.fresh("st", "tuple")
            opening, env_b = self.open_tuple(carried, tys, env, st)
            x = None
            if const_n is None:
                x = self.fresh("x", ety)
                if len(tnames) == 1:
                    env_b[tnames[0]] = (x, ety)
                    unpack = lambda b: b
                elif ety == "pair":
                    a, b = self.fresh("v_" + tnames[0], "int"), self.fresh("v_" + tnames[1], "int")
                    env_b[tnames[0]], env_b[tnames[1]] = (a, "int"), (b, "int")
                    unpack = (lambda b, a=a, b_=b, x=x: "let '(%s, %s) := %s in %s" % (a, b_, x, b))
                elif ety == "listZ":
                    a, b = self.fresh("v_" + tnames[0], "int"), self.fresh("v_" + tnames[1], "int")
                    env_b[tnames[0]], env_b[tnames[1]] = (a, "int"), (b, "int")
                    unpack = (lambda b, a=a, b_=b, x=x: "match %s with [%s; %s] => %s | _ => Err EValue end" % (x, a, b_, b))
                else:
                    fail("unpacking of loop items of type " + ety, s)
            seen = []

            ends = {}

            def mk(tag):
                def k(e2):
                    seen.append([e2[v][1] for v in carried])
                    key = "@%s%d@" % (tag, len(ends))
                    ends[key] = dict(e2)
                    return key
                return k
            ictx = inner.with_(k=mk("N"), k_cont=mk("N"), k_break=(mk("B") if brk else None))
            bterm = self.comp(body, env_b, ictx)
            new = tys
            for o in seen:
                new = [lub(p, q) for p, q in zip(new, o)]
            if new == tys:
                break
            tys = new
            self.n, self.vars, self.monadic, self.nloops, self.nifs = save[0], save[1], save[2], save[3], save[5]
            del self.out[save[4]:]
        else:
            fail("loop state types do not stabilise", s)
        sty = self.tuple_type(tys)
        # parameters of the lifted definition: the outer variables the body mentions
        tups = {key: self.tuple_of(e2, carried, tys) for key, e2 in ends.items()}
        text = bterm + " " + " ".join(tups.values())
        free = [v for v in outer_vars if re.search(r"\b%s\b" % re.escape(v), text)]
        params = "".join(" (%s : %s)" % (v, self.coq_type(outer_vars[v])) for v in free)
        args = "".join(" " + v for v in free)
        for key in sorted(ends, key=lambda z: -len(z)):
            tup = tups[key]
            if const_n is not None and key.startswith("@N"):
                repl = "%s rl ii%s fuel' %s" % (lname, args, tup)
            else:
                repl = "Ok %s" % tup
            bterm = bterm.replace(key, repl)
        if const_n is not None:
            self.out.append("Fixpoint %s (rl : rule) (ii : iinfo)%s (fuel : nat) (%s : %s) {struct fuel} : res (%s) :=\n"
                            "  match fuel with\n  | O => Ok %s\n  | S fuel' => %s%s\n  end.\n"
                            % (lname, params, st, sty, sty, st, opening, bterm))
            call = "%s rl ii%s %d%%nat %s" % (lname, args, const_n, self.tuple_of(env, carried, tys))
        else:
            self.out.append("Definition %s (rl : rule) (ii : iinfo)%s (%s : %s) (%s : %s) : res (%s) :=\n  %s%s.\n"
                            % (lname, params, st, sty, x, self.coq_type(ety), sty, opening, unpack(bterm)))
            call = "fold_res (%s rl ii%s) %s %s" % (lname, args, lst, self.tuple_of(env, carried, tys))
        self.monadic += 1
        st2 = self.fresh("st", "tuple")
        opening2, env2 = self.open_tuple(carried, tys, env, st2)
        tail = self.comp(rest, env2, ctx)
        if tail == "Ok %s" % self.tuple_of(env2, carried):
            return self.wrap(pre, "(%s)" % call)                                 # bind r Ok = r
        return self.wrap(pre, "bind (%s) (fun %s : %s => %s%s)" % (call, st2, sty, opening2, tail))

    def coq_type(self, ty):
        if ty == "pairs":
            return "list (Z * Z)"
        if ty == "date":
            return "Z"
        return COQTY[ty]


# ------------------------------------------------------------------------------------ methods
def find_class(mod, name):
    for n in mod.body:
        if isinstance(n, ast.ClassDef) and n.name == name:
            return n
    fail("class %s not found" % name)


def self_env():
    env = {}
    for slot, ty in SLOTS:
        env["self." + slot] = ("(%s ii)" % slot, ty)
    return env


def translate_method(f, out, kind):
    args = [a.arg for a in f.args.args]
    if f.args.vararg or f.args.kwarg or f.args.kwonlyargs or f.args.defaults:
        fail("signature of " + f.name, f)
    fn = Fn("gen_" + f.name, out)
    env = self_env()
    want = {"rebuild": ["self", "year", "month"], "day": ["self", "year", "month", "day"],
            "time": ["self", "hour", "minute", "second"]}[kind]
    if args != want:
        fail("signature of %s: %s" % (f.name, args), f)
    for a in args[1:]:
        env[a] = (a, "int")
        fn.vars[a] = "int"
    if kind == "rebuild":
        def k(e2):
            return "Ok (mkII %s)" % " ".join(coerce(e2["self." + sl][0], e2["self." + sl][1], ty) for sl, ty in SLOTS)
        ctx = Ctx(k, live_end=lambda v: v.startswith("self."))
        rty = "iinfo"
    else:
        def k(e2):
            fail("%s falls off its end" % f.name, f)

        def k_ret(e2, v):
            if kind == "day":
                if not (isinstance(v, ast.Tuple) and len(v.elts) == 3):
                    fail("a day set method must return (dset, start, end)", v)
                ps = [fn.ex(x, e2) for x in v.elts]
                if ps[1][2] != "int" or ps[2][2] != "int":
                    fail("day set bounds", v)
                t0 = coerce(ps[0][1], ps[0][2], "dayset")
                return fn.wrap([q for p in ps for q in p[0]], "Ok (%s, %s, %s)" % (t0, ps[1][1], ps[2][1]))
            if isinstance(v, ast.Tuple) and len(v.elts) == 1:
                pre, t, ty = fn.ex(v.elts[0], e2)
                if ty != "int":
                    fail("time set member", v)
                return fn.wrap(pre, "Ok [%s]" % t)
            pre, t, ty = fn.ex(v, e2)
            if ty not in ("listZ", "emptylist"):
                fail("time set of type " + ty, v)
            return fn.wrap(pre, "Ok %s" % coerce(t, ty, "listZ"))
        ctx = Ctx(k, k_ret=k_ret, live_end=lambda v: False)
        rty = "dayset * Z * Z" if kind == "day" else "list Z"
    body = fn.comp(list(f.body), env, ctx)
    params = " ".join(args[1:])
    out.append("Definition gen_%s (rl : rule) (ii : iinfo) (%s : Z) : res (%s) :=\n  %s.\n" % (f.name, params, rty, body))


def ndump(n):
    """version-independent dump: class names and the non-empty fields (ast.dump differs between Pythons)"""
    if isinstance(n, ast.AST):
        parts = []
        for f in n._fields:
            v = getattr(n, f, None)
            if f in ("ctx", "type_comment", "kind") or v is None or v == []:
                continue
            parts.append("%s=%s" % (f, ndump(v)))
        return "%s(%s)" % (type(n).__name__, ",".join(parts))
    if isinstance(n, list):
        return "[" + ",".join(ndump(x) for x in n) + "]"
    return repr(n)


def norm_hash(node):
    return hashlib.sha256(ndump(node).encode()).hexdigest()[:16]


def translate(src):
    mod = ast.parse(src)
    cls = find_class(mod, "_iterinfo")
    funcs = {f.name: f for f in cls.body if isinstance(f, ast.FunctionDef)}
    # pinned hand-modelled remainder
    pinned = {}
    for n in cls.body:
        if isinstance(n, ast.Assign) and len(n.targets) == 1 and isinstance(n.targets[0], ast.Name) \
                and n.targets[0].id == "__slots__":
            pinned["__slots__"] = norm_hash(n)
    if "__init__" in funcs:
        pinned["__init__"] = norm_hash(funcs["__init__"])
    for name, pin in PINS.items():
        if os.environ.get("GEN_RR_MASKS_SHOW_PINS"):
            print("PIN %s %s" % (name, pinned.get(name)))
        elif pinned.get(name) != pin:
            fail("the hand-modelled part _iterinfo.%s changed (AST hash %s, pinned %s): ii_init / the record iinfo of "
                 "coq/rr/RRMasks.v must be re-validated" % (name, pinned.get(name), pin))
    out = ["(* GENERATED by harness/gen_rr_masks.py from src/dateutil/rrule.py (class _iterinfo) -- do not edit *)",
           "(* hand-modelled, AST-pinned: %s *)" % ", ".join("_iterinfo.%s=%s" % kv for kv in sorted(pinned.items())),
           "From Coq Require Import ZArith List Bool.",
           "From V Require Import base.Cal gen.RrTables gen.EasterGen rr.RRBase rr.RRNorm rr.RRMasks rstr.RRMasksGenBase.",
           "Import ListNotations.\nOpen Scope Z_scope.\n"]
    for name, kind in [("rebuild", "rebuild"), ("ydayset", "day"), ("mdayset", "day"), ("wdayset", "day"),
                       ("ddayset", "day"), ("htimeset", "time"), ("mtimeset", "time"), ("stimeset", "time")]:
        if name not in funcs:
            fail("method _iterinfo.%s not found" % name)
        translate_method(funcs[name], out, kind)
    others = sorted(set(funcs) - {"rebuild", "ydayset", "mdayset", "wdayset", "ddayset", "htimeset", "mtimeset",
                                  "stimeset", "__init__"})
    if others:
        fail("_iterinfo has methods the translator does not know: %s" % others)
    return "\n".join(out)


def main():
    try:
        txt = translate(open(SRC).read())
    except TranslateError as ex:
        print("TRANSLATE-ERROR (gen_rr_masks): %s" % ex)
        return 1
    except Exception as ex:  # any crash of the translator is an abort as well
        print("TRANSLATE-ERROR (gen_rr_masks): internal %s: %s" % (type(ex).__name__, ex))
        return 1
    old = open(OUT).read() if os.path.exists(OUT) else None
    if old != txt:
        os.makedirs(os.path.dirname(OUT), exist_ok=True)
        open(OUT, "w").write(txt)
    return 0


if __name__ == "__main__":
    sys.exit(main())
