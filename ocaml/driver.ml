(* Generic line-protocol driver around an extracted Coq function
     Model.dispatch : z -> z list -> z list
   request : "<entry> <int> <int> ..."     reply : "<int> <int> ..." (one line)
   Integers are OCaml native ints (63 bit); a result outside that range prints OVF. *)
open Model
exception Ovf
let rec pos_of_int n =
  if n = 1 then XH else if n land 1 = 0 then XO (pos_of_int (n lsr 1)) else XI (pos_of_int (n lsr 1))
let z_of_int n = if n = 0 then Z0 else if n > 0 then Zpos (pos_of_int n) else Zneg (pos_of_int (- n))
let rec int_of_pos = function
  | XH -> 1
  | XO p -> let r = int_of_pos p in if r >= 0x2000000000000000 then raise Ovf else 2 * r
  | XI p -> let r = int_of_pos p in if r >= 0x2000000000000000 then raise Ovf else 2 * r + 1
let int_of_z = function Z0 -> 0 | Zpos p -> int_of_pos p | Zneg p -> - (int_of_pos p)
let () =
  let buf = Buffer.create 65536 in
  try
    while true do
      let line = input_line stdin in
      let toks = List.filter (fun s -> s <> "") (String.split_on_char ' ' line) in
      (match toks with
       | [] -> print_string "\n"
       | e :: args ->
         Buffer.clear buf;
         (try
            let res = dispatch (z_of_int (int_of_string e)) (List.map (fun s -> z_of_int (int_of_string s)) args) in
            List.iteri (fun i z -> if i > 0 then Buffer.add_char buf ' ';
                         Buffer.add_string buf (string_of_int (int_of_z z))) res
          with Ovf -> (Buffer.clear buf; Buffer.add_string buf "OVF")
             | Stack_overflow -> (Buffer.clear buf; Buffer.add_string buf "STACK")
             | Failure m -> (Buffer.clear buf; Buffer.add_string buf ("FAIL " ^ m)));
         Buffer.add_char buf '\n';
         print_string (Buffer.contents buf));
      if toks = [] || true then flush stdout
    done
  with End_of_file -> ()
