(* C01: the specification RRSpec.spec_iter is coherent in its two resource parameters: for any two
   (limit, days) pairs one output is a prefix of the other -- all outputs are initial segments of
   one and the same stream.  (Any frequency; about RRSpec alone.)  With the two prefix theorems of
   RRSubCloseFam / RRSubStopFam this gives `subdaily_iterate_spec_comparable`.
   Written by the rset builder (new file). *)
From Coq Require Import ZArith List Bool Lia.
From V Require Import base.Cal rr.RRBase rr.RRNorm rr.RRSpec rr.RRSubClose.
Import ListNotations.
Open Scope Z_scope.

Lemma spec_loop_extends : forall r L f j cnt acc,
  exists more, fst (spec_loop r L f j cnt acc) = more ++ acc.
Proof.
  intros r L f. induction f as [|f IH]; intros j cnt acc; cbn [spec_loop].
  - exists []. reflexivity.
  - destruct (L <=? zlen acc); [exists []; reflexivity|].
    destruct (max_ord <? step_lo r j); [exists []; reflexivity|].
    destruct (sp_after_until r (step_lo r j, 0)); [exists []; reflexivity|].
    destruct (match cnt with Some c => c <=? 0 | None => false end); [exists []; reflexivity|].
    destruct (sp_take_extends r (step_items r j) cnt acc) as [m1 [E1 _]].
    destruct (sp_take r (step_items r j) cnt acc) as [[acc' cnt'] stop]. cbn [fst] in E1.
    destruct stop.
    + exists m1. exact E1.
    + destruct (IH (j + 1) cnt' acc') as [m2 E2]. exists (m2 ++ m1). rewrite E2, E1. apply app_assoc.
Qed.

(* accumulators (newest first): one is an extension of the other *)
Lemma spec_loop_comparable : forall r L L' f f' j cnt acc,
  (exists more, fst (spec_loop r L f j cnt acc) = more ++ fst (spec_loop r L' f' j cnt acc)) \/
  (exists more, fst (spec_loop r L' f' j cnt acc) = more ++ fst (spec_loop r L f j cnt acc)).
Proof.
  intros r L L' f. induction f as [|f IH]; intros f' j cnt acc.
  - right. cbn [spec_loop fst]. apply spec_loop_extends.
  - destruct f' as [|f'].
    + left. change (fst (spec_loop r L' 0 j cnt acc)) with acc. apply spec_loop_extends.
    + cbn [spec_loop].
      destruct (L <=? zlen acc) eqn:EL0.
      { right. cbn [fst].
        change (exists more, fst (spec_loop r L' (S f') j cnt acc) = more ++ acc). apply spec_loop_extends. }
      destruct (L' <=? zlen acc) eqn:EL'.
      { left. cbn [fst].
        pose proof (spec_loop_extends r L (S f) j cnt acc) as X. cbn [spec_loop] in X.
        rewrite EL0 in X. exact X. }
      destruct (max_ord <? step_lo r j); [left; exists []; reflexivity|].
      destruct (sp_after_until r (step_lo r j, 0)); [left; exists []; reflexivity|].
      destruct (match cnt with Some c => c <=? 0 | None => false end); [left; exists []; reflexivity|].
      destruct (sp_take r (step_items r j) cnt acc) as [[acc' cnt'] stop].
      destruct stop; [left; exists []; reflexivity|].
      apply IH.
Qed.

Definition is_prefix {A : Type} (a b : list A) : Prop := exists rest, b = a ++ rest.

Theorem spec_iter_comparable : forall r L d L' d',
  is_prefix (fst (spec_iter r L d)) (fst (spec_iter r L' d')) \/
  is_prefix (fst (spec_iter r L' d')) (fst (spec_iter r L d)).
Proof.
  intros r L d L' d'. unfold spec_iter, is_prefix.
  destruct (spec_loop_comparable r L L' d d' 0 (r_count r) []) as [[more E]|[more E]].
  - right. destruct (spec_loop r L d 0 (r_count r) []) as [a1 t1].
    destruct (spec_loop r L' d' 0 (r_count r) []) as [a2 t2]. cbn [fst] in *.
    exists (rev more). rewrite E. apply rev_app_distr.
  - left. destruct (spec_loop r L d 0 (r_count r) []) as [a1 t1].
    destruct (spec_loop r L' d' 0 (r_count r) []) as [a2 t2]. cbn [fst] in *.
    exists (rev more). rewrite E. apply rev_app_distr.
Qed.

(* two prefixes of one list are comparable *)
Lemma prefixes_comparable : forall (A : Type) (a b l : list A),
  is_prefix a l -> is_prefix b l -> is_prefix a b \/ is_prefix b a.
Proof.
  intros A a. induction a as [|x a IH]; intros b l [ra Ea] [rb Eb].
  - left. exists b. reflexivity.
  - destruct b as [|y b]; [right; exists (x :: a); reflexivity|].
    subst l. cbn [app] in Eb. inversion Eb; subst.
    destruct (IH b (a ++ ra) (ex_intro _ ra eq_refl) (ex_intro _ rb H1)) as [[s E]|[s E]].
    + left. exists s. cbn [app]. rewrite E. reflexivity.
    + right. exists s. cbn [app]. rewrite E. reflexivity.
Qed.

Lemma is_prefix_trans : forall (A : Type) (a b c : list A), is_prefix a b -> is_prefix b c -> is_prefix a c.
Proof.
  intros A a b c [s ->] [t ->]. exists (s ++ t). symmetry. apply app_assoc.
Qed.

Lemma is_prefix_nth : forall (A : Type) (a b : list A) i x y, is_prefix a b ->
  nth_error a i = Some x -> nth_error b i = Some y -> x = y.
Proof.
  intros A a b i x y [s ->] Ha Hb. rewrite nth_error_app1 in Hb; [congruence|].
  apply nth_error_Some. congruence.
Qed.

(* position i of the specification's stream is well defined *)
Theorem spec_iter_nth_unique : forall r L d L' d' i x y,
  nth_error (fst (spec_iter r L d)) i = Some x -> nth_error (fst (spec_iter r L' d')) i = Some y -> x = y.
Proof.
  intros r L d L' d' i x y Hx Hy.
  destruct (spec_iter_comparable r L d L' d') as [P|P].
  - apply (is_prefix_nth _ _ _ i x y P Hx Hy).
  - symmetry. apply (is_prefix_nth _ _ _ i y x P Hy Hx).
Qed.
