(* C01 -- THE HEADLINE for FREQ in YEARLY..DAILY, with and without BYEASTER, in one statement. *)
From Coq Require Import ZArith List Bool Lia ZifyBool.
From V Require Import base.Cal rr.RRBase rr.RRNorm rr.RRMasks rr.RRIter rr.RRSpec rr.RRWeekCal rr.RRWeekFinal rr.RRFilterSpec
  rr.RRWeeklyThm rr.RRMonthlyThm rr.RRDailyEasterThm rr.RRWeeklyEasterThm rr.RREasterTop rr.RRStripThm rr.RRWkEasterStrip
  rr.RRNthEasterThm.
Import ListNotations.
Open Scope Z_scope.

(* BYEASTER (dateutil extension) is covered inside the year range of C19's Easter theorem: the start's year and the
   year of each of the n passes within 1583..4098 (WEEKLY: 1584..4097, the cross-year week needs next year's Easter) *)
Definition easter_range (r : raw) (n : nat) : Prop :=
  (r_freq r = YEARLY /\ 1583 <= r_y r <= 4098 /\
   forall j, 0 <= j < Z.of_nat n -> r_y r + (j + 1) * r_interval r <= 4098) \/
  (r_freq r = MONTHLY /\ 1583 <= r_y r <= 4098 /\
   forall j, 0 <= j < Z.of_nat n -> midx r (j + 1) / 12 <= 4098) \/
  (r_freq r = WEEKLY /\ (r_bysetpos r <> None -> 1 <= ws0 r) /\ 1584 <= r_y r /\ r_y r + 1 <= 4098 /\
   (n <> 0%nat -> wlo r (Z.of_nat n) <= we_last)) \/
  (r_freq r = DAILY /\ 1583 <= r_y r <= 4098 /\
   (n <> 0%nat -> sp_ord0 r + Z.of_nat n * r_interval r <= e_last)).

(* without BYEASTER: coarse_guard_all (YEARLY / MONTHLY / WEEKLY / DAILY: every rule, every fuel); with BYEASTER:
   easter_range (its WEEKLY conjunct `1 <= ws0 r` is implied by 1584 <= r_y r; kept for the existing proofs) *)
Definition full_guard (r : raw) (n : nat) : Prop :=
  coarse_guard_all r n \/
  (spec_wf r = true /\ all_opt (r_byweekno r) weekno_safe = true /\ easter_range r n).

Theorem rrule_iter_correct_coarse_full : forall r rl limit n,
  normalize r = Ok rl -> full_guard r n ->
  fst (iterate rl limit n) = fst (spec_iter r limit n).
Proof.
  intros r rl limit n HN [G|(HW & Hs & [(Hf & Hy & Hn)|[(Hf & Hy & Hn)|[(Hf & Hws & Hy1 & Hy2 & Hn)|(Hf & Hy & Hn)]]])].
  - apply (rrule_iter_correct_coarse_all r rl limit n HN G).
  - apply (yearly_easter_iter_correct_all r rl limit n HN); [constructor; assumption|exact Hy|exact Hn].
  - apply (monthly_easter_iter_correct_all r rl limit n HN); [constructor; assumption|exact Hy|exact Hn].
  - apply (rrule_iter_correct_coarse_easter_all r rl limit n HN).
    split; [exact HW|]. split; [exact Hs|]. right. right. left. repeat split; assumption.
  - apply (rrule_iter_correct_coarse_easter_all r rl limit n HN).
    split; [exact HW|]. split; [exact Hs|]. right. right. right. repeat split; try assumption; lia.
Qed.
