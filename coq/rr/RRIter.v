(* C01 -- model of dateutil.rrule.rrule._iter (rrule.py 781-1036) and __mod_distance (1085-1115):
   the generator's main loop with explicit fuel.  Result: the yielded instants and the reason the
   generator stopped.  No proofs in this file. *)
From Coq Require Import ZArith List Bool.
From V Require Import base.Cal gen.RrTables rr.RRBase rr.RRNorm rr.RRMasks.
Import ListNotations.
Open Scope Z_scope.

Inductive term := TCount | TUntil | TMaxYear | TRaised (e : exn) | TOutOfFuel | TLimit.

Record state := mkSt {
  c_year : Z; c_month : Z; c_day : Z; c_hour : Z; c_minute : Z; c_second : Z; c_weekday : Z;
  c_ii : iinfo;
  c_timeset : list Z;
  c_count : option Z;
  c_out : list instant        (* yielded so far, most recent first *)
}.

(* ------------------------------------------------------------------ the BY-filter, 838-851 *)
(* each clause: Ok true = "this clause rejects day i" *)
Definition cl_month (rl : rule) (ii : iinfo) (i : Z) : res bool :=
  if truthy (bymonth rl) then do v <- py_nth (mmask ii) i; Ok (negb (memZ v (opt_list (bymonth rl))))
  else Ok false.

Definition cl_weekno (rl : rule) (ii : iinfo) (i : Z) : res bool :=
  if truthy (byweekno rl) then
    match wnomask ii with
    | None => Err EType
    | Some l => do v <- py_nth l i; Ok (v =? 0)
    end
  else Ok false.

Definition cl_weekday (rl : rule) (ii : iinfo) (i : Z) : res bool :=
  let bw := truthy (byweekday rl) in
  let nw := truthy (nwdaymask ii) in
  if bw || nw then
    do a <- (if bw then do v <- py_nth (wdaymask ii) i; Ok (memZ v (opt_list (byweekday rl)))
             else Ok false);
    if a then Ok false else
    do b <- (if nw then do v <- py_nth (opt_list (nwdaymask ii)) i; Ok (negb (v =? 0)) else Ok false);
    Ok (negb b)
  else Ok false.

Definition cl_easter (rl : rule) (ii : iinfo) (i : Z) : res bool :=
  if truthy (byeaster rl) then
    match eastermask ii with
    | None => Err EType
    | Some l => do v <- py_nth l i; Ok (v =? 0)
    end
  else Ok false.

Definition cl_monthday (rl : rule) (ii : iinfo) (i : Z) : res bool :=
  if nonempty (bymonthday rl) || nonempty (bynmonthday rl) then
    do a <- py_nth (mdaymask ii) i;
    if memZ a (bymonthday rl) then Ok false else
    do b <- py_nth (nmdaymask ii) i;
    Ok (negb (memZ b (bynmonthday rl)))
  else Ok false.

Definition cl_yearday (rl : rule) (ii : iinfo) (i : Z) : res bool :=
  if truthy (byyearday rl) then
    let l := opt_list (byyearday rl) in
    if i <? yearlen ii then
      Ok (negb (memZ (i + 1) l) && negb (memZ (- yearlen ii + i) l))
    else
      Ok (negb (memZ (i + 1 - yearlen ii) l) && negb (memZ (- nextyearlen ii + i - yearlen ii) l))
  else Ok false.

Notation "a '|||' b" := (match a with Ok true => Ok true | Ok false => b | Err e => Err e end)
  (at level 50, left associativity).

Definition day_rejected (rl : rule) (ii : iinfo) (i : Z) : res bool :=
  cl_month rl ii i ||| cl_weekno rl ii i ||| cl_weekday rl ii i ||| cl_easter rl ii i |||
  cl_monthday rl ii i ||| cl_yearday rl ii i.

(* for i in dayset[start:end]: if <rejected>: dayset[i] = None; filtered = True *)
Fixpoint filter_loop (rl : rule) (ii : iinfo) (sl : list (option Z)) (ds : dayset) (filtered : bool)
  : res (dayset * bool) :=
  match sl with
  | [] => Ok (ds, filtered)
  | None :: _ => Err EType
  | Some i :: t =>
    do rj <- day_rejected rl ii i;
    if rj then do ds' <- py_set ds i None; filter_loop rl ii t ds' true
    else filter_loop rl ii t ds filtered
  end.

(* ------------------------------------------------------------------ the until/dtstart/count gate *)
Definition dtstart_inst (rl : rule) : instant :=
  (ord_of_ymd (s_y rl) (s_m rl) (s_d rl), s_H rl * 3600 + s_M rl * 60 + s_S rl).

(* res > until, where until may carry microseconds and res never does *)
Definition after_until (rl : rule) (x : instant) : bool :=
  match until rl with
  | None => false
  | Some (uo, us, uu) =>
    (uo <? fst x) || ((uo =? fst x) && ((us <? snd x) || ((us =? snd x) && (uu <? 0))))
  end.

Definition gate_one (rl : rule) (x : instant) (cnt : option Z) (out : list instant)
  : list instant * option Z * option term :=
  if after_until rl x then (out, cnt, Some TUntil)
  else if inst_le (dtstart_inst rl) x then
    match cnt with
    | Some c => if c - 1 <? 0 then (out, Some (c - 1), Some TCount)
                else (x :: out, Some (c - 1), None)
    | None => (x :: out, None, None)
    end
  else (out, cnt, None).

Fixpoint gate_list (rl : rule) (xs : list instant) (cnt : option Z) (out : list instant)
  : list instant * option Z * option term :=
  match xs with
  | [] => (out, cnt, None)
  | x :: t =>
    let '(out', cnt', st) := gate_one rl x cnt out in
    match st with Some _ => (out', cnt', st) | None => gate_list rl t cnt' out' end
  end.

(* 888-904 *)
Fixpoint out_days (rl : rule) (yo : Z) (sl : list (option Z)) (ts : list Z) (cnt : option Z)
  (out : list instant) : list instant * option Z * option term :=
  match sl with
  | [] => (out, cnt, None)
  | None :: t => out_days rl yo t ts cnt out
  | Some i :: t =>
    match from_ordinal (yo + i) with
    | Err e => (out, cnt, Some (TRaised e))
    | Ok o =>
      let '(out', cnt', st) := gate_list rl (map (fun s => (o, s)) ts) cnt out in
      match st with Some _ => (out', cnt', st) | None => out_days rl yo t ts cnt' out' end
    end
  end.

Fixpoint somes (l : list (option Z)) : list Z :=
  match l with [] => [] | Some x :: t => x :: somes t | None :: t => somes t end.

Definition mem_inst (x : instant) (l : list instant) : bool := existsb (inst_eq x) l.

(* 857-874: the BYSETPOS selection; IndexError inside the try is swallowed *)
Fixpoint poslist_build (yo : Z) (present : list Z) (ts : list Z) (poss : list Z) (acc : list instant)
  : res (list instant) :=
  match poss with
  | [] => Ok acc
  | pos :: t =>
    let n := zlen ts in
    let '(daypos, timepos) := if pos <? 0 then (pos / n, pos mod n) else ((pos - 1) / n, (pos - 1) mod n) in
    match py_nth present daypos with
    | Err _ => poslist_build yo present ts t acc
    | Ok i =>
      match py_nth ts timepos with
      | Err _ => poslist_build yo present ts t acc
      | Ok tm =>
        do o <- from_ordinal (yo + i);
        let x := (o, tm) in
        poslist_build yo present ts t (if mem_inst x acc then acc else acc ++ [x])
      end
    end
  end.

(* ------------------------------------------------------------------ __mod_distance *)
Fixpoint mod_distance_loop (n : nat) (itv base : Z) (byxxx : list Z) (value acc : Z)
  : option (Z * Z) :=
  match n with
  | O => None
  | S k =>
    let v := value + itv in
    let acc' := acc + v / base in
    let value' := v mod base in
    if memZ value' byxxx then Some (acc', value')
    else mod_distance_loop k itv base byxxx value' acc'
  end.

Definition mod_distance (rl : rule) (value : Z) (byxxx : list Z) (base : Z) : res (Z * Z) :=
  match mod_distance_loop (Z.to_nat base) (interval rl) base byxxx value 0 with
  | Some p => Ok p
  | None => Err EType          (* the function returns None; unpacking it raises TypeError *)
  end.

(* ------------------------------------------------------------------ bounded for-loops with break *)
Inductive lp (A : Type) : Type := LCont (a : A) | LBreak (a : A) | LErr (e : exn).
Arguments LCont {A} a. Arguments LBreak {A} a. Arguments LErr {A} e.

(* apply f exactly p times unless it breaks or fails *)
Fixpoint iter_until {A : Type} (p : positive) (f : A -> lp A) (a : A) : lp A :=
  match p with
  | xH => f a
  | xO p' => match iter_until p' f a with
             | LCont a' => iter_until p' f a'
             | r => r
             end
  | xI p' => match f a with
             | LCont a1 => match iter_until p' f a1 with
                           | LCont a2 => iter_until p' f a2
                           | r => r
                           end
             | r => r
             end
  end.

Definition for_range {A : Type} (k : Z) (f : A -> lp A) (a : A) : lp A :=
  if k <=? 0 then LCont a else iter_until (Z.to_pos k) f a.

(* ------------------------------------------------------------------ fixday, 1023-1036 *)
Inductive fixr := FixOk (y m d : Z) | FixMax | FixFuel.

Fixpoint fix_loop (fuel : nat) (year month day dm : Z) : fixr :=
  match fuel with
  | O => FixFuel
  | S k =>
    if dm <? day then
      let day' := day - dm in
      let month' := month + 1 in
      if month' =? 13 then
        if T_MAXYEAR <? year + 1 then FixMax
        else fix_loop k (year + 1) 1 day' (Cal.dim (year + 1) 1)
      else fix_loop k year month' day' (Cal.dim year month')
    else FixOk year month day
  end.

Inductive adv := AdvMax | AdvFuel | AdvGo (s : state).

Definition finish_advance (rl : rule) (s : state) (fixday : bool)
  (year month day hour minute second wd : Z) (ii : iinfo) (ts : list Z)
  (cnt : option Z) (out : list instant) : res adv :=
  if fixday && (28 <? day) then
    let dm := Cal.dim year month in
    if dm <? day then
      match fix_loop (Z.to_nat day) year month day dm with
      | FixFuel => Ok AdvFuel
      | FixMax => Ok AdvMax
      | FixOk y' m' d' =>
        do ii' <- rebuild rl ii y' m';
        Ok (AdvGo (mkSt y' m' d' hour minute second wd ii' ts cnt out))
      end
    else Ok (AdvGo (mkSt year month day hour minute second wd ii ts cnt out))
  else Ok (AdvGo (mkSt year month day hour minute second wd ii ts cnt out)).

(* 906-1021 *)
Definition advance (rl : rule) (s : state) (filtered : bool) (cnt : option Z) (out : list instant)
  : res adv :=
  let fr := freq rl in
  let itv := interval rl in
  let year := c_year s in let month := c_month s in let day := c_day s in
  let hour := c_hour s in let minute := c_minute s in let second := c_second s in
  let wd := c_weekday s in let ii := c_ii s in let ts := c_timeset s in
  if fr =? YEARLY then
    let year := year + itv in
    if T_MAXYEAR <? year then Ok AdvMax else
    do ii' <- rebuild rl ii year month;
    finish_advance rl s false year month day hour minute second wd ii' ts cnt out
  else if fr =? MONTHLY then
    let month := month + itv in
    if 12 <? month then
      let dv := month / 12 in
      let md := month mod 12 in
      let '(month, year) := if md =? 0 then (12, year + dv - 1) else (md, year + dv) in
      if T_MAXYEAR <? year then Ok AdvMax else
      do ii' <- rebuild rl ii year month;
      finish_advance rl s false year month day hour minute second wd ii' ts cnt out
    else
      do ii' <- rebuild rl ii year month;
      finish_advance rl s false year month day hour minute second wd ii' ts cnt out
  else if fr =? WEEKLY then
    let day := if wd <? wkst rl then day + - (wd + 1 + (6 - wkst rl)) + itv * 7
               else day + - (wd - wkst rl) + itv * 7 in
    finish_advance rl s true year month day hour minute second (wkst rl) ii ts cnt out
  else if fr =? DAILY then
    finish_advance rl s true year month (day + itv) hour minute second wd ii ts cnt out
  else if fr =? HOURLY then
    let hour := if filtered then hour + ((23 - hour) / itv) * itv else hour in
    do nh <- (if truthy (byhour rl) then mod_distance rl hour (opt_list (byhour rl)) 24
              else Ok ((hour + itv) / 24, (hour + itv) mod 24));
    let '(ndays, hour) := nh in
    let '(day, fixday) := if negb (ndays =? 0) then (day + ndays, true) else (day, false) in
    do ts' <- gettimeset rl hour minute second;
    finish_advance rl s fixday year month day hour minute second wd ii ts' cnt out
  else if fr =? MINUTELY then
    let minute := if filtered then minute + ((1439 - (hour * 60 + minute)) / itv) * itv else minute in
    let body := fun (st : Z * Z * Z * bool) =>
      let '(minute, hour, day, fixday) := st in
      match (if truthy (byminute rl) then mod_distance rl minute (opt_list (byminute rl)) 60
             else Ok ((minute + itv) / 60, (minute + itv) mod 60)) with
      | Err e => LErr e
      | Ok (nhours, minute) =>
        let dv := (hour + nhours) / 24 in
        let hour := (hour + nhours) mod 24 in
        let '(day, fixday) := if negb (dv =? 0) then (day + dv, true) else (day, fixday) in
        if negb (truthy (byhour rl)) || memZ hour (opt_list (byhour rl))
        then LBreak (minute, hour, day, fixday) else LCont (minute, hour, day, fixday)
      end in
    match for_range (1440 / Z.gcd itv 1440) body (minute, hour, day, false) with
    | LErr e => Err e
    | LCont _ => Err EValue
    | LBreak (minute, hour, day, fixday) =>
      do ts' <- gettimeset rl hour minute second;
      finish_advance rl s fixday year month day hour minute second wd ii ts' cnt out
    end
  else if fr =? SECONDLY then
    let second := if filtered
                  then second + ((86399 - (hour * 3600 + minute * 60 + second)) / itv) * itv
                  else second in
    let body := fun (st : Z * Z * Z * Z * bool) =>
      let '(second, minute, hour, day, fixday) := st in
      match (if truthy (bysecond rl) then mod_distance rl second (opt_list (bysecond rl)) 60
             else Ok ((second + itv) / 60, (second + itv) mod 60)) with
      | Err e => LErr e
      | Ok (nminutes, second) =>
        let dv := (minute + nminutes) / 60 in
        let minute := (minute + nminutes) mod 60 in
        let '(hour, day, fixday) :=
          if negb (dv =? 0) then
            let hour := hour + dv in
            let dv2 := hour / 24 in
            let hour := hour mod 24 in
            if negb (dv2 =? 0) then (hour, day + dv2, true) else (hour, day, fixday)
          else (hour, day, fixday) in
        if (negb (truthy (byhour rl)) || memZ hour (opt_list (byhour rl))) &&
           (negb (truthy (byminute rl)) || memZ minute (opt_list (byminute rl))) &&
           (negb (truthy (bysecond rl)) || memZ second (opt_list (bysecond rl)))
        then LBreak (second, minute, hour, day, fixday)
        else LCont (second, minute, hour, day, fixday)
      end in
    match for_range (86400 / Z.gcd itv 86400) body (second, minute, hour, day, false) with
    | LErr e => Err e
    | LCont _ => Err EValue
    | LBreak (second, minute, hour, day, fixday) =>
      do ts' <- gettimeset rl hour minute second;
      finish_advance rl s fixday year month day hour minute second wd ii ts' cnt out
    end
  else
    finish_advance rl s false year month day hour minute second wd ii ts cnt out.

(* ------------------------------------------------------------------ one pass of `while True:` *)
Definition step (rl : rule) (s : state) : state + (list instant * term) :=
  let ii := c_ii s in
  match (do d <- getdayset rl ii (c_year s) (c_month s) (c_day s);
         let '(ds, st, en) := d in
         do f <- filter_loop rl ii (py_slice ds st en) ds false;
         Ok (fst f, st, en, snd f)) with
  | Err e => inr (c_out s, TRaised e)
  | Ok (ds, st, en, filtered) =>
    let sl := py_slice ds st en in
    let ts := c_timeset s in
    let '(out1, cnt1, stop) :=
      if truthy (bysetpos rl) && nonempty ts then
        match poslist_build (yearordinal ii) (somes sl) ts (opt_list (bysetpos rl)) [] with
        | Err e => (c_out s, c_count s, Some (TRaised e))
        | Ok pl => gate_list rl (sort_inst pl) (c_count s) (c_out s)
        end
      else out_days rl (yearordinal ii) sl ts (c_count s) (c_out s) in
    match stop with
    | Some t => inr (out1, t)
    | None =>
      match advance rl s filtered cnt1 out1 with
      | Err e => inr (out1, TRaised e)
      | Ok AdvMax => inr (out1, TMaxYear)
      | Ok AdvFuel => inr (out1, TOutOfFuel)
      | Ok (AdvGo s') => inl s'
      end
    end
  end.

Fixpoint run (rl : rule) (limit : Z) (fuel : nat) (s : state) : list instant * term :=
  match fuel with
  | O => (c_out s, TOutOfFuel)
  | S k =>
    if limit <=? zlen (c_out s) then (c_out s, TLimit)
    else match step rl s with
         | inr r => r
         | inl s' => run rl limit k s'
         end
  end.

(* 782-827: the generator's prologue *)
Definition init_state (rl : rule) : res state :=
  let year := s_y rl in let month := s_m rl in let day := s_d rl in
  let hour := s_H rl in let minute := s_M rl in let second := s_S rl in
  let wd := Cal.weekday year month day in
  (* 802-811: WEEKLY + BYSETPOS starts the first period at the week start *)
  let '(year, month, day, wd) :=
    if (freq rl =? WEEKLY) && truthy (bysetpos rl) then
      let back := (wd - wkst rl) mod 7 in
      let o := ord_of_ymd year month day in
      if negb (back =? 0) then
        (* clamped at 0001-01-01 (fix 3426f68): date.fromordinal(max(o - back, 1)), weekday = first.weekday() *)
        let o' := Z.max (o - back) 1 in
        let '(y', m', d') := ymd_of_ord o' in (y', m', d', weekday_of_ord o')
      else (year, month, day, wd)
    else (year, month, day, wd) in
  do ii <- rebuild rl ii_init year month;
  do ts <-
    (if freq rl <? HOURLY then
       match timeset rl with Some l => Ok l | None => Err EType end
     else if ((HOURLY <=? freq rl) && truthy (byhour rl) && negb (memZ hour (opt_list (byhour rl)))) ||
             ((MINUTELY <=? freq rl) && truthy (byminute rl) && negb (memZ minute (opt_list (byminute rl)))) ||
             ((SECONDLY <=? freq rl) && truthy (bysecond rl) && negb (memZ second (opt_list (bysecond rl))))
          then Ok []
          else gettimeset rl hour minute second);
  Ok (mkSt year month day hour minute second wd ii ts (count rl) []).

(* iterate the rule: instants in the order yielded + why the generator stopped *)
Definition iterate (rl : rule) (limit : Z) (fuel : nat) : list instant * term :=
  match init_state rl with
  | Err e => ([], TRaised e)
  | Ok s => let '(out, t) := run rl limit fuel s in (rev out, t)
  end.
