(* C01 -- independent executable SPECIFICATION of the recurrence set of an rrule.
   Written from the property text / RFC 5545, not from dateutil's algorithm: no masks, no cursor,
   no carries.  Period k is the (k * interval)-th year / month / wkst-week / day / hour / minute /
   second after the period containing the start; its candidate list is found by brute force over
   the period's days and times with declarative, date-intrinsic predicates.  No proofs here. *)
From Coq Require Import ZArith List Bool.
From V Require Import base.Cal easter.EasterSpec rr.RRBase rr.RRNorm.
Import ListNotations.
Open Scope Z_scope.

(* ------------------------------------------------------------------ start and effective parts *)
Definition sp_ord0 (r : raw) : Z := ord_of_ymd (r_y r) (r_m r) (r_d r).
Definition sp_H0 (r : raw) : Z := if r_isdate r then 0 else r_H r.
Definition sp_M0 (r : raw) : Z := if r_isdate r then 0 else r_M r.
Definition sp_S0 (r : raw) : Z := if r_isdate r then 0 else r_S r.
Definition sp_sod0 (r : raw) : Z := sp_H0 r * 3600 + sp_M0 r * 60 + sp_S0 r.
Definition sp_start (r : raw) : instant := (sp_ord0 r, sp_sod0 r).

(* no day-selecting BY-part supplied: defaults are taken from the start *)
Definition no_day_part (r : raw) : bool :=
  is_none (r_byweekno r) && is_none (r_byyearday r) && is_none (r_bymonthday r) &&
  is_none (r_byweekday r) && is_none (r_byeaster r).

Definition eff_bymonth (r : raw) : option (list Z) :=
  match r_bymonth r with
  | Some l => Some l
  | None => if no_day_part r && (r_freq r =? YEARLY) then Some [r_m r] else None
  end.
Definition eff_bymonthday (r : raw) : option (list Z) :=
  match r_bymonthday r with
  | Some l => Some l
  | None => if no_day_part r && ((r_freq r =? YEARLY) || (r_freq r =? MONTHLY)) then Some [r_d r] else None
  end.
Definition eff_byweekday (r : raw) : option (list (Z * Z)) :=
  match r_byweekday r with
  | Some l => Some l
  | None => if no_day_part r && (r_freq r =? WEEKLY) then Some [(weekday_of_ord (sp_ord0 r), 0)] else None
  end.

(* a supplied restriction is satisfied when some member matches *)
Definition in_opt {A : Type} (o : option (list A)) (p : A -> bool) : bool :=
  match o with None => true | Some l => existsb p l end.

(* ------------------------------------------------------------------ week numbers w.r.t. wkst *)
(* first day of week 1 of year y: the first wkst-week with at least 4 days in y *)
Definition week1_start (wk y : Z) : Z :=
  let j1 := ord_of_ymd y 1 1 in
  let off := (weekday_of_ord j1 - wk) mod 7 in    (* days of Jan 1's week that precede Jan 1 *)
  if off <=? 3 then j1 - off else j1 - off + 7.

(* (week-year, week number) of the day with ordinal o *)
Definition week_of (wk o : Z) : Z * Z :=
  let y := year_of_ord o in
  let wy := if o <? week1_start wk y then y - 1
            else if week1_start wk (y + 1) <=? o then y + 1 else y in
  (wy, (o - week1_start wk wy) / 7 + 1).

Definition weeks_in (wk wy : Z) : Z := (week1_start wk (wy + 1) - week1_start wk wy) / 7.

(* ------------------------------------------------------------------ day predicates *)
(* pos is the n-th (n > 0) or |n|-th last (n < 0) of its weekday among positions 1..len *)
Definition nth_in (pos len n : Z) : bool :=
  if 0 <? n then (7 * (n - 1) <? pos) && (pos <=? 7 * n)
  else if n <? 0 then (7 * (- n - 1) <=? len - pos) && (len - pos <? 7 * (- n))
  else false.

Definition easter_ord_spec (y : Z) : Z :=
  let '(yy, m, d) := spec_western y in ord_of_ymd yy m d.

Definition day_ok (r : raw) (o : Z) : bool :=
  let '(y, m, d) := ymd_of_ord o in
  let yd := o - days_before_year y in
  let wd := weekday_of_ord o in
  in_opt (eff_bymonth r) (Z.eqb m) &&
  in_opt (eff_bymonthday r) (fun x => (x =? d) || (x =? d - dim y m - 1)) &&
  in_opt (r_byyearday r) (fun x => (x =? yd) || (x =? yd - year_len y - 1)) &&
  in_opt (r_byweekno r) (fun x => let '(wy, w) := week_of (r_wkst r) o in
                                  (x =? w) || (x =? w - weeks_in (r_wkst r) wy - 1)) &&
  in_opt (eff_byweekday r) (fun wn =>
     let '(w, n) := wn in
     (w =? wd) &&
     (if (n =? 0) || (MONTHLY <? r_freq r) then true
      else if (r_freq r =? MONTHLY) || negb (is_none (r_bymonth r)) then nth_in d (dim y m) n
      else nth_in yd (year_len y) n)) &&
  in_opt (r_byeaster r) (fun x => o =? easter_ord_spec y + x).

(* ------------------------------------------------------------------ times *)
Definition eff_list (sup : option (list Z)) (coarser : bool) (dflt : Z) : option (list Z) :=
  match sup with Some l => Some l | None => if coarser then Some [dflt] else None end.

(* candidate times (seconds of day, ascending, distinct) of the period that starts at second
   `sod` of its day; for FREQ coarser than a unit that unit is expanded from the BY-list (or the
   start's value), otherwise it is the period's own value and a supplied BY-list only filters *)
Definition period_times (r : raw) (sod : Z) : list Z :=
  let fr := r_freq r in
  let pick (sup : option (list Z)) (coarser : bool) (dflt own : Z) : list Z :=
    if coarser then sort_set (match sup with Some l => l | None => [dflt] end)
    else if in_opt sup (Z.eqb own) then [own] else [] in
  let hs := pick (r_byhour r) (fr <? HOURLY) (sp_H0 r) (sod / 3600) in
  let ms := pick (r_byminute r) (fr <? MINUTELY) (sp_M0 r) ((sod / 60) mod 60) in
  let ss := pick (r_bysecond r) (fr <? SECONDLY) (sp_S0 r) (sod mod 60) in
  flat_map (fun h => flat_map (fun m => flat_map (fun s =>
     if valid_hms h m s then [h * 3600 + m * 60 + s] else []) ss) ms) hs.

(* ------------------------------------------------------------------ BYSETPOS *)
(* keep the members of c whose 1-based position p, or position counted from the end, is listed *)
Fixpoint select_pos_aux (poss : list Z) (n i : Z) (c : list instant) : list instant :=
  match c with
  | [] => []
  | x :: t => (if existsb (fun p => (p =? i + 1) || (p =? i - n)) poss then [x] else [])
              ++ select_pos_aux poss n (i + 1) t
  end.
Definition select_pos (r : raw) (c : list instant) : list instant :=
  match r_bysetpos r with
  | None => c
  | Some poss => select_pos_aux poss (zlen c) 0 c
  end.

(* ------------------------------------------------------------------ periods *)
(* FREQ >= DAILY..YEARLY: period k covers whole days lo..hi *)
Definition period_days (r : raw) (k : Z) : Z * Z :=
  let fr := r_freq r in
  let n := k * r_interval r in
  if fr =? YEARLY then
    let y := r_y r + n in (ord_of_ymd y 1 1, ord_of_ymd (y + 1) 1 1 - 1)
  else if fr =? MONTHLY then
    let idx := r_y r * 12 + (r_m r - 1) + n in
    let y := idx / 12 in let m := idx mod 12 + 1 in
    (ord_of_ymd y m 1, ord_of_ymd y m 1 + dim y m - 1)
  else if fr =? WEEKLY then
    let ws0 := sp_ord0 r - (weekday_of_ord (sp_ord0 r) - r_wkst r) mod 7 in
    (ws0 + 7 * n, ws0 + 7 * n + 6)
  else (sp_ord0 r + n, sp_ord0 r + n).

Definition cands_coarse (r : raw) (k : Z) : list instant :=
  let '(lo, hi) := period_days r k in
  let lo' := Z.max lo 1 in let hi' := Z.min hi max_ord in
  let ts := period_times r 0 in
  flat_map (fun o => if day_ok r o then map (fun t => (o, t)) ts else []) (zrange lo' (hi' + 1)).

(* sub-daily: all periods that start within day o0 + j, in order *)
Definition unit_secs (r : raw) : Z :=
  if r_freq r =? HOURLY then 3600 else if r_freq r =? MINUTELY then 60 else 1.

Definition cands_subdaily_day (r : raw) (j : Z) : list instant :=
  let o := sp_ord0 r + j in
  if negb (day_ok r o) then [] else
  let u := unit_secs r in
  let stp := r_interval r * u in                        (* seconds between period starts *)
  let t0 := sp_ord0 r * 86400 + (sp_sod0 r / u) * u in  (* start of period 0 *)
  let dlo := o * 86400 in
  let klo := Z.max 0 ((dlo - t0 + stp - 1) / stp) in    (* first k with t0 + k*stp >= dlo *)
  let khi := (dlo + 86399 - t0) / stp in                (* last k with t0 + k*stp <= dlo + 86399 *)
  flat_map (fun k =>
     let sod := t0 + k * stp - dlo in
     select_pos r (map (fun t => (o, t)) (period_times r sod)))
    (zrange klo (khi + 1)).

Definition is_coarse (r : raw) : bool := r_freq r <=? DAILY.

(* first day of step j (a period for FREQ <= DAILY, a day for sub-daily FREQ) *)
Definition step_lo (r : raw) (j : Z) : Z :=
  if is_coarse r then fst (period_days r j) else sp_ord0 r + j.

(* the members of step j that are not earlier than the start, in order *)
Definition step_items (r : raw) (j : Z) : list instant :=
  filter (fun x => inst_le (sp_start r) x)
    (if is_coarse r then select_pos r (cands_coarse r j) else cands_subdaily_day r j).

(* ------------------------------------------------------------------ the sequence *)
Definition sp_after_until (r : raw) (x : instant) : bool :=
  match r_until r with
  | None => false
  | Some (uo, us, uu) =>
    (uo <? fst x) || ((uo =? fst x) && ((us <? snd x) || ((us =? snd x) && (uu <? 0))))
  end.

Inductive sterm := SExhausted | SLimit | SFuel.

(* take items while they are <= UNTIL and COUNT is not used up *)
Fixpoint sp_take (r : raw) (xs : list instant) (cnt : option Z) (acc : list instant)
  : list instant * option Z * bool :=
  match xs with
  | [] => (acc, cnt, false)
  | x :: t =>
    if sp_after_until r x then (acc, cnt, true)
    else match cnt with
         | Some c => if c <=? 0 then (acc, cnt, true) else sp_take r t (Some (c - 1)) (x :: acc)
         | None => sp_take r t None (x :: acc)
         end
  end.

Fixpoint spec_loop (r : raw) (limit : Z) (fuel : nat) (j : Z) (cnt : option Z) (acc : list instant)
  : list instant * sterm :=
  match fuel with
  | O => (acc, SFuel)
  | S f =>
    if limit <=? zlen acc then (acc, SLimit)
    else if max_ord <? step_lo r j then (acc, SExhausted)
    else if sp_after_until r (step_lo r j, 0) then (acc, SExhausted)
    else if (match cnt with Some c => c <=? 0 | None => false end) then (acc, SExhausted)
    else
      let '(acc', cnt', stop) := sp_take r (step_items r j) cnt acc in
      if stop then (acc', SExhausted) else spec_loop r limit f (j + 1) cnt' acc'
  end.

Definition spec_iter (r : raw) (limit : Z) (fuel : nat) : list instant * sterm :=
  let '(acc, t) := spec_loop r limit fuel 0 (r_count r) [] in (rev acc, t).

(* ------------------------------------------------------------------ domain of the specification *)
(* Rules the RFC grammar admits (plus out-of-range members that can simply never match).  Outside
   this domain (empty BY-lists, BYMONTH outside 1..12 -- with an nth weekday the code raises
   ValueError for it --, BYMONTHDAY 0, time parts outside 0..23 / 0..59, BYSETPOS 0 or beyond
   +-366, ...) only model and implementation are compared. *)
Definition ne_opt {A : Type} (o : option (list A)) : bool :=
  match o with Some [] => false | _ => true end.
Definition all_opt (o : option (list Z)) (p : Z -> bool) : bool :=
  match o with None => true | Some l => forallb p l end.
Definition between (a b x : Z) : bool := (a <=? x) && (x <=? b).

Definition spec_wf (r : raw) : bool :=
  between 0 6 (r_freq r) && (1 <=? r_interval r) && between 0 6 (r_wkst r) &&
  valid_ymd (r_y r) (r_m r) (r_d r) && valid_hms (sp_H0 r) (sp_M0 r) (sp_S0 r) &&
  negb ((negb (is_none (r_until r))) && r_tzmix r) &&
  ne_opt (r_bysetpos r) && ne_opt (r_bymonth r) && ne_opt (r_bymonthday r) && ne_opt (r_byyearday r) &&
  ne_opt (r_byeaster r) && ne_opt (r_byweekno r) && ne_opt (r_byweekday r) &&
  ne_opt (r_byhour r) && ne_opt (r_byminute r) && ne_opt (r_bysecond r) &&
  all_opt (r_bysetpos r) (fun p => negb (p =? 0) && between (-366) 366 p) &&
  all_opt (r_bymonth r) (between 1 12) &&
  all_opt (r_bymonthday r) (fun x => negb (x =? 0)) &&
  match r_byweekday r with None => true | Some l => forallb (fun wn => between 0 6 (fst wn)) l end &&
  all_opt (r_byhour r) (between 0 23) && all_opt (r_byminute r) (between 0 59) &&
  all_opt (r_bysecond r) (between 0 59).
