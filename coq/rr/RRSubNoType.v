(* C01 layer 6, sub-daily: the TypeError exit of the MINUTELY / SECONDLY advance branches (a
   failing __mod_distance returns None, unpacking it raises TypeError) is unreachable for a rule
   built by the constructor whose BYMINUTE / BYSECOND members lie within 0..59: the stored set is
   non-empty and each member is reachable from the start in steps of `interval` (Bezout), and the
   cursor stays on that grid.  Hence the only exception of these branches is the ValueError of
   `minutely_core_spec` / `secondly_core_spec`, raised exactly when no later period can match.
   Written by the rset builder (new file). *)
From Coq Require Import ZArith List Bool Lia ZifyBool Znumtheory.
From V Require Import base.Cal gen.RrTables easter.EasterSpec rr.RRBase rr.RRNorm rr.RRMasks rr.RRIter
  rr.RRSpec rr.RRSubdailyThm rr.RRSubNorm rr.RRSubHour rr.RRSubLoop rr.RRSubMin rr.RRSubSec
  rr.RRSubSpec rr.RRSubHourTop rr.RRSubMinTop rr.RRSubSecTop.
Import ListNotations.
Open Scope Z_scope.

(* from every value on the grid start + t*itv (mod base) some later step hits the set *)
Definition grid_hits (itv start base : Z) (set : list Z) : Prop :=
  forall v t, 0 <= t -> v mod base = (start + t * itv) mod base ->
  exists i, 1 <= i /\ memZ ((v + i * itv) mod base) set = true.

Lemma constructed_grid_hits : forall itv start l base c, 0 < base -> 0 < itv ->
  (forall x, In x l -> 0 <= x < base) ->
  construct_byset itv start l base = Ok c -> grid_hits itv start base (sort_set c).
Proof.
  intros itv start l base c Hb Hi Hrange Hc v t Ht Hv.
  destruct (construct_byset_ok _ _ _ _ _ Hc) as [Ec Hne].
  destruct c as [|num c']; [contradiction|].
  assert (Hnum : In num l /\ reach_test itv start base num = true).
  { assert (In num (num :: c')) by (left; reflexivity). rewrite Ec in H. apply filter_In in H.
    destruct H as [H1 H2]. split; [exact H1|]. unfold keep_test in H2. apply andb_true_iff in H2. apply H2. }
  destruct Hnum as [Hnl Hnr].
  apply (construct_byset_reachable itv start base num Hb Hi) in Hnr. destruct Hnr as [j [Hj Ej]].
  rewrite (Z.mod_small num base) in Ej by (apply Hrange; assumption).
  exists (j + (base - 1) * t + base). split; [nia|].
  assert (E : (v + (j + (base - 1) * t + base) * itv) mod base = num).
  { rewrite <- Ej. rewrite <- Zplus_mod_idemp_l. rewrite Hv. rewrite Zplus_mod_idemp_l.
    replace (start + t * itv + (j + (base - 1) * t + base) * itv)
      with (start + j * itv + ((t + 1) * itv) * base) by ring.
    apply Z_mod_plus_full. }
  rewrite E. rewrite memZ_sort_set'. apply memZ_In. left. reflexivity.
Qed.

(* ------------------------------------------------------------------ MINUTELY *)
Lemma mabs_mod60 : forall mi hh dd fx, mabs (mi, hh, dd, fx) mod 60 = mi mod 60.
Proof.
  intros. unfold mabs. replace (dd * 1440 + hh * 60 + mi) with (mi + (dd * 24 + hh) * 60) by ring.
  apply Z_mod_plus_full.
Qed.

Lemma min_loop_no_typeerror : forall rl start, 1 <= interval rl ->
  (truthy (byminute rl) = true -> grid_hits (interval rl) start 60 (opt_list (byminute rl))) ->
  forall n st, mpre st -> (exists t, 0 <= t /\ mabs st mod 60 = (start + t * interval rl) mod 60) ->
  forall e, loop_n n (min_body rl) st <> LErr e.
Proof.
  intros rl start Hi HG. induction n as [|n IH]; intros st Hpre [t [Ht Hgrid]] e; [discriminate|].
  cbn [loop_n]. destruct st as [[[mi hh] dd] fx]. destruct Hpre as [Hmi Hhh].
  pose proof (min_body_spec rl mi hh dd fx Hi Hmi Hhh) as B. cbv zeta in B.
  destruct (min_body rl (mi, hh, dd, fx)) as [st1|st1|e1].
  - destruct B as (km & Hkm & Eabs & Hg & _).
    apply IH; [apply mgood_mpre; exact Hg|].
    exists (t + km). split; [lia|]. rewrite Eabs, <- Zplus_mod_idemp_l, Hgrid, Zplus_mod_idemp_l.
    f_equal. ring.
  - discriminate.
  - destruct B as (_ & Htr & Sk). exfalso.
    rewrite mabs_mod60 in Hgrid. destruct (HG Htr mi t Ht Hgrid) as [i [Hi1 Hm]].
    rewrite (Sk i Hi1) in Hm. discriminate.
Qed.

Theorem minutely_no_typeerror : forall r rl filtered k day,
  normalize r = Ok rl -> r_freq r = MINUTELY -> 1 <= r_interval r -> 0 <= sp_M0 r <= 59 -> 0 <= k ->
  (forall l, r_byminute r = Some l -> forall x, In x l -> 0 <= x <= 59) ->
  let a := min_n r k mod 1440 in
  minutely_core rl filtered (a / 60) (a mod 60) day <> Err EType.
Proof.
  intros r rl filtered k day Hn Hf Hi HM Hk Hrange a.
  destruct (normalize_time_fields r rl Hn) as [_ [Eitv [_ [_ [_ [_ [Bm _]]]]]]].
  unfold by_field in Bm. rewrite Hf in Bm.
  change (MINUTELY =? MINUTELY) with true in Bm. change (MINUTELY <? MINUTELY) with false in Bm.
  assert (HG : truthy (byminute rl) = true -> grid_hits (interval rl) (sp_M0 r) 60 (opt_list (byminute rl))).
  { intro Ht. destruct (r_byminute r) as [l|] eqn:El.
    - destruct Bm as [c [Hc Ebm]]. rewrite Ebm, Eitv. cbn [opt_list].
      apply (constructed_grid_hits (r_interval r) (sp_M0 r) l 60 c); try lia; [|exact Hc].
      intros x Hx. specialize (Hrange l eq_refl x Hx). lia.
    - rewrite Bm in Ht. discriminate. }
  unfold minutely_core. rewrite for_range_loop_n.
  pose proof (Z.mod_pos_bound (min_n r k) 1440 ltac:(lia)) as Ba. fold a in Ba.
  set (st0 := (min_jump (interval rl) filtered (a / 60) (a mod 60), a / 60, day, false)).
  assert (Hh : 0 <= a / 60 < 24) by (split; [apply Z.div_pos; lia|apply Z.div_lt_upper_bound; lia]).
  pose proof (Z.mod_pos_bound a 60 ltac:(lia)) as Bmi.
  assert (Hjump : exists q, 0 <= q /\ min_jump (interval rl) filtered (a / 60) (a mod 60) = a mod 60 + q * interval rl).
  { unfold min_jump. destruct filtered.
    - exists ((1439 - (a / 60 * 60 + a mod 60)) / interval rl). split; [|reflexivity].
      apply Z.div_pos; [|lia]. pose proof (Z.div_mod a 60 ltac:(lia)). lia.
    - exists 0. split; [lia|ring]. }
  destruct Hjump as [q [Hq Ej]].
  assert (Hpre : mpre st0) by (unfold st0, mpre; rewrite Ej; nia).
  assert (Hgrid : exists t, 0 <= t /\ mabs st0 mod 60 = (sp_M0 r + t * interval rl) mod 60).
  { exists (k + q). split; [lia|]. unfold st0. rewrite mabs_mod60, Ej.
    rewrite <- Zplus_mod_idemp_l, Z.mod_mod by lia. unfold a.
    rewrite (min_parts_of_period r k). rewrite Zplus_mod_idemp_l, Eitv. f_equal. ring. }
  pose proof (min_loop_no_typeerror rl (sp_M0 r) ltac:(lia) HG
                (Z.to_nat (1440 / Z.gcd (interval rl) 1440)) st0 Hpre Hgrid) as NE.
  destruct (loop_n (Z.to_nat (1440 / Z.gcd (interval rl) 1440)) (min_body rl) st0) as [?|?|e];
    try discriminate. exfalso. apply (NE e). reflexivity.
Qed.

(* ------------------------------------------------------------------ SECONDLY *)
Lemma sabs_mod60 : forall se mi hh dd fx, sabs (se, mi, hh, dd, fx) mod 60 = se mod 60.
Proof.
  intros. unfold sabs. replace (dd * 86400 + hh * 3600 + mi * 60 + se)
    with (se + (dd * 1440 + hh * 60 + mi) * 60) by ring.
  apply Z_mod_plus_full.
Qed.

Lemma sec_loop_no_typeerror : forall rl start, 1 <= interval rl ->
  (truthy (bysecond rl) = true -> grid_hits (interval rl) start 60 (opt_list (bysecond rl))) ->
  forall n st, spre st -> (exists t, 0 <= t /\ sabs st mod 60 = (start + t * interval rl) mod 60) ->
  forall e, loop_n n (sec_body rl) st <> LErr e.
Proof.
  intros rl start Hi HG. induction n as [|n IH]; intros st Hpre [t [Ht Hgrid]] e; [discriminate|].
  cbn [loop_n]. destruct st as [[[[se mi] hh] dd] fx]. destruct Hpre as [Hse [Hmi Hhh]].
  pose proof (sec_body_spec rl se mi hh dd fx Hi Hse Hmi Hhh) as B. cbv zeta in B.
  destruct (sec_body rl (se, mi, hh, dd, fx)) as [st1|st1|e1].
  - destruct B as (km & Hkm & Eabs & Hg & _).
    apply IH; [apply sgood_spre; exact Hg|].
    exists (t + km). split; [lia|]. rewrite Eabs, <- Zplus_mod_idemp_l, Hgrid, Zplus_mod_idemp_l.
    f_equal. ring.
  - discriminate.
  - destruct B as (_ & Htr & Sk). exfalso.
    rewrite sabs_mod60 in Hgrid. destruct (HG Htr se t Ht Hgrid) as [i [Hi1 Hm]].
    rewrite (Sk i Hi1) in Hm. discriminate.
Qed.

Theorem secondly_no_typeerror : forall r rl filtered k day,
  normalize r = Ok rl -> r_freq r = SECONDLY -> 1 <= r_interval r -> 0 <= sp_S0 r <= 59 -> 0 <= k ->
  (forall l, r_bysecond r = Some l -> forall x, In x l -> 0 <= x <= 59) ->
  let a := sec_n r k mod 86400 in
  secondly_core rl filtered (a / 3600) ((a / 60) mod 60) (a mod 60) day <> Err EType.
Proof.
  intros r rl filtered k day Hn Hf Hi HS Hk Hrange a.
  destruct (normalize_time_fields r rl Hn) as [_ [Eitv [_ [_ [_ [_ [_ Bs]]]]]]].
  unfold by_field in Bs. rewrite Hf in Bs.
  change (SECONDLY =? SECONDLY) with true in Bs. change (SECONDLY <? SECONDLY) with false in Bs.
  assert (HG : truthy (bysecond rl) = true -> grid_hits (interval rl) (sp_S0 r) 60 (opt_list (bysecond rl))).
  { intro Ht. destruct (r_bysecond r) as [l|] eqn:El.
    - destruct Bs as [c [Hc Ebs]]. rewrite Ebs, Eitv. cbn [opt_list].
      apply (constructed_grid_hits (r_interval r) (sp_S0 r) l 60 c); try lia; [|exact Hc].
      intros x Hx. specialize (Hrange l eq_refl x Hx). lia.
    - rewrite Bs in Ht. discriminate. }
  unfold secondly_core. rewrite for_range_loop_n.
  pose proof (Z.mod_pos_bound (sec_n r k) 86400 ltac:(lia)) as Ba. fold a in Ba.
  destruct (sod_parts a Ba) as (Ea & Rh & Rm & Rs).
  set (st0 := (sec_jump (interval rl) filtered (a / 3600) ((a / 60) mod 60) (a mod 60),
               (a / 60) mod 60, a / 3600, day, false)).
  assert (Hjump : exists q, 0 <= q /\
            sec_jump (interval rl) filtered (a / 3600) ((a / 60) mod 60) (a mod 60) = a mod 60 + q * interval rl).
  { unfold sec_jump. destruct filtered.
    - eexists. split; [|reflexivity]. apply Z.div_pos; lia.
    - exists 0. split; [lia|ring]. }
  destruct Hjump as [q [Hq Ej]].
  assert (Hpre : spre st0) by (unfold st0, spre; rewrite Ej; nia).
  assert (Hgrid : exists t, 0 <= t /\ sabs st0 mod 60 = (sp_S0 r + t * interval rl) mod 60).
  { exists (k + q). split; [lia|]. unfold st0. rewrite sabs_mod60, Ej.
    rewrite <- Zplus_mod_idemp_l, Z.mod_mod by lia. unfold a.
    rewrite (sec_parts_of_period r k). rewrite Zplus_mod_idemp_l, Eitv. f_equal. ring. }
  pose proof (sec_loop_no_typeerror rl (sp_S0 r) ltac:(lia) HG
                (Z.to_nat (86400 / Z.gcd (interval rl) 86400)) st0 Hpre Hgrid) as NE.
  destruct (loop_n (Z.to_nat (86400 / Z.gcd (interval rl) 86400)) (sec_body rl) st0) as [?|?|e];
    try discriminate. exfalso. apply (NE e). reflexivity.
Qed.
