(* C01 -- facts about the specification for EVERY frequency (coarse part: RRSortedThm, sub-daily part: builder
   rset's RRSubSorted). *)
From Coq Require Import ZArith List Bool Lia.
From V Require Import base.Cal rr.RRBase rr.RRNorm rr.RRSpec rr.RRSetposThm rr.RRSortedThm rr.RRSubSorted.
Import ListNotations.
Open Scope Z_scope.

(* the specified sequence of every rule of the domain is strictly increasing *)
Theorem spec_iter_sorted_all : forall r, spec_wf r = true ->
  forall limit n, isorted (fst (spec_iter r limit n)).
Proof.
  intros r HW limit n. destruct (is_coarse r) eqn:Hc.
  - apply (spec_iter_sorted r HW). unfold is_coarse in Hc. lia.
  - apply (spec_iter_sorted_sub r HW Hc).
Qed.
