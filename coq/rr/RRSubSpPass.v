(* C01 sub-daily WITH BYSETPOS: one pass of `while True:` for DAILY..SECONDLY rules whose BYSETPOS is
   set.  The day set is the cursor's single day; the poslist stage (rrule.py 857-874) selects from
   day x timeset, or from nothing when the day is rejected (the IndexError is swallowed); by the rr
   builder's RRSetposThm.poslist_is_select_pos the sorted poslist is the specification's
   select_pos_aux on the period's candidates.  Written by the rset builder (new file). *)
From Coq Require Import ZArith List Bool Lia ZifyBool.
From V Require Import base.Cal gen.RrTables rr.RRBase rr.RRNorm rr.RRMasks rr.RRIter rr.RRSpec rr.RROverlay
  rr.RRDaysetThm rr.RRTimesetThm rr.RRSetposThm rr.RRSubPass.
Import ListNotations.
Open Scope Z_scope.

Theorem step_single_day_sp : forall rl s rj poss,
  (DAILY <=? freq rl) && (freq rl <=? SECONDLY) = true ->
  bysetpos rl = Some poss -> poss <> [] -> forallb (fun p => negb (p =? 0)) poss = true ->
  ssorted (c_timeset s) = true ->
  valid_ymd (c_year s) (c_month s) (c_day s) = true ->
  let o := ord_of_ymd (c_year s) (c_month s) (c_day s) in
  let i := o - yearordinal (c_ii s) in
  0 <= i < yearlen (c_ii s) -> 1 <= o <= max_ord ->
  day_rejected rl (c_ii s) i = Ok rj ->
  step rl s =
  after_gate rl s rj
    (gate_list rl (if rj then []
                   else let C := map (fun t => (o, t)) (c_timeset s) in select_pos_aux poss (zlen C) 0 C)
               (c_count s) (c_out s)).
Proof.
  intros rl s rj poss Hfr Hsp Hne Hnz Hst Hv o i Hi Ho Hr. unfold step.
  assert (Hgd : getdayset rl (c_ii s) (c_year s) (c_month s) (c_day s) =
                ddayset (c_ii s) (c_year s) (c_month s) (c_day s)).
  { unfold getdayset. apply andb_true_iff in Hfr. destruct Hfr as [F1 F2].
    unfold DAILY, SECONDLY, YEARLY, MONTHLY, WEEKLY in *.
    replace (freq rl =? 0) with false by lia. replace (freq rl =? 1) with false by lia.
    replace (freq rl =? 2) with false by lia. rewrite F1, F2. reflexivity. }
  rewrite Hgd. rewrite (ddayset_shape (c_ii s) _ _ _ Hv Hi). cbn [bind]. fold o. fold i.
  set (ds := set_nat (repeat None (Z.to_nat (yearlen (c_ii s)))) (Z.to_nat i) (Some i)).
  assert (Hlen : zlen ds = yearlen (c_ii s)).
  { unfold ds, zlen. rewrite set_nat_length, repeat_len. lia. }
  assert (Hsl : py_slice ds i (i + 1) = [Some i]).
  { unfold ds. apply slice_one_set. unfold zlen. rewrite repeat_len. lia. }
  rewrite Hsl. rewrite (filter_loop_single rl (c_ii s) ds i rj ltac:(lia) Hr). cbn [bind fst snd].
  rewrite Hsp. assert (Tp : truthy (Some poss) = true) by (destruct poss; [contradiction|reflexivity]).
  rewrite Tp. cbn [andb opt_list].
  assert (Hyo : yearordinal (c_ii s) + i = o) by (unfold i; ring).
  assert (Hfo : from_ordinal (yearordinal (c_ii s) + i) = Ok o).
  { unfold from_ordinal. rewrite Hyo.
    replace ((1 <=? o) && (o <=? max_ord)) with true by lia. reflexivity. }
  destruct (nonempty (c_timeset s)) eqn:Ene.
  - assert (Hlt : (0 < length (c_timeset s))%nat) by (destruct (c_timeset s); [discriminate|simpl; lia]).
    destruct rj.
    + rewrite (slice_one_set ds i None ltac:(lia)). cbn [somes].
      destruct (poslist_is_select_pos (yearordinal (c_ii s)) (c_timeset s) [] poss Hlt eq_refl Hst
                  ltac:(intros j []) Hnz) as (pl & E & ES).
      rewrite E, ES. reflexivity.
    + rewrite Hsl. cbn [somes].
      destruct (poslist_is_select_pos (yearordinal (c_ii s)) (c_timeset s) [i] poss Hlt eq_refl Hst
                  ltac:(intros j [<-|[]]; rewrite Hfo, Hyo; reflexivity) Hnz) as (pl & E & ES).
      rewrite E, ES. unfold cand_list. cbn [flat_map]. rewrite app_nil_r, Hyo. reflexivity.
  - assert (Ets : c_timeset s = []) by (destruct (c_timeset s); [reflexivity|discriminate]).
    rewrite Ets. destruct rj.
    + rewrite (slice_one_set ds i None ltac:(lia)). cbn [out_days]. reflexivity.
    + rewrite Hsl. cbn [out_days]. rewrite Hfo. reflexivity.
Qed.
