(* C01 layer 7 -- rrule_iter_correct for the DAILY family: every DAILY rule without BYSETPOS and
   without BYEASTER whose day-selecting parts are BYMONTH, BYMONTHDAY, BYYEARDAY, plain BYDAY and
   BYWEEKNO (RFC range), with COUNT / UNTIL, any interval and time expansion: for EVERY fuel the
   model of the generator and the specification yield the same instants in the same order.
   Pass k has the cursor on day  start + k*interval  (kept an existing date by the fixday carry
   loop, RRAdvanceThm.fix_loop_ordinal); the iterinfo is rebuilt only when the month changes, and
   then equals the one built from scratch (rebuild_same_year / rebuild_from_previous_year). *)
From Coq Require Import ZArith List Bool Lia ZifyBool.
From V Require Import base.Cal gen.RrTables rr.RRBase rr.RRNorm rr.RRMasks rr.RRIter rr.RRSpec
  rr.RROverlay rr.RRWeekCal rr.RRWeekFinal rr.RRFilterThm rr.RRFilterSpec rr.RRGateThm rr.RRTimesetThm
  rr.RRDaysetThm rr.RRAdvanceThm rr.RRIterThm rr.RRPassThm rr.RRYearlyThm rr.RRYearlyEasterThm
  rr.RRCountThm rr.RRYearlyCountThm rr.RRYearlyUntilThm.
Import ListNotations.
Open Scope Z_scope.

(* rebuild() within the same year (month change): nothing the model reads changes *)
Theorem rebuild_same_year : forall rl y m0 m ii,
  rebuild rl ii_init y m0 = Ok ii -> 1 <= y <= 9999 -> truthy (bynweekday rl) = false ->
  rebuild rl ii y m = rebuild rl ii_init y m.
Proof.
  intros rl y m0 m ii HR Hy TN.
  destruct (rebuild_slots rl y m0 ii Hy HR) as (LY & _).
  (* unfold the first call to know every slot of ii *)
  revert HR. unfold rebuild at 1.
  destruct (is_leap y) eqn:L0; destruct (is_leap (y + 1)) eqn:L1.
  all: change (lastyear ii_init) with (@None Z); change (opt_neqb None y) with true; cbv iota.
  all: destruct (date_ord y 1 1) as [yo|e] eqn:ED; cbn [bind]; [|discriminate].
  all: match goal with |- context [if ?c then (T_M365MASK, _, _, _) else _] =>
         destruct (if c then (T_M365MASK, T_MDAY365MASK, T_NMDAY365MASK, T_M365RANGE)
                   else (T_M366MASK, T_MDAY366MASK, T_NMDAY366MASK, T_M366RANGE)) as [[[mm mdm] nmdm] mr] eqn:ET end.
  all: destruct (if negb (truthy (byweekno rl)) then _ else _) as [wno|e] eqn:EW; cbn [bind]; [|discriminate].
  all: rewrite TN; cbn [andb bind nwdaymask yearordinal yearlen];
       change (nwdaymask ii_init) with (@None (list Z)).
  all: destruct (truthy (byeaster rl)) eqn:TE.
  all: try (destruct (RRMasks.easter_ord y) as [eo|e] eqn:EO; cbn [bind]; [|discriminate];
            destruct (if y <? T_MAXYEAR then _ else _) as [ne|e] eqn:EN; cbn [bind]; [|discriminate];
            destruct (build_eastermask _ _ _ _) as [em|e] eqn:EB; cbn [bind]; [|discriminate]).
  all: cbn [bind]; intros E; injection E as E; rewrite <- E; clear E ii LY.
  all: unfold rebuild; cbn [lastyear lastmonth yearlen nextyearlen yearordinal yearweekday mmask mrange
         mdaymask nmdaymask wdaymask wnomask nwdaymask eastermask].
  all: unfold opt_neqb at 1; rewrite Z.eqb_refl; cbn [negb].
  all: change (lastyear ii_init) with (@None Z); change (opt_neqb None y) with true; cbv iota.
  all: rewrite ?L0, ?L1, ED; cbn [bind]; rewrite ?ET, EW; cbn [bind]; rewrite TN;
       cbn [andb bind nwdaymask yearordinal yearlen]; rewrite TE.
  all: change (365 + 1) with 366 in *; change (365 + 0) with 365 in *.
  all: try (rewrite EO; cbn [bind]; rewrite EN; cbn [bind]; rewrite EB).
  all: reflexivity.
Qed.

(* ------------------------------------------------------------------ one-day passes (DAILY and sub-daily) *)
Lemma py_slice_single {A} (l : list A) i v : 0 <= i < zlen l ->
  py_slice (set_nat l (Z.to_nat i) v) i (i + 1) = [v].
Proof.
  intros H. rewrite py_slice_in by (unfold zlen in *; rewrite ?set_nat_length; lia).
  replace (Z.to_nat (i + 1 - i)) with 1%nat by lia.
  rewrite skipn_set_nat by (unfold zlen in H; lia). reflexivity.
Qed.

Lemma set_nat_twice {A} (l : list A) : forall k v w, set_nat (set_nat l k v) k w = set_nat l k w.
Proof. induction l as [|h t IH]; intros [|k] v w; cbn [set_nat]; try reflexivity. rewrite IH. reflexivity. Qed.

(* the day set of a one-day pass, the filter loop on it and what is left, for any frequency that
   uses ddayset (DAILY, HOURLY, MINUTELY, SECONDLY) *)
Theorem single_day_filter : forall rl ii year month day b,
  valid_ymd year month day = true ->
  let i := ord_of_ymd year month day - yearordinal ii in
  0 <= i < yearlen ii -> day_rejected rl ii i = Ok b ->
  exists ds ds',
    ddayset ii year month day = Ok (ds, i, i + 1) /\
    filter_loop rl ii (py_slice ds i (i + 1)) ds false = Ok (ds', b) /\
    py_slice ds' i (i + 1) = [if b then None else Some i].
Proof.
  intros rl ii year month day b Hv i Hi Hr.
  unfold ddayset, date_ord. rewrite Hv. cbn [bind]. fold i.
  assert (Hi' : 0 <= i < yearlen ii) by exact Hi. clearbody i.
  unfold py_set at 1, py_repeat, zlen. rewrite repeat_len.
  replace (i <? 0) with false by lia. replace (i <? 0) with false by lia.
  replace (Z.of_nat (Z.to_nat (yearlen ii)) <=? i) with false by lia. cbn [orb bind].
  set (base := repeat (@None Z) (Z.to_nat (yearlen ii))).
  assert (ZL : zlen base = yearlen ii) by (unfold zlen, base; rewrite repeat_len; lia).
  exists (set_nat base (Z.to_nat i) (Some i)),
         (if b then set_nat base (Z.to_nat i) None else set_nat base (Z.to_nat i) (Some i)).
  split; [reflexivity|].
  rewrite (py_slice_single base i (Some i)) by lia.
  cbn [filter_loop]. rewrite Hr. cbn [bind]. destruct b.
  - unfold py_set, zlen. rewrite set_nat_length. fold (zlen base). rewrite ZL.
    replace (i <? 0) with false by lia. replace (i <? 0) with false by lia.
    replace (yearlen ii <=? i) with false by lia. cbn [orb bind].
    rewrite set_nat_twice. split; [reflexivity|]. apply py_slice_single. lia.
  - split; [reflexivity|]. apply py_slice_single. lia.
Qed.

(* what a one-day pass hands to the gate *)
Theorem single_day_out : forall rl yo i (b : bool) ts cnt out,
  from_ordinal (yo + i) = Ok (yo + i) ->
  out_days rl yo [if b then None else Some i] ts cnt out =
  gate_list rl (if b then [] else map (fun t => (yo + i, t)) ts) cnt out.
Proof.
  intros rl yo i b ts cnt out Hv. destruct b; cbn [out_days gate_list]; [reflexivity|].
  rewrite Hv. destruct (gate_list rl (map (fun s => (yo + i, s)) ts) cnt out) as [[o1 c1] s1].
  destruct s1; reflexivity.
Qed.

(* ------------------------------------------------------------------ the DAILY family *)
Record dfam (r : raw) : Prop := mk_dfam {
  d_wf : spec_wf r = true;
  d_freq : r_freq r = DAILY;
  d_plain : plain_only r = true;
  d_setpos : r_bysetpos r = None;
  d_weekno : all_opt (r_byweekno r) weekno_safe = true;
  d_easter : r_byeaster r = None
}.

Definition at_pass_d (r : raw) (rl : rule) (k : Z) (cnt : option Z) (s : state) : Prop :=
  valid_ymd (c_year s) (c_month s) (c_day s) = true /\
  ord_of_ymd (c_year s) (c_month s) (c_day s) = sp_ord0 r + k * r_interval r /\
  rebuild rl ii_init (c_year s) (c_month s) = Ok (c_ii s) /\
  c_timeset s = period_times r 0 /\ c_count s = cnt.

(* the specification's step for DAILY: the single day start + k*interval *)
Lemma daily_step_items r k : r_freq r = DAILY -> r_bysetpos r = None ->
  let o := sp_ord0 r + k * r_interval r in 1 <= o <= max_ord ->
  step_items r k = filter (inst_le (sp_start r))
    (if day_ok r o then map (fun t => (o, t)) (period_times r 0) else []).
Proof.
  intros Hfr Hsp o Ho.
  unfold step_items, is_coarse, select_pos. rewrite Hfr, Hsp. change (DAILY <=? DAILY) with true. cbv iota.
  f_equal. unfold cands_coarse, period_days. rewrite Hfr.
  change (DAILY =? YEARLY) with false. change (DAILY =? MONTHLY) with false. change (DAILY =? WEEKLY) with false.
  cbv iota. fold o.
  replace (Z.max o 1) with o by lia. replace (Z.min o max_ord + 1) with (o + 1) by lia.
  unfold zrange. replace (Z.to_nat (o + 1 - o)) with 1%nat by lia. cbn [zrange_nat flat_map].
  apply app_nil_r.
Qed.

Lemma step_lo_daily r k : r_freq r = DAILY -> step_lo r k = sp_ord0 r + k * r_interval r.
Proof.
  intros Hf. unfold step_lo, is_coarse, period_days. rewrite Hf. change (DAILY <=? DAILY) with true.
  change (DAILY =? YEARLY) with false. change (DAILY =? MONTHLY) with false. change (DAILY =? WEEKLY) with false.
  reflexivity.
Qed.

(* index of a valid date in its year *)
Lemma index_in_year y m d : valid_ymd y m d = true ->
  0 <= ord_of_ymd y m d - jan1 y < year_len y /\ 1 <= ord_of_ymd y m d <= max_ord /\ 1 <= y <= 9999.
Proof.
  intros V. pose proof (ord_of_ymd_range y m d V) as R. unfold valid_ymd in V.
  assert (Hm : 1 <= m <= 12) by lia. assert (Hd : 1 <= d <= dim y m) by lia.
  pose proof (dbm_mono y 1 m ltac:(lia) ltac:(lia) ltac:(lia)) as M1.
  pose proof (dbm_mono y (m + 1) 13 ltac:(lia) ltac:(lia) ltac:(lia)) as M2.
  rewrite dbm_1 in M1. rewrite dbm_13 in M2. pose proof (dbm_succ y m Hm) as DS.
  rewrite jan1_eq. unfold ord_of_ymd in *. lia.
Qed.

Lemma fix_loop_year_le : forall fuel year month day dm y' m' d',
  fix_loop fuel year month day dm = FixOk y' m' d' -> year <= T_MAXYEAR -> year <= y' <= T_MAXYEAR.
Proof.
  induction fuel as [|k IH]; intros year month day dm y' m' d'; cbn [fix_loop]; [discriminate|].
  destruct (dm <? day).
  - destruct (month + 1 =? 13).
    + destruct (T_MAXYEAR <? year + 1) eqn:EM; [discriminate|]. intros H Hy.
      pose proof (IH _ _ _ _ _ _ _ H ltac:(lia)). lia.
    + intros H Hy. apply (IH _ _ _ _ _ _ _ H Hy).
  - intros H Hy. inversion H; subst. lia.
Qed.

(* a DAILY pass: day set, filter, gate, against the specification's step *)
Lemma daily_pass_full : forall r rl k cnt s,
  normalize r = Ok rl -> dfam r -> at_pass_d r rl k cnt s ->
  let o := sp_ord0 r + k * r_interval r in
  let i := o - jan1 (c_year s) in
  exists ds ds' f out' c1 s1 c1' b1,
    getdayset rl (c_ii s) (c_year s) (c_month s) (c_day s) = Ok (ds, i, i + 1) /\
    filter_loop rl (c_ii s) (py_slice ds i (i + 1)) ds false = Ok (ds', f) /\
    out_days rl (yearordinal (c_ii s)) (py_slice ds' i (i + 1)) (period_times r 0) cnt (c_out s) = (out', c1, s1) /\
    sp_take r (step_items r k) cnt (c_out s) = (out', c1', b1) /\
    (s1 = None -> b1 = false /\ c1 = c1') /\ (s1 <> None -> b1 = true \/ until_lt_start r) /\
    (sp_after_until r (o, 0) = true -> out' = c_out s).
Proof.
  intros r rl k cnt s HN [HW Hfr Hp Hsp Hs He] (Av & Ao & Ar & At & Ac) o i.
  destruct (normalize_misc r rl HN) as (_ & _ & _ & _ & _ & _ & Nu).
  pose proof (normalize_freq r rl HN) as Nfr. rewrite Hfr in Nfr.
  assert (V : valid_ymd (r_y r) (r_m r) (r_d r) = true).
  { pose proof HW as HW'. unfold spec_wf in HW'.
    repeat match type of HW' with _ && _ = true =>
      let H := fresh "W" in apply andb_true_iff in HW'; destruct HW' as [HW' H] end. assumption. }
  destruct (normalize_start_until r rl HN V) as (S1 & _ & _).
  destruct (index_in_year _ _ _ Av) as (Hi & Ho & Hy). rewrite Ao in Hi, Ho. fold o in Hi, Ho. fold i in Hi.
  pose proof (rebuild_ii_for rl _ _ _ Hy Ar) as F.
  assert (EI : ord_of_ymd (c_year s) (c_month s) (c_day s) - yearordinal (c_ii s) = i).
  { rewrite (f_yo _ _ F), Ao. reflexivity. }
  (* the filter on that day *)
  assert (HRj : day_rejected rl (c_ii s) i = Ok (negb (day_ok r o))).
  { rewrite (day_filter_correct_guarded r rl (c_year s) (c_month s) (c_ii s) i HN HW Hp Hs (or_introl He) Hy Ar Hi).
    unfold i. replace (jan1 (c_year s) + (o - jan1 (c_year s))) with o by lia. reflexivity. }
  destruct (single_day_filter rl (c_ii s) (c_year s) (c_month s) (c_day s) (negb (day_ok r o)) Av)
    as (ds & ds' & E1 & E2 & E3).
  { rewrite EI, (f_ylen _ _ F). exact Hi. }
  { rewrite EI. exact HRj. }
  rewrite EI in E1, E2, E3.
  assert (G : getdayset rl (c_ii s) (c_year s) (c_month s) (c_day s) = Ok (ds, i, i + 1)).
  { unfold getdayset. rewrite Nfr. change (DAILY =? YEARLY) with false. change (DAILY =? MONTHLY) with false.
    change (DAILY =? WEEKLY) with false. change ((DAILY <=? DAILY) && (DAILY <=? SECONDLY)) with true.
    cbv iota. exact E1. }
  (* the candidates *)
  set (L := if negb (day_ok r o) then [] else map (fun t => (o, t)) (period_times r 0)).
  assert (EO : out_days rl (yearordinal (c_ii s)) (py_slice ds' i (i + 1)) (period_times r 0) cnt (c_out s) =
               gate_list rl L cnt (c_out s)).
  { rewrite E3. rewrite (f_yo _ _ F).
    rewrite single_day_out.
    - unfold L, i. replace (jan1 (c_year s) + (o - jan1 (c_year s))) with o by lia. reflexivity.
    - unfold from_ordinal, i. replace (jan1 (c_year s) + (o - jan1 (c_year s))) with o by lia.
      replace ((1 <=? o) && (o <=? max_ord)) with true by lia. reflexivity. }
  assert (ES : step_items r k = filter (inst_le (sp_start r)) L).
  { rewrite (daily_step_items r k Hfr Hsp Ho). fold o. unfold L. destruct (day_ok r o); reflexivity. }
  pose proof (gate_take_gen rl r S1 Nu L cnt (c_out s)) as GT.
  assert (DU : sp_after_until r (o, 0) = true -> fst (fst (gate_list rl L cnt (c_out s))) = c_out s).
  { intros AU. destruct (gate_list_all_after rl r Nu L cnt (c_out s)) as (st & Eg & _).
    - intros [o' t] Hx. unfold L in Hx. destruct (negb (day_ok r o)); [destruct Hx|].
      apply in_map_iff in Hx. destruct Hx as (t' & E & Ht'). inversion E; subst o' t'.
      pose proof (period_times_nonneg r 0 t Ht') as Bt.
      apply (after_until_mono r (o, 0) (o, t) AU). unfold inst_le. cbn [fst snd]. lia.
    - rewrite Eg. reflexivity. }
  rewrite <- EO in GT, DU. rewrite <- ES in GT.
  destruct (out_days rl (yearordinal (c_ii s)) (py_slice ds' i (i + 1)) (period_times r 0) cnt (c_out s))
    as [[o1 c1] s1] eqn:EOD.
  destruct (sp_take r (step_items r k) cnt (c_out s)) as [[a1 c1'] b1] eqn:ET.
  destruct GT as (G1 & G2 & G3). subst a1.
  exists ds, ds', (negb (day_ok r o)), o1, c1, s1, c1', b1.
  split; [exact G|]. split; [exact E2|]. split; [exact EOD|]. split; [reflexivity|].
  split; [exact G2|]. split; [exact G3|]. intros AU. apply (DU AU).
Qed.

(* the DAILY advance: the cursor moves `interval` days on (kept an existing date), or the year would
   pass 9999 *)
Lemma daily_advance : forall r rl k cnt s filtered c1 out1,
  normalize r = Ok rl -> dfam r -> at_pass_d r rl k cnt s ->
  (exists s', advance rl s filtered c1 out1 = Ok (AdvGo s') /\ at_pass_d r rl (k + 1) c1 s' /\ c_out s' = out1) \/
  (advance rl s filtered c1 out1 = Ok AdvMax /\ max_ord < sp_ord0 r + (k + 1) * r_interval r).
Proof.
  intros r rl k cnt s filtered c1 out1 HN [HW Hfr Hp Hsp Hs He] (Av & Ao & Ar & At & Ac).
  destruct (normalize_misc r rl HN) as (Ni & _ & _ & _ & _ & _ & _).
  pose proof (normalize_freq r rl HN) as Nfr. rewrite Hfr in Nfr.
  pose proof (normalize_wkst r rl HN) as Nwk.
  pose proof (plain_only_no_nth r rl HN Hp) as TN.
  destruct (normalize_fields r rl HN) as (_ & _ & _ & _ & _ & Nea & _).
  assert (TE : truthy (byeaster rl) = false) by (rewrite Nea, He; reflexivity).
  assert (Hwf : 1 <= r_interval r /\ 0 <= r_wkst r <= 6).
  { pose proof HW as HW'. unfold spec_wf in HW'.
    repeat match type of HW' with _ && _ = true =>
      let H := fresh "W" in apply andb_true_iff in HW'; destruct HW' as [HW' H] end.
    unfold between in *. lia. }
  destruct Hwf as [Hitv Hwk].
  destruct (index_in_year _ _ _ Av) as (_ & _ & Hy).
  set (y := c_year s) in *. set (m := c_month s) in *. set (d := c_day s) in *.
  assert (Hm : 1 <= m <= 12 /\ 1 <= d <= dim y m) by (unfold valid_ymd in Av; lia).
  destruct Hm as [Hm Hd].
  assert (EK : sp_ord0 r + (k + 1) * r_interval r = ord_of_ymd y m d + interval rl) by (rewrite Ao, Ni; ring).
  unfold advance. rewrite Nfr.
  change (DAILY =? YEARLY) with false. change (DAILY =? MONTHLY) with false. change (DAILY =? WEEKLY) with false.
  change (DAILY =? DAILY) with true. cbv iota. fold y m d.
  unfold finish_advance. cbn [andb].
  set (d2 := d + interval rl). assert (Hd2 : d2 = d + r_interval r) by (unfold d2; rewrite Ni; reflexivity).
  assert (Same : at_pass_d r rl (k + 1) c1
                   (mkSt y m d2 (c_hour s) (c_minute s) (c_second s) (c_weekday s) (c_ii s) (c_timeset s) c1 out1)
                 \/ dim y m < d2).
  { destruct (Z_le_gt_dec d2 (dim y m)) as [Hle|Hgt]; [left|right; lia].
    unfold at_pass_d. cbn [c_year c_month c_day c_ii c_timeset c_count].
    split; [unfold valid_ymd; lia|]. split; [rewrite EK; unfold ord_of_ymd, d2; lia|].
    split; [exact Ar|]. split; [exact At|reflexivity]. }
  destruct (28 <? d2) eqn:E28.
  2:{ left. eexists. split; [reflexivity|]. split; [|reflexivity].
      destruct Same as [S|S]; [exact S|]. pose proof (dim_pos y m). lia. }
  destruct (dim y m <? d2) eqn:Edm.
  2:{ left. eexists. split; [reflexivity|]. split; [|reflexivity].
      destruct Same as [S|S]; [exact S|lia]. }
  (* the carry loop *)
  assert (Hk : exists kk, Z.to_nat d2 = S kk /\ d2 <= 28 * Z.of_nat kk + dim y m).
  { exists (Z.to_nat (d2 - 1)). pose proof (dim_pos y m). split; lia. }
  destruct Hk as (kk & Ekk & Hkk). rewrite Ekk.
  pose proof (fix_loop_never_out_of_fuel kk y m d2 (dim y m) ltac:(pose proof (dim_pos y m); lia) Hm Hkk) as NF.
  destruct (fix_loop (S kk) y m d2 (dim y m)) as [y' m' d'| |] eqn:EF; [| |contradiction].
  - (* landed on an existing date *)
    destruct (fix_loop_ordinal (S kk) y m d2 y' m' d' Hm ltac:(lia) EF) as (EO & Hm' & Hd').
    destruct (fix_loop_year_le (S kk) y m d2 (dim y m) y' m' d' EF ltac:(unfold T_MAXYEAR; lia)) as [Hy1 Hy2].
    unfold T_MAXYEAR in Hy2.
    destruct (rebuild_succeeds rl y' m' ltac:(lia) ltac:(rewrite Nwk; exact Hwk) TN (or_introl TE)) as (ii2 & R2).
    assert (R2' : rebuild rl (c_ii s) y' m' = Ok ii2).
    { destruct (Z.eq_dec y' y) as [->|Hne].
      - rewrite (rebuild_same_year rl y m m' (c_ii s) Ar Hy TN). exact R2.
      - destruct (rebuild_slots rl y m (c_ii s) Hy Ar) as (LY & EM).
        destruct (rebuild_char rl y m (c_ii s) Hy Ar) as (_ & CN & _).
        rewrite rebuild_from_previous_year; [exact R2| | exact TN | apply CN; exact TN | right; apply EM; exact TE].
        rewrite LY. unfold opt_neqb. apply negb_true_iff. apply Z.eqb_neq. lia. }
    rewrite R2'. cbn [bind]. left. eexists. split; [reflexivity|]. split; [|reflexivity].
    unfold at_pass_d. cbn [c_year c_month c_day c_ii c_timeset c_count].
    split; [unfold valid_ymd; lia|]. split; [rewrite EO, EK; unfold vord, ord_of_ymd, d2; lia|].
    split; [exact R2|]. split; [exact At|reflexivity].
  - (* the year would pass 9999 *)
    right. split; [reflexivity|].
    pose proof (fix_loop_max_only_beyond (S kk) y m d2 Hm ltac:(unfold T_MAXYEAR; lia) EF) as B.
    unfold T_MAXYEAR in B. change (days_before_year (9999 + 1)) with 3652059 in B.
    rewrite EK. unfold vord, ord_of_ymd, d2, max_ord in *. lia.
Qed.

(* one pass of the loop for the DAILY family *)
Lemma daily_step : forall r rl k cnt s,
  normalize r = Ok rl -> dfam r -> at_pass_d r rl k cnt s ->
  exists acc' cnt' b, sp_take r (step_items r k) cnt (c_out s) = (acc', cnt', b) /\
    ((exists s', step rl s = inl s' /\ at_pass_d r rl (k + 1) cnt' s' /\ c_out s' = acc' /\ b = false) \/
     (exists t, step rl s = inr (acc', t) /\
                (b = true \/ until_lt_start r \/ max_ord < sp_ord0 r + (k + 1) * r_interval r))) /\
    (sp_after_until r (sp_ord0 r + k * r_interval r, 0) = true -> acc' = c_out s).
Proof.
  intros r rl k cnt s HN Y A.
  pose proof Y as [HW Hfr Hp Hsp Hs He].
  destruct (normalize_misc r rl HN) as (_ & Nsp & _ & _ & _ & _ & _).
  destruct (daily_pass_full r rl k cnt s HN Y A)
    as (ds & ds' & f & out' & c1 & s1 & c1' & b1 & E1 & E2 & E3 & E4 & G2 & G3 & G4).
  pose proof A as (Av & Ao & Ar & At & Ac).
  exists out', c1', b1. split; [exact E4|]. split; [|exact G4].
  assert (PRE : step rl s =
    match s1 with
    | Some t => inr (out', t)
    | None => match advance rl s f c1 out' with
              | Err e => inr (out', TRaised e)
              | Ok AdvMax => inr (out', TMaxYear)
              | Ok AdvFuel => inr (out', TOutOfFuel)
              | Ok (AdvGo s') => inl s'
              end
    end).
  { unfold step. rewrite E1. cbn [bind]. rewrite E2. cbn [bind fst snd].
    rewrite Nsp, Hsp. cbn [truthy andb]. rewrite At, Ac. rewrite E3. reflexivity. }
  destruct s1 as [t|].
  - right. exists t. split; [exact PRE|]. destruct (G3 ltac:(discriminate)) as [H|H]; auto.
  - destruct (G2 eq_refl) as [Hb Ec]. subst c1'.
    destruct (daily_advance r rl k cnt s f c1 out' HN Y A) as [(s' & EA & A' & EO)|(EA & Hmax)].
    + left. exists s'. rewrite PRE, EA. split; [reflexivity|]. split; [exact A'|]. split; [exact EO|exact Hb].
    + right. exists TMaxYear. rewrite PRE, EA. split; [reflexivity|]. right. right. exact Hmax.
Qed.

Lemma spec_loop_beyond_daily r limit n k cnt acc :
  r_freq r = DAILY -> max_ord < sp_ord0 r + k * r_interval r ->
  fst (spec_loop r limit n k cnt acc) = acc.
Proof.
  intros Hfr Hk. destruct n as [|n]; cbn [spec_loop]; [reflexivity|].
  destruct (limit <=? zlen acc); [reflexivity|].
  rewrite (step_lo_daily r k Hfr).
  replace (max_ord <? sp_ord0 r + k * r_interval r) with true by lia. reflexivity.
Qed.

Lemma daily_run_dead_until : forall r rl limit n k cnt s,
  normalize r = Ok rl -> dfam r -> at_pass_d r rl k cnt s -> 0 <= k ->
  sp_after_until r (sp_ord0 r + k * r_interval r, 0) = true ->
  fst (run rl limit n s) = c_out s.
Proof.
  intros r rl limit n. induction n as [|n IH]; intros k cnt s HN Y A Hk AU; cbn [run].
  - reflexivity.
  - destruct (limit <=? zlen (c_out s)); [reflexivity|].
    pose proof Y as [HW Hfr Hp Hsp Hs He]. pose proof (wf_itv r HW) as Hitv.
    destruct (daily_step r rl k cnt s HN Y A) as (acc' & cnt' & b & ET & Hcase & Hau).
    specialize (Hau AU).
    destruct Hcase as [(s' & ES & A' & EO & Eb)|(t & ES & _)].
    + rewrite ES. rewrite (IH (k + 1) cnt' s' HN Y A' ltac:(lia)).
      * rewrite EO. exact Hau.
      * apply (after_until_mono r _ _ AU). unfold inst_le. cbn [fst snd]. nia.
    + rewrite ES. cbn [fst]. exact Hau.
Qed.

Lemma daily_run_is_spec : forall r rl limit n k cnt s,
  normalize r = Ok rl -> dfam r -> at_pass_d r rl k cnt s -> 0 <= k ->
  fst (run rl limit n s) = fst (spec_loop r limit n k cnt (c_out s)).
Proof.
  intros r rl limit n. induction n as [|n IH]; intros k cnt s HN Y A Hk.
  - reflexivity.
  - pose proof Y as [HW Hfr Hp Hsp Hs He]. pose proof (wf_itv r HW) as Hitv.
    pose proof A as (Av & Ao & Ar & At & Ac).
    destruct (index_in_year _ _ _ Av) as (_ & Ho & _). rewrite Ao in Ho.
    destruct (sp_after_until r (sp_ord0 r + k * r_interval r, 0)) eqn:AU.
    + rewrite (daily_run_dead_until r rl limit (S n) k cnt s HN Y A Hk AU).
      cbn [spec_loop]. destruct (limit <=? zlen (c_out s)); [reflexivity|].
      rewrite (step_lo_daily r k Hfr).
      replace (max_ord <? sp_ord0 r + k * r_interval r) with false by lia. rewrite AU. reflexivity.
    + cbn [run spec_loop]. destruct (limit <=? zlen (c_out s)); [reflexivity|].
      rewrite (step_lo_daily r k Hfr).
      replace (max_ord <? sp_ord0 r + k * r_interval r) with false by lia. rewrite AU.
      destruct (match cnt with Some c => c <=? 0 | None => false end) eqn:EC.
      * destruct cnt as [c|]; [|discriminate EC].
        assert (D : dead s) by (exists c; split; [exact Ac|lia]).
        pose proof (step_dead rl s D) as SD. destruct (step rl s) as [s'|[out t]].
        -- destruct SD as [E D']. rewrite (run_dead rl limit n s' D'). exact E.
        -- exact SD.
      * destruct (daily_step r rl k cnt s HN Y A) as (acc' & cnt' & b & ET & Hcase & _).
        rewrite ET. destruct Hcase as [(s' & ES & A' & EO & Eb)|(t & ES & Hb)].
        -- rewrite ES. subst b. rewrite <- EO. apply IH; try assumption. lia.
        -- rewrite ES. cbn [fst]. destruct b; [reflexivity|].
           destruct Hb as [Hb|[UL|Hmax]]; [discriminate Hb| |].
           ++ symmetry. apply (spec_loop_dead_until r limit UL).
           ++ symmetry. apply (spec_loop_beyond_daily r limit n (k + 1) cnt' acc' Hfr Hmax).
Qed.

(* rrule_iter_correct for the DAILY family: every fuel *)
Theorem daily_iter_correct : forall r rl limit n,
  normalize r = Ok rl -> dfam r ->
  fst (iterate rl limit n) = fst (spec_iter r limit n).
Proof.
  intros r rl limit n HN Y.
  pose proof Y as [HW Hfr Hp Hsp Hs He].
  destruct (normalize_misc r rl HN) as (Ni & Nsp & Ny & Nm & Nd & Nc & Nu).
  pose proof (normalize_freq r rl HN) as Nfr. rewrite Hfr in Nfr.
  pose proof (normalize_wkst r rl HN) as Nwk.
  pose proof (plain_only_no_nth r rl HN Hp) as TN.
  destruct (normalize_fields r rl HN) as (_ & _ & _ & _ & _ & Nea & _).
  assert (TE : truthy (byeaster rl) = false) by (rewrite Nea, He; reflexivity).
  assert (Hwf : 0 <= r_wkst r <= 6 /\ valid_ymd (r_y r) (r_m r) (r_d r) = true).
  { pose proof HW as HW'. unfold spec_wf in HW'.
    repeat match type of HW' with _ && _ = true =>
      let H := fresh "W" in apply andb_true_iff in HW'; destruct HW' as [HW' H] end.
    unfold between in *. split; [lia|assumption]. }
  destruct Hwf as [Hwk V].
  destruct (index_in_year _ _ _ V) as (_ & _ & Hy0).
  destruct (rebuild_succeeds rl (r_y r) (r_m r) Hy0 ltac:(rewrite Nwk; exact Hwk) TN (or_introl TE)) as (ii0 & R0).
  pose proof (timeset_is_spec r rl HN HW ltac:(rewrite Hfr; reflexivity)) as HT.
  unfold iterate, init_state. rewrite Nfr. change (DAILY =? WEEKLY) with false. cbn [andb]. cbv iota.
  rewrite Ny, Nm, Nd, R0. cbn [bind].
  change (DAILY <? HOURLY) with true. cbv iota. rewrite HT. cbn [bind]. rewrite Nc.
  unfold spec_iter.
  set (s0 := mkSt _ _ _ _ _ _ _ _ _ _ _).
  assert (A0 : at_pass_d r rl 0 (r_count r) s0).
  { unfold at_pass_d, s0. cbn [c_year c_month c_day c_ii c_timeset c_count].
    split; [exact V|]. split; [unfold sp_ord0; ring|]. split; [exact R0|]. split; reflexivity. }
  pose proof (daily_run_is_spec r rl limit n 0 (r_count r) s0 HN Y A0 ltac:(lia)) as Q.
  change (c_out s0) with (@nil instant) in Q.
  destruct (run rl limit n s0) as [out t]. destruct (spec_loop r limit n 0 (r_count r) []) as [acc t'].
  cbn [fst] in *. rewrite Q. reflexivity.
Qed.

(* non-vacuity: rrule(DAILY, dtstart=datetime(2023,12,25,9,0), interval=3, bymonth=(1,12), byweekday=(MO,TH),
   count=4) crosses the year end *)
Definition raw_daily_example : raw :=
  mkRaw DAILY false 2023 12 25 9 0 0 3 0 (Some 4) None false
        None (Some [1; 12]) None None None None (Some [(0, 0); (3, 0)]) None None None.
Example daily_example :
  dfam raw_daily_example /\
  match normalize raw_daily_example with
  | Ok rl => fst (iterate rl 100 40) =
             [(ord_of_ymd 2023 12 25, 32400); (ord_of_ymd 2023 12 28, 32400); (ord_of_ymd 2024 1 15, 32400);
              (ord_of_ymd 2024 1 18, 32400)]
  | Err _ => False
  end.
Proof. split; [constructor; reflexivity|vm_compute; reflexivity]. Qed.
