(* finite sweep shard: year shapes whose 1 January is weekday 3 (see RRWeekSweepDefs.v) *)
From Coq Require Import ZArith List Bool.
From V Require Import rr.RRWeekSweepDefs.
Open Scope Z_scope.
Lemma sweep_wd_3 : sweep_wd 3 = true.
Proof. vm_compute. reflexivity. Qed.
